"""C17 "Constraint-table queries follow set semantics" -- BOUNDED stand-in (never a proof).

Three groups of checks of vc2_conformance/constraint_table.py (+ decoder/assertions.py:
assert_level_constraint), each against a reference written from the property statement:

(1) ValueSet / AnyValue against Python frozensets over a small universe: every program of at
    most N construction / add_value / add_range / union steps is executed on the real class
    and queried with `in` for every probe value; is_disjoint, union, equality (soundness only)
    on pairs; iteration, iter_values, str and repr must denote the same set.
    Multi-variable programs: up to three named sets, constructions, add_value / add_range, unions
    stored under new or existing names (operands in both orders, empty and AnyValue operands),
    the copy-like ValueSet(*x); EVERY live variable is compared with its own model after EVERY
    step, so that two sets sharing state (aliasing) are noticed when one of them changes later.
    In the same spirit the sets returned by allowed_values_for, the list returned by
    filter_constraint_table and the cells read from CSV are changed and must not affect the
    table, a second identical call, or each other.
(2) filter_constraint_table / is_allowed_combination / allowed_values_for against the
    definition "a combination is allowed iff some column contains every given value", the
    property's equivalence  v in allowed_values_for(T,k,vals) <=> is_allowed(T, vals+{k:v}),
    and the validator's one-value-at-a-time check: the real assert_level_constraint(state, key,
    value) on a State, with the enumerated table substituted for the module-level
    LEVEL_CONSTRAINTS (restored in a finally), keys named like the real level-table keys
    ("level" in every position or absent), ALL orders of the keys, a key given again, a key no
    column lists -- against "the dictionary of the values accepted so far plus the new value is
    an allowed combination" (i.e. every prefix is allowed).
(3) read_constraints_from_csv against an independent reader of the documented CSV format: an
    exhaustive grid over the kinds of cell (ditto in every column incl. the first, after every
    kind of cell, on consecutive rows, with comment / blank rows between; NON-RECTANGULAR files:
    skipped rows narrower and wider than the table, key rows with cells not written or with
    extra trailing empty cells, blank lines at the end, no final line end), seeded random CSV
    texts, and the shipped level_constraints.csv.
(4) the same validator clause on the real level table: every ordered pair of keys, "level" with
    every ordered pair of other keys in each position, seeded random walks (key orders shuffled,
    "level" first / later / absent / twice, keys given again), against the independent parse of
    the shipped CSV.

The reference never calls or copies the code under check.  All bounds are stated in the
`domain` strings of the evidence.
"""
import ast
import copy
import gc
import itertools
import multiprocessing
import operator
import os
import random
import shutil
import tempfile
import time
import traceback
from collections import OrderedDict
from enum import IntEnum

ANY = "<ANY>"  # model of AnyValue: contains everything
MAX_FAIL_PER_KIND = 3  # replay files written per kind of failure
# the machine is shared: the quick tier uses at most 6 worker processes (VERIF_C17_NPROC overrides; thorough tier: 16, see check_c17)
NPROC = max(1, min(int(os.environ.get("VERIF_C17_NPROC", "6")), os.cpu_count() or 1))


# ------------------------------------------------------------------------------------------------
# loading the code under check (VERIF_REPO aware)
# ------------------------------------------------------------------------------------------------
def _load():
    from pyvc import frontend

    frontend.ensure_repo_on_path()
    import vc2_conformance.constraint_table as ct

    return ct


def _load_validator():
    from pyvc import frontend

    frontend.ensure_repo_on_path()
    import vc2_conformance.decoder.assertions as assertions
    import vc2_conformance.level_constraints as level_constraints
    from vc2_conformance.decoder.exceptions import ValueNotAllowedInLevel
    from vc2_conformance.pseudocode.state import State

    return assertions, level_constraints, ValueNotAllowedInLevel, State


class _Fails(object):
    """Failure collector: keeps the first few payloads of each kind and counts all of them."""

    def __init__(self):
        self.count = {}
        self.kept = {}

    def add(self, kind, payload):
        """payload: a dict or a zero-argument callable building it (only built for the cases that are kept)"""
        self.count[kind] = self.count.get(kind, 0) + 1
        lst = self.kept.setdefault(kind, [])
        if len(lst) < MAX_FAIL_PER_KIND:
            lst.append(payload() if callable(payload) else payload)

    def merge(self, other):
        for k, n in other.count.items():
            self.count[k] = self.count.get(k, 0) + n
        for k, lst in other.kept.items():
            mine = self.kept.setdefault(k, [])
            for p in lst:
                if len(mine) < MAX_FAIL_PER_KIND:
                    mine.append(p)

    def total(self):
        return sum(self.count.values())


def _pool_map(fn, jobs):
    """Run jobs in a fork pool (the code under check was imported before the fork)."""
    jobs = list(jobs)
    if NPROC == 1 or len(jobs) <= 1:
        return [fn(j) for j in jobs]
    if not _POOL:
        # One pool for the whole check (closed by check_c17): starting a worker costs about a second of CPU because the parent
        # holds the large imported package.  gc.freeze keeps the workers' garbage collector from walking (and thereby copying)
        # that inherited heap (measured before: about 1 s user + 1 s system time per worker and pool, nine pools per run).
        gc.collect()
        gc.freeze()
        _POOL.append(multiprocessing.get_context("fork").Pool(NPROC))
    return list(_POOL[0].imap_unordered(fn, jobs, chunksize=max(1, min(8, len(jobs) // (NPROC * 8)))))


_POOL = []


def _close_pool():
    while _POOL:
        pool = _POOL.pop()
        pool.terminate()
        pool.join()


# ================================================================================================
# (1) ValueSet
# ================================================================================================
class _E(IntEnum):
    """Stand-in for the IntEnum members (Levels, Profiles, ...) the real level tables hold."""

    one = 1
    three = 3


class _Atom(object):
    __slots__ = ("kind", "arg", "model", "text")

    def __init__(self, kind, arg, model, text):
        self.kind = kind  # "v" single value, "r" inclusive range
        self.arg = arg  # the value, or the (lo, hi) tuple
        self.model = model  # frozenset: what the property statement says this atom denotes
        self.text = text


def _atoms_int(n):
    """All single values and all inclusive ranges lo <= hi over 0..n-1 (incl. lo == hi)."""
    out = [_Atom("v", v, frozenset([v]), repr(v)) for v in range(n)]
    for lo in range(n):
        for hi in range(lo, n):
            out.append(_Atom("r", (lo, hi), frozenset(range(lo, hi + 1)), repr((lo, hi))))
    return out


def _atoms_str():
    return [_Atom("v", s, frozenset([s]), repr(s)) for s in ("a", "b", "c")]


def _atoms_mixed():
    """bools, ints and IntEnum members as single values; ranges with int, bool and enum bounds
    (bool/IntEnum compare and hash as their integer value, so the frozenset model merges them
    exactly as Python set semantics demands)."""
    vals = [False, True, 0, 1, 2, 3, _E.one, _E.three]
    out = [_Atom("v", v, frozenset([int(v)]), repr(v)) for v in vals]
    for lo in range(4):
        for hi in range(lo, 4):
            out.append(_Atom("r", (lo, hi), frozenset(range(lo, hi + 1)), repr((lo, hi))))
    out.append(_Atom("r", (False, True), frozenset([0, 1]), "(False, True)"))
    out.append(_Atom("r", (_E.one, _E.three), frozenset([1, 2, 3]), "(_E.one, _E.three)"))
    return out


_UNIVERSES = {}


def _universe(name):
    """name -> (atoms, probes, flavour)"""
    if name not in _UNIVERSES:
        if name.startswith("int"):
            n = int(name[3:])
            _UNIVERSES[name] = (_atoms_int(n), list(range(-1, n + 1)), "int")
        elif name == "str":
            _UNIVERSES[name] = (_atoms_str(), ["a", "b", "c", "d", ""], "str")
        elif name == "mixed":
            _UNIVERSES[name] = (_atoms_mixed(), [-1, 0, 1, 2, 3, 4, False, True, _E.one, _E.three], "mixed")
        else:
            raise ValueError(name)
    return _UNIVERSES[name]


def _modes(m, policy, rng=None):
    """Ways of building a set from a sequence of m atoms.
    (j, ops): the first j atoms are constructor arguments, each further atom a is applied by
       'M' the add_value/add_range method, 'R' vs = vs + ValueSet(a), 'L' vs = ValueSet(a) + vs.
    ('S', j): ValueSet(first j atoms) + ValueSet(the other atoms)."""
    if policy == "full":
        out = []
        for j in range(m + 1):
            for ops in itertools.product("MRL", repeat=m - j):
                out.append((j, ops))
        for j in range(1, m - 1):
            out.append(("S", j))
        return out
    # restricted: homogeneous modes, the middle split and one seeded random mixed mode
    out = [(m, ()), (0, ("M",) * m), (0, ("R",) * m), (0, ("L",) * m)]
    if m >= 3:
        out.append(("S", m // 2))
    j = rng.randrange(0, m)
    out.append((j, tuple(rng.choice("MRL") for _ in range(m - j))))
    return out


def _build(VS, atoms, mode):
    if mode[0] == "S":
        j = mode[1]
        return VS(*[a.arg for a in atoms[:j]]) + VS(*[a.arg for a in atoms[j:]])
    j, ops = mode
    vs = VS(*[a.arg for a in atoms[:j]])
    for a, op in zip(atoms[j:], ops):
        if op == "M":
            if a.kind == "v":
                vs.add_value(a.arg)
            else:
                vs.add_range(a.arg[0], a.arg[1])
        elif op == "R":
            vs = vs + VS(a.arg)
        else:
            vs = VS(a.arg) + vs
    return vs


def _program_text(atoms, mode):
    if mode[0] == "S":
        j = mode[1]
        return "vs = ValueSet(%s) + ValueSet(%s)" % (", ".join(a.text for a in atoms[:j]), ", ".join(a.text for a in atoms[j:]))
    j, ops = mode
    parts = ["vs = ValueSet(%s)" % ", ".join(a.text for a in atoms[:j])]
    for a, op in zip(atoms[j:], ops):
        if op == "M":
            parts.append("vs.add_value(%s)" % a.text if a.kind == "v" else "vs.add_range%s" % a.text)
        elif op == "R":
            parts.append("vs = vs + ValueSet(%s)" % a.text)
        else:
            parts.append("vs = ValueSet(%s) + vs" % a.text)
    return "; ".join(parts)


def _parse_str(s, flavour):
    """Reader of the documented str() form: '{<no values>}' or '{1, 2, 3, 10-20}'."""
    if s == "{<no values>}":
        return frozenset()
    if not (s.startswith("{") and s.endswith("}")):
        raise ValueError("not of the documented form: %r" % (s,))
    out = set()
    for part in s[1:-1].split(", "):
        if flavour == "int" and "-" in part:
            lo, hi = part.split("-")
            out.update(range(int(lo), int(hi) + 1))
        else:
            out.add(ast.literal_eval(part))
    return frozenset(out)


def _expand_items(items):
    out = set()
    for it in items:
        if isinstance(it, tuple):
            out.update(range(int(it[0]), int(it[1]) + 1))
        else:
            out.add(it)
    return frozenset(out)


def _check_set(ct, vs, model, probes, flavour, views):
    """-> list of (kind, expected, observed) for one real ValueSet against its model set."""
    bad = []
    got = [x in vs for x in probes]
    exp = [x in model for x in probes]
    if got != exp:
        bad.append(("valueset-membership", dict(zip(map(repr, probes), exp)), dict(zip(map(repr, probes), got))))
    if views:
        ex = sorted(model, key=repr)
        it = _expand_items(list(vs))
        if it != model:
            bad.append(("valueset-iter", ex, sorted(it, key=repr)))
        if flavour != "str":
            iv = frozenset(vs.iter_values())
            if iv != model:
                bad.append(("valueset-iter_values", ex, sorted(iv, key=repr)))
        if flavour in ("int", "str"):
            s = str(vs)
            try:
                ps = _parse_str(s, flavour)
            except Exception as e:  # malformed text is a failure of the documented form
                ps = "unparsable %r (%r)" % (s, e)
            if ps != model:
                bad.append(("valueset-str", ex, s))
            r = repr(vs)
            back = eval(r, {"ValueSet": ct.ValueSet, "AnyValue": ct.AnyValue})
            if [x in back for x in probes] != exp or isinstance(back, ct.AnyValue):
                bad.append(("valueset-repr", ex, r))
    return bad


def _w_programs(job):
    """All programs whose atom sequence starts with the given prefix of atom indices."""
    uname, m, prefix, policy, seed = job
    ct = _load()
    atoms, probes, flavour = _universe(uname)
    fails = _Fails()
    n_eval = 0
    states = set()
    rng = random.Random(seed * 7919 + m * 1000003 + sum((i + 1) * 1009 ** k for k, i in enumerate(prefix)))
    rest = m - len(prefix)
    full_modes = _modes(m, "full") if policy == "full" else None
    for tail in itertools.product(range(len(atoms)), repeat=rest):
        seq = [atoms[i] for i in tuple(prefix) + tail]
        model = frozenset().union(*[a.model for a in seq]) if seq else frozenset()
        states.add(model)
        modes = full_modes if full_modes is not None else _modes(m, "restricted", rng)
        for mi, mode in enumerate(modes):
            n_eval += 1
            try:
                vs = _build(ct.ValueSet, seq, mode)
                # the derived views (iteration, str, repr) are checked on the constructor form and on the
                # method-only form of every sequence, membership on every form
                bad = _check_set(ct, vs, model, probes, flavour, views=(mi == 0 or mode == (m, ()) or mode == (0, ("M",) * m)))
            except Exception:
                bad = [("valueset-exception", "no exception", traceback.format_exc(limit=4))]
            for kind, exp, obs in bad:
                fails.add(kind, lambda: {"what": "%s: ValueSet does not denote the union of its listed values and inclusive ranges" % kind,
                                 "inputs": {"program": _program_text(seq, mode), "universe": uname},
                                 "expected": exp, "observed": obs})
    return n_eval, states, fails


def _separated_ranges(n, k, start=0):
    """all lists of k ranges over start..n-1, each lying entirely below the next (no value in common)"""
    if k == 0:
        yield []
        return
    for lo in range(start, n):
        for hi in range(lo, n):
            for rest in _separated_ranges(n, k - 1, hi + 1):
                yield [(lo, hi)] + rest


def _w_chains(job):
    """k separated ranges, added in several orders, then one more atom (every value and every range of the universe): the
    last atom may bridge two, three or all of the earlier ranges (a chain of merges)."""
    n, k, part, nparts, seed = job
    ct = _load()
    finals, probes, flavour = _universe("int%d" % n)
    fails = _Fails()
    n_eval = n_two = n_three = 0
    if k <= 3:
        modes = [(k + 1, ()), (0, ("M",) * (k + 1)), ("S", k), (k, ("L",))]
    else:
        modes = [(k + 1, ()), (0, ("M",) * (k + 1)), ("S", k)]
    for bi, base in enumerate(_separated_ranges(n, k)):
        if bi % nparts != part:
            continue
        atoms = [_Atom("r", r, frozenset(range(r[0], r[1] + 1)), repr(r)) for r in base]
        if k <= 3:
            orders = list(itertools.permutations(atoms))
        else:
            mixed = list(atoms)
            random.Random(seed * 31 + bi).shuffle(mixed)
            orders = [tuple(atoms), tuple(reversed(atoms)), tuple(mixed)]
        for od in orders:
            for fin in finals:
                touched = sum(1 for a in atoms if a.model & fin.model)
                seq = list(od) + [fin]
                model = frozenset().union(*[a.model for a in seq])
                for mi, mode in enumerate(modes):
                    n_eval += 1
                    n_two += 1 if touched >= 2 else 0
                    n_three += 1 if touched >= 3 else 0
                    try:
                        vs = _build(ct.ValueSet, seq, mode)
                        bad = _check_set(ct, vs, model, probes, flavour, views=(mi == 0 or (mi == 1 and touched >= 2)))
                    except Exception:
                        bad = [("valueset-exception", "no exception", traceback.format_exc(limit=4))]
                    for kind, exp, obs in bad:
                        fails.add(kind, lambda: {"what": "%s: ValueSet does not denote the union of its listed values and inclusive ranges (chain of range merges)" % kind,
                                         "inputs": {"program": _program_text(seq, mode), "universe": "int%d" % n},
                                         "expected": exp, "observed": obs})
    return n_eval, n_two, n_three, fails


# ------------------------------------------------------------------------------------------------
# multi-variable programs: several named value sets, every variable compared after every step
# (aliasing between value sets only shows when one of them is changed later)
# ------------------------------------------------------------------------------------------------
_PV_NAMES = ("a", "b", "c")


class _PvAlphabet(object):
    """The operations of the multi-variable programs over the universe 0..U-1.
    cons: constructor argument tuples (values and (lo, hi) ranges), each used as ValueSet(*args); AnyValue() besides.
    addv / addr: the arguments of add_value / add_range."""

    def __init__(self, U, reduced):
        self.U = U
        ranges = [(lo, hi) for lo in range(U) for hi in range(lo, U)]
        if reduced:
            self.cons = [(), (0,), (U - 1,), ((1, 2),)]
            self.addv = [0, 1, U - 1]
            self.addr = [(0, 1), (1, 2), (U - 2, U - 1)]
        else:
            self.cons = [()] + [(v,) for v in range(U)] + [(r,) for r in ranges]
            self.addv = list(range(U))
            self.addr = ranges


def _pv_args_model(args):
    out = set()
    for a in args:
        if isinstance(a, tuple):
            out.update(range(a[0], a[1] + 1))
        else:
            out.add(a)
    return frozenset(out)


def _pv_ops(models, alpha, maxvars):
    """Every operation applicable when the variables in `models` are live (names are introduced in the order a, b, c)."""
    live = [n for n in _PV_NAMES if n in models]
    targets = live + ([_PV_NAMES[len(live)]] if len(live) < maxvars else [])
    for z in targets:
        for c in alpha.cons:
            yield ("new", z, c)
        yield ("new", z, "ANY")
    for x in live:
        for v in alpha.addv:
            yield ("addv", x, v)
        for r in alpha.addr:
            yield ("addr", x, r[0], r[1])
    for z in targets:
        for x in live:
            for y in live:
                yield ("plus", z, x, y)
            for lit in ("E", "ANY"):  # anonymous empty ValueSet() / AnyValue() operands, on either side
                yield ("plus", z, x, lit)
                yield ("plus", z, lit, x)
            if models[x] is not ANY:
                yield ("copy", z, x)


def _pv_model_step(models, op):
    """What the statement says the variables denote after the operation: only the named target changes."""
    m = dict(models)
    kind = op[0]
    if kind == "new":
        m[op[1]] = ANY if op[2] == "ANY" else _pv_args_model(op[2])
    elif kind == "addv":
        if m[op[1]] is not ANY:
            m[op[1]] = m[op[1]] | frozenset([op[2]])
    elif kind == "addr":
        if m[op[1]] is not ANY:
            m[op[1]] = m[op[1]] | frozenset(range(op[2], op[3] + 1))
    elif kind == "plus":
        X = frozenset() if op[2] == "E" else ANY if op[2] == "ANY" else m[op[2]]
        Y = frozenset() if op[3] == "E" else ANY if op[3] == "ANY" else m[op[3]]
        m[op[1]] = ANY if (X is ANY or Y is ANY) else (X | Y)
    elif kind == "copy":
        m[op[1]] = m[op[2]]
    else:
        raise ValueError(op)
    return m


def _pv_real_step(ct, env, op):
    kind = op[0]
    if kind == "new":
        env[op[1]] = ct.AnyValue() if op[2] == "ANY" else ct.ValueSet(*op[2])
    elif kind == "addv":
        env[op[1]].add_value(op[2])
    elif kind == "addr":
        env[op[1]].add_range(op[2], op[3])
    elif kind == "plus":
        X = ct.ValueSet() if op[2] == "E" else ct.AnyValue() if op[2] == "ANY" else env[op[2]]
        Y = ct.ValueSet() if op[3] == "E" else ct.AnyValue() if op[3] == "ANY" else env[op[3]]
        # `a += b` is spelt as such (the class has no __iadd__ today: Python falls back to a = a + b)
        env[op[1]] = operator.iadd(X, Y) if op[1] == op[2] else X + Y
    elif kind == "copy":
        # the copy-like construction: iteration yields values and (lo, hi) tuples, the documented constructor arguments
        env[op[1]] = ct.ValueSet(*env[op[2]])


def _pv_text(op):
    lit = {"E": "ValueSet()", "ANY": "AnyValue()"}
    kind = op[0]
    if kind == "new":
        return "%s = %s" % (op[1], "AnyValue()" if op[2] == "ANY" else "ValueSet(%s)" % ", ".join(map(repr, op[2])))
    if kind == "addv":
        return "%s.add_value(%r)" % (op[1], op[2])
    if kind == "addr":
        return "%s.add_range(%r, %r)" % (op[1], op[2], op[3])
    if kind == "plus":
        if op[1] == op[2]:
            return "%s += %s" % (op[1], lit.get(op[3], op[3]))
        return "%s = %s + %s" % (op[1], lit.get(op[2], op[2]), lit.get(op[3], op[3]))
    return "%s = ValueSet(*%s)" % (op[1], op[2])


def _pv_check(ct, env, models, probes):
    """Every live variable against its model: pairwise is_disjoint / == first (they must not change anything), then
    membership over the universe +-1, iteration, iter_values and str of each variable. -> list of (kind, expected, observed)"""
    bad = []
    names = [n for n in _PV_NAMES if n in env]
    for x in names:
        for y in names:
            mx, my = models[x], models[y]
            if mx is ANY and my is ANY:
                exp = False
            elif mx is ANY:
                exp = not my  # everything meets every non-empty set
            elif my is ANY:
                exp = not mx
            else:
                exp = not (mx & my)
            got = env[x].is_disjoint(env[y])
            if got is not exp:
                bad.append(("multivar-is_disjoint", {"%s.is_disjoint(%s)" % (x, y): exp}, got))
            e = env[x] == env[y]
            ne = env[x] != env[y]
            same = (mx is ANY and my is ANY) or (mx is not ANY and my is not ANY and mx == my)
            if e is ne or (e and not same):
                bad.append(("multivar-eq", {"%s == %s" % (x, y): same}, {"==": e, "!=": ne}))
    for n in names:
        o, m = env[n], models[n]
        if m is ANY:
            if not isinstance(o, ct.AnyValue) or not all(p in o for p in probes):
                bad.append(("multivar-membership", {n: "AnyValue"}, repr(o)))
            continue
        got = [p for p in probes if p in o]
        if isinstance(o, ct.AnyValue) or got != [p for p in probes if p in m]:
            bad.append(("multivar-membership", {n: sorted(m)}, {n: got, "repr": repr(o)}))
            continue
        it = _expand_items(list(o))
        iv = frozenset(o.iter_values())
        st = str(o)
        try:
            ps = _parse_str(st, "int")
        except Exception as e:
            ps = "unparsable (%r)" % (e,)
        if it != m or iv != m or ps != m:
            bad.append(("multivar-views", {n: sorted(m)}, {"iter": sorted(it), "iter_values": sorted(iv), "str": st}))
    return bad


def _pv_run(ct, ops, probes, fails, universe, check_every_step):
    """Run one program on the real class; compare all variables after the last step (or after every step)."""
    env = {}
    models = {}
    for i, op in enumerate(ops):
        models = _pv_model_step(models, op)
        try:
            _pv_real_step(ct, env, op)
            bad = _pv_check(ct, env, models, probes) if (check_every_step or i == len(ops) - 1) else []
        except Exception:
            bad = [("multivar-exception", "no exception", traceback.format_exc(limit=4))]
        if bad:
            upto = ops[: i + 1]
            for kind, exp, obs in bad[:2]:
                fails.add(kind, lambda: {
                    "what": "%s: after a sequence of constructions, additions and unions over several value sets, a variable no longer denotes the union of what was added to IT "
                            "(every variable is compared after every step)" % kind,
                    "inputs": {"program": [_pv_text(o) for o in upto], "universe": universe},
                    "expected": {"models": dict((n, "any" if m is ANY else sorted(m)) for n, m in models.items()), "check": exp}, "observed": obs})
            return False
    return True


def _pv_sensitive(ops):
    """a union / copy-like construction followed (later) by an addition: where aliasing would show"""
    seen = False
    for op in ops:
        if op[0] in ("plus", "copy"):
            seen = True
        elif seen and op[0] in ("addv", "addr"):
            return True
    return False


def _w_multivar(job):
    """('exh', U, maxvars, L, reduced, only_sensitive, part, nparts): all programs of exactly L steps (prefixes are the
    programs of the shorter lengths, run as such), only the final state compared;  ('rnd', U, maxvars, lo, hi, seed): seeded
    random programs of 5..10 steps, compared after every step."""
    ct = _load()
    fails = _Fails()
    n_run = n_sens = 0
    if job[0] == "rnd":
        _, U, maxvars, lo, hi, seed = job
        alpha = _PvAlphabet(U, False)
        alpha.cons = alpha.cons + [(0, (U - 2, U - 1)), ((0, 1), U - 1), (1, (0, 2), (2, U - 1))]
        probes = list(range(-1, U + 1))
        for i in range(lo, hi):
            rng = random.Random(seed * 86028121 + i)
            models = {}
            ops = []
            for _ in range(rng.randint(5, 10)):
                cands = list(_pv_ops(models, alpha, maxvars))
                # unions, copies and additions are what matters: draw the kind first, then the operation
                kinds = sorted(set(o[0] for o in cands))
                k = rng.choice(kinds)
                op = rng.choice([o for o in cands if o[0] == k])
                ops.append(op)
                models = _pv_model_step(models, op)
            n_run += 1
            n_sens += 1 if _pv_sensitive(ops) else 0
            _pv_run(ct, ops, probes, fails, "0..%d" % (U - 1), True)
        return n_run, n_sens, fails
    _, U, maxvars, L, reduced, only_sensitive, part, nparts = job
    alpha = _PvAlphabet(U, reduced)
    probes = list(range(-1, U + 1))
    counter = [0]

    def rec(models, ops):
        if len(ops) == L:
            if only_sensitive and not (ops[-1][0] in ("addv", "addr") and any(o[0] in ("plus", "copy") for o in ops[:-1])):
                return
            return leaf(ops)
        for op in _pv_ops(models, alpha, maxvars):
            if len(ops) == min(1, L - 1):  # the jobs share the work by the second operation (the first when L == 1)
                counter[0] += 1
                if counter[0] % nparts != part:
                    continue
            if only_sensitive and len(ops) == L - 1 and op[0] not in ("addv", "addr"):
                continue
            rec(_pv_model_step(models, op), ops + [op])

    def leaf(ops):
        nonlocal n_run, n_sens
        n_run += 1
        n_sens += 1 if _pv_sensitive(ops) else 0
        _pv_run(ct, ops, probes, fails, "0..%d" % (U - 1), False)

    rec({}, [])
    return n_run, n_sens, fails


def _small_sets(ct, atoms, max_atoms, lo=0, hi=None):
    """[(object, model, text)] for the sequences number lo..hi-1 of the family of all sequences of <= max_atoms
    atoms, built in turn through the constructor, through the methods, through right unions (vs + ValueSet(atom)) and
    through left unions (ValueSet(atom) + vs), so that is_disjoint / + / == also see operands that are union results."""
    out = []
    k = -1
    for m in range(max_atoms + 1):
        for idx in itertools.product(range(len(atoms)), repeat=m):
            k += 1
            if k < lo or (hi is not None and k >= hi):
                continue
            seq = [atoms[i] for i in idx]
            mode = ((m, ()), (0, ("M",) * m), (0, ("R",) * m), (0, ("L",) * m))[k % 4]
            model = frozenset().union(*[a.model for a in seq]) if seq else frozenset()
            out.append((_build(ct.ValueSet, seq, mode), model, _program_text(seq, mode)[5:]))
    return out


def _w_pairs(job):
    """is_disjoint / union / equality on pairs A (a slice of the left family) x B (right family)."""
    uname, left_atoms, left_slice, right_atoms, seed = job
    ct = _load()
    atoms, probes, flavour = _universe(uname)
    fails = _Fails()
    left = _small_sets(ct, atoms, left_atoms, left_slice[0], left_slice[1])
    right = _small_sets(ct, atoms, right_atoms)
    snap = [([x in o for x in probes], sorted(map(repr, o))) for (o, _, _) in left + right]
    n_eval = 0
    n_overlap = 0
    eq_incomplete = 0
    for (A, mA, tA) in left:
        for (B, mB, tB) in right:
            n_eval += 1
            inputs = {"A": tA, "B": tB, "universe": uname}
            try:
                exp = not (mA & mB)
                n_overlap += 0 if exp else 1
                d1 = A.is_disjoint(B)
                d2 = B.is_disjoint(A)
                if d1 is not exp or d2 is not exp:
                    fails.add("valueset-is_disjoint", lambda: {"what": "is_disjoint disagrees with the intersection of the two sets being empty",
                                                       "inputs": inputs, "expected": exp, "observed": {"A.is_disjoint(B)": d1, "B.is_disjoint(A)": d2}})
                U = A + B
                mU = mA | mB
                got = [x in U for x in probes]
                if got != [x in mU for x in probes] or isinstance(U, ct.AnyValue):
                    fails.add("valueset-union", lambda: {"what": "A + B does not contain exactly the union", "inputs": inputs,
                                                 "expected": sorted(mU, key=repr), "observed": dict(zip(map(repr, probes), got))})
                e = A == B
                ne = A != B
                if e is ne or (e and mA != mB):
                    fails.add("valueset-eq", lambda: {"what": "A == B although the sets differ (or == and != agree)", "inputs": inputs,
                                              "expected": mA == mB, "observed": {"==": e, "!=": ne}})
                if e and hash(A) != hash(B):
                    fails.add("valueset-hash", lambda: {"what": "equal ValueSets with different hashes", "inputs": inputs, "expected": True, "observed": False})
                if mA == mB and not e:
                    eq_incomplete += 1
            except Exception:
                fails.add("valueset-exception", lambda: {"what": "unexpected exception from ValueSet pair operations", "inputs": inputs,
                                                 "expected": "no exception", "observed": traceback.format_exc(limit=4)})
    # the operands must not have been changed by is_disjoint / + / ==
    for (o, m, t), s in zip(left + right, snap):
        if ([x in o for x in probes], sorted(map(repr, o))) != s:
            fails.add("valueset-operand-mutated", lambda: {"what": "is_disjoint/+/== changed an operand", "inputs": {"A": t, "universe": uname},
                                                   "expected": s, "observed": ([x in o for x in probes], sorted(map(repr, o)))})
    return n_eval, n_overlap, eq_incomplete, fails


def _check_anyvalue(ct, uname, max_atoms):
    """AnyValue: contains everything; either-way union gives AnyValue; disjoint only from the empty set."""
    atoms, probes, flavour = _universe(uname)
    fails = _Fails()
    n = 0
    odd = list(probes) + ["zzz", None, (1, 2), 10 ** 30, 2.5]
    for (A, mA, tA) in _small_sets(ct, atoms, max_atoms):
        n += 1
        inputs = {"A": tA, "universe": uname}
        try:
            any1 = ct.AnyValue()
            obs = {
                "A+Any is AnyValue": isinstance(A + any1, ct.AnyValue),
                "Any+A is AnyValue": isinstance(any1 + A, ct.AnyValue),
                "A+Any contains all": all(x in (A + any1) for x in odd),
                "Any+A contains all": all(x in (any1 + A) for x in odd),
                "A.is_disjoint(Any)": A.is_disjoint(any1),
                "Any.is_disjoint(A)": any1.is_disjoint(A),
                "A==Any": A == any1,
                "Any==A": any1 == A,
                "A!=Any": A != any1,
                "A unchanged": [x in A for x in probes] == [x in mA for x in probes],
            }
            exp = {
                "A+Any is AnyValue": True, "Any+A is AnyValue": True, "A+Any contains all": True, "Any+A contains all": True,
                "A.is_disjoint(Any)": not mA, "Any.is_disjoint(A)": not mA, "A==Any": False, "Any==A": False, "A!=Any": True,
                "A unchanged": True,
            }
            if obs != exp:
                fails.add("anyvalue-combine", lambda: {"what": "AnyValue does not behave as the set of all values when combined with a ValueSet",
                                               "inputs": inputs, "expected": exp, "observed": obs})
        except Exception:
            fails.add("anyvalue-exception", lambda: {"what": "unexpected exception combining AnyValue", "inputs": inputs,
                                             "expected": "no exception", "observed": traceback.format_exc(limit=4)})
    # AnyValue on its own
    n += 1
    a = ct.AnyValue()
    b = ct.AnyValue()
    a.add_value(1)
    a.add_range(2, 3)
    obs = {
        "contains": all(x in a for x in odd),
        "Any+Any": isinstance(a + b, ct.AnyValue),
        "Any.is_disjoint(Any)": a.is_disjoint(b),
        "Any==Any": a == b,
        "Any!=Any": a != b,
        "hash": hash(a) == hash(b),
        "is ValueSet": isinstance(a, ct.ValueSet),
    }
    exp = {"contains": True, "Any+Any": True, "Any.is_disjoint(Any)": False, "Any==Any": True, "Any!=Any": False, "hash": True, "is ValueSet": True}
    if obs != exp:
        fails.add("anyvalue-alone", lambda: {"what": "AnyValue alone does not behave as the set of all values", "inputs": {"program": "a = AnyValue(); a.add_value(1); a.add_range(2, 3); b = AnyValue()"},
                                     "expected": exp, "observed": obs})
    return n, fails


def _part_valueset(rep, tier, seed):
    ct = _load()
    thorough = tier == "thorough"
    n = 9 if thorough else 7
    uname = "int%d" % n
    atoms, probes, _ = _universe(uname)
    na = len(atoms)
    total = _Fails()

    # ---- programs of <= 3 atoms in every build mode; (thorough) 4 atoms in a restricted set of modes
    jobs = [(uname, 0, (), "full", seed), (uname, 1, (), "full", seed)]
    jobs += [(uname, 2, (i,), "full", seed) for i in range(na)]
    jobs += [(uname, 3, (i, j), "full", seed) for i in range(na) for j in range(na)]
    if thorough:
        jobs += [(uname, 4, (i, j), "restricted", seed) for i in range(na) for j in range(na)]
    jobs += [("str", m, (), "full", seed) for m in range(4)]
    jobs += [("mixed", m, (), "full", seed) for m in range(3)] + [("mixed", 3, (i,), "full", seed) for i in range(len(_universe("mixed")[0]))]
    n_eval = 0
    states = {}
    for (job, (ne, st, fl)) in zip(jobs, _ordered(_w_programs, jobs)):
        n_eval += ne
        states.setdefault(job[0], set()).update(st)
        total.merge(fl)
    max_ops = 4 if thorough else 3
    rep.add_bounded(
        "C17.valueset.programs",
        "EXHAUSTIVE: every sequence of <= 3 atoms (an atom = a single value or an inclusive range lo <= hi, incl. lo == hi, adjacent and overlapping ranges) over the "
        "integer universe 0..%d (%d atoms), each built in every mode (first j atoms as constructor arguments, each later atom by add_value/add_range, by vs + ValueSet(atom) "
        "or by ValueSet(atom) + vs, plus ValueSet(first j) + ValueSet(rest)); %s`x in vs` compared with the frozenset union for every x in -1..%d; iteration, iter_values, str "
        "and repr compared with the same set on the constructor and method-only forms. Same for the string universe {'a','b','c'} (values only, <= 3 atoms) and for a mixed "
        "universe (False, True, 0..3, two IntEnum members equal to 1 and 3, ranges over 0..3 and with bool/enum bounds, <= 3 atoms)"
        % (n - 1, na, ("every sequence of 4 atoms in 6 modes (constructor only, methods only, right unions only, left unions only, 2+2 split, one seeded random mixed mode); "
                       if thorough else ""), n),
        n_eval, True, distinct=sum(len(s) for s in states.values()),
        samples=_samples_valueset(ct),
        note="distinct = number of distinct denoted sets reached (%s); <= %d operations; each evaluation is one program run on the real class followed by %d membership queries"
             % (", ".join("%s: %d" % (k, len(v)) for k, v in sorted(states.items())), max_ops, len(probes)))

    # ---- chains of merges: 3 (4) separated ranges, then one atom that may bridge several of them
    cn3, cn4 = (8, 9) if thorough else (7, 8)
    jobs = [(cn3, 3, i, NPROC, seed) for i in range(NPROC)] + [(cn4, 4, i, NPROC, seed) for i in range(NPROC)]
    c_eval = c_two = c_three = 0
    for (ne, n2, n3, fl) in _pool_map(_w_chains, jobs):
        c_eval += ne
        c_two += n2
        c_three += n3
        total.merge(fl)
    rep.add_bounded(
        "C17.valueset.chains",
        "EXHAUSTIVE: every list of 3 separated ranges over 0..%d (in all 6 orders) and every list of 4 separated ranges over 0..%d (listed order, reversed, one seeded "
        "shuffle), followed by every single value and every range of the universe, which may lie apart from, inside, or bridge two, three or all of the earlier ranges; built "
        "by the constructor, by add_range/add_value only, as ValueSet(ranges) + ValueSet(last) and (3 ranges) ValueSet(last) + ValueSet(ranges); membership for every x in "
        "-1..n against the frozenset union; iteration, iter_values, str and repr on the constructor form and, when the last atom bridges, on the method form" % (cn3 - 1, cn4 - 1),
        c_eval, True, distinct=c_two,
        note="distinct = programs whose last atom overlaps at least two of the earlier ranges (%d overlap at least three); 4 and 5 operations" % c_three)

    # ---- multi-variable programs (aliasing between value sets)
    U = 4
    nparts = NPROC * 3
    jobs = [("exh", U, 3, 1, False, False, 0, 1), ("exh", U, 3, 2, False, False, 0, 1)]
    jobs += [("exh", U, 3, 3, False, False, i, nparts) for i in range(nparts)]
    jobs += [("exh", U, 3, 4, True, not thorough, i, nparts) for i in range(nparts)]
    if thorough:
        jobs += [("exh", U, 3, 5, True, True, i, nparts * 4) for i in range(nparts * 4)]
    nrnd = 30000 if thorough else 3000
    step = max(1, nrnd // nparts)
    jobs += [("rnd", 5, 3, lo, min(nrnd, lo + step), seed) for lo in range(0, nrnd, step)]
    mv = {"exh": [0, 0], "rnd": [0, 0]}
    for (job, (nr, ns, fl)) in zip(jobs, _ordered(_w_multivar, jobs)):
        mv[job[0]][0] += nr
        mv[job[0]][1] += ns
        total.merge(fl)
    rep.add_bounded(
        "C17.valueset.multivar",
        "Programs over up to 3 named value sets a, b, c (universe 0..%d). Operations: x = ValueSet(<nothing | one value | one range>), x = AnyValue(), x.add_value(v), "
        "x.add_range(lo, hi), z = x + y for every pair of live variables (also x + x) with the result stored under a new or ANY existing name (z = x is spelt x += y), "
        "z = x + ValueSet(), z = ValueSet() + x, z = x + AnyValue(), z = AnyValue() + x, and the copy-like z = ValueSet(*x). EXHAUSTIVE: every program of <= 3 steps over the "
        "full alphabet (all values, all ranges); every program of 4 steps %sover a reduced alphabet (constructions: empty, 0, %d, (1, 2), AnyValue; add_value 0, 1, %d; add_range "
        "(0, 1), (1, 2), (%d, %d))%s. SAMPLED (seeded): %d programs of 5..10 steps over 0..4 with constructions of up to 3 atoms. After EVERY step EVERY live variable is compared "
        "with its own model (a Python frozenset or 'any'; an operation changes the model of its target only): x.is_disjoint(y) and == / != for all ordered pairs incl. x with "
        "itself, then `in` over -1..U, iteration, iter_values and str of every variable"
        % (U - 1, "whose last step is an addition and that contain an earlier union or copy, " if not thorough else "", U - 1, U - 1, U - 2, U - 1,
           "; every such 5-step program ending in an addition after a union or copy" if thorough else "", mv["rnd"][0]),
        mv["exh"][0] + mv["rnd"][0], False, distinct=mv["exh"][1] + mv["rnd"][1],
        samples=_samples_multivar(ct),
        note="%d exhaustive programs (the prefixes of a program are the shorter programs, each run and compared as such) + %d random ones; distinct = programs in which an addition "
             "follows a union or a copy-like construction (where aliasing between two sets would show)" % (mv["exh"][0], mv["rnd"][0]))

    # ---- pairs: is_disjoint, union, equality soundness
    # (quick tier: the pair families over a universe one value smaller than the programs)
    n3 = n if thorough else n - 1
    uname3 = "int%d" % n3
    na3 = len(_universe(uname3)[0])
    fam2_3 = 1 + na3 + na3 * na3
    step = max(1, fam2_3 // (NPROC * 4))
    jobs = [(uname3, 2, (lo, min(fam2_3, lo + step)), 2, seed) for lo in range(0, fam2_3, step)]
    fam3 = fam2_3 + na3 ** 3
    step3 = max(1, (fam3 - fam2_3) // (NPROC * 4))
    jobs += [(uname3, 3, (lo, min(fam3, lo + step3)), 1, seed) for lo in range(fam2_3, fam3, step3)]
    jobs += [("str", 2, (0, 13), 2, seed), ("mixed", 2, (0, 1 + 20 + 400), 2, seed)]
    n_pairs = n_overlap = eq_inc = 0
    for (ne, no, ei, fl) in _pool_map(_w_pairs, jobs):
        n_pairs += ne
        n_overlap += no
        eq_inc += ei
        total.merge(fl)
    rep.add_bounded(
        "C17.valueset.pairs",
        "EXHAUSTIVE: all pairs (A, B) of ValueSets with A, B each built from <= 2 atoms, and A from exactly 3 atoms with B from <= 1 atom, over the integer universe "
        "0..%d (the operands built in turn by the constructor, by add_value/add_range, by right unions and by left unions) "
        "(also <= 2 x <= 2 atoms over the string and mixed universes): A.is_disjoint(B) and B.is_disjoint(A) == (intersection empty); A + B contains exactly the union (probes -1..%d); "
        "A == B implies equal sets and != is its negation; equal objects hash equally; no operand is changed" % (n3 - 1, n3),
        n_pairs, True, distinct=n_overlap,
        samples=_samples_pairs(ct),
        note="distinct = pairs with a non-empty intersection. Equality is only checked for soundness: the property and the docstrings do not promise that equal sets compare "
             "equal, and %d enumerated pairs denote the same set but compare unequal (e.g. ValueSet(1) vs ValueSet((1, 1)), ValueSet((0, 1), (2, 3)) vs ValueSet((0, 3)))" % eq_inc)
    rep.extra_coverage["C17_equal_sets_comparing_unequal"] = eq_inc

    # ---- non-integer probes: an inclusive range lo..hi contains exactly the x with lo <= x <= hi, so a value strictly between
    # two listed ranges (e.g. 2.5 for (0, 2), (3, 5)) is in neither and must not be contained, however the set was built
    import fractions

    n_real = 0
    fl = _Fails()
    small = [a for a in _universe("int5")[0]]
    halves = [k + 0.5 for k in range(-1, 5)] + [fractions.Fraction(2 * k + 1, 2) for k in range(-1, 5)] + [k + 0.25 for k in (0, 2)]
    for m in (1, 2, 3):
        for combo in itertools.product(small, repeat=m):
            if m == 3 and not all(a.kind == "r" for a in combo[:2]):
                continue
            for mode in ([(m, ()), (0, ("M",) * m), (0, ("R",) * m), (0, ("L",) * m)] + ([("S", 1)] if m >= 2 else [])):
                vs = _build(ct.ValueSet, list(combo), mode)
                n_real += 1
                exp = [any(a.kind == "r" and a.arg[0] <= x <= a.arg[1] for a in combo) for x in halves]
                got = [x in vs for x in halves]
                if got != exp:
                    fl.add("valueset-membership-non-integer", dict(
                        what="membership of a non-integer value differs from the union of the listed inclusive ranges", inputs=dict(program=_program_text(list(combo), mode)),
                        expected=dict(zip(map(repr, halves), exp)), observed=dict(zip(map(repr, halves), got))))
    total.merge(fl)
    rep.add_bounded(
        "C17.valueset.non_integer_probes",
        "EXHAUSTIVE over value sets of <= 2 atoms (3 atoms when the first two are ranges) over 0..4, built by the constructor, add_value/add_range, "
        "right and left unions and a split union: x in set == (some listed inclusive range lo <= x <= hi) for every probe k + 1/2 (float and Fraction), k = -1..4, and 0.25, 2.25 "
        "(in particular a value between two abutting ranges such as (0, 2), (3, 4) is not contained)",
        n_real, True, distinct=n_real)

    # ---- AnyValue
    n_any = 0
    for un, k in ((uname, 2), ("str", 2), ("mixed", 2)):
        ne, fl = _check_anyvalue(ct, un, k)
        n_any += ne
        total.merge(fl)
    rep.add_bounded(
        "C17.anyvalue",
        "EXHAUSTIVE over every ValueSet A of <= 2 atoms (integer universe 0..%d, string and mixed universes): A + AnyValue() and AnyValue() + A are AnyValue and contain every probe "
        "(ints, strings, None, a tuple, a float, 10**30); is_disjoint with AnyValue is true exactly for the empty A, both ways; AnyValue is never equal to a ValueSet; "
        "AnyValue alone: contains everything after add_value/add_range, Any + Any is Any, never disjoint from itself, equal to every AnyValue" % (n - 1),
        n_any, True, distinct=n_any)
    return total


def _ordered(fn, jobs):
    """pool map that keeps job order (jobs are tagged with their index)."""
    res = _pool_map(_Tag(fn), list(enumerate(jobs)))
    res.sort(key=lambda t: t[0])
    return [r for (_, r) in res]


class _Tag(object):
    def __init__(self, fn):
        self.fn = fn

    def __call__(self, ij):
        return ij[0], self.fn(ij[1])


# ================================================================================================
# (2) constraint tables
# ================================================================================================
def _m_matches(col, vals):
    """A column contains a combination iff it lists every given key with the given value in its set.
    Documented special case: a column with no entries at all ('catch all') contains every combination."""
    if len(col) == 0:
        return True
    for k, v in vals.items():
        if k not in col:
            return False
        if col[k] is not ANY and v not in col[k]:
            return False
    return True


def _m_allowed(table, vals):
    return any(_m_matches(col, vals) for col in table)


def _m_values_for(table, key, vals):
    """Values the columns containing `vals` list for `key` (used only where the property's equivalence does
    not apply: catch-all columns, key already chosen, any_value substitution)."""
    out = set()
    for col in table:
        if _m_matches(col, vals) and key in col:
            if col[key] is ANY:
                return ANY
            out |= col[key]
    return frozenset(out)


def _runs(values):
    """maximal runs of consecutive integers"""
    out = []
    for v in sorted(values):
        if out and out[-1][1] == v - 1:
            out[-1][1] = v
        else:
            out.append([v, v])
    return [tuple(r) for r in out]


def _cell_variants(ct, u):
    """For every subset of 0..u-1: the model frozenset and three real ValueSets denoting it
    (values only; maximal ranges only; ranges for runs of >= 2 and values for the rest)."""
    out = []
    for bits in range(1 << u):
        s = frozenset(i for i in range(u) if bits >> i & 1)
        runs = _runs(s)
        v0 = ct.ValueSet(*sorted(s))
        v1 = ct.ValueSet(*runs)
        v2 = ct.ValueSet(*[r if r[0] != r[1] else r[0] for r in runs])
        out.append((s, (v0, v1, v2), ("ValueSet(%s)" % ", ".join(map(repr, sorted(s))), "ValueSet(%s)" % ", ".join(map(repr, runs)),
                                      "ValueSet(%s)" % ", ".join(repr(r if r[0] != r[1] else r[0]) for r in runs))))
    return out


def _table_from_digits(digits, ncols, keys, cells, special, rot, reverse=False):
    """digits: one per (column, key).  digit < len(cells): that subset; then the specials in `special`
    ('ANY' -> AnyValue cell, 'MISSING' -> key absent from the column).  reverse: columns listed last to first."""
    real, model, text = [], [], []
    p = 0
    for c in range(ncols):
        rc, mc, tc = {}, {}, []
        for k in keys:
            d = digits[p]
            if d < len(cells):
                s, variants, texts = cells[d]
                w = (rot + p) % 3
                rc[k] = variants[w]
                mc[k] = s
                tc.append("%r: %s" % (k, texts[w]))
            else:
                sp = special[d - len(cells)]
                if sp == "ANY":
                    rc[k] = special_any[0]
                    mc[k] = ANY
                    tc.append("%r: AnyValue()" % (k,))
            p += 1
        real.append(rc)
        model.append(mc)
        text.append("{%s}" % ", ".join(tc))
    if reverse:
        real.reverse()
        model.reverse()
        text.reverse()
    return real, model, "[%s]" % ", ".join(text)


special_any = [None]  # the shared AnyValue() cell object (set by the worker)


def _install_table(vmods, table):
    assertions, level_constraints = vmods[0], vmods[1]
    assertions.LEVEL_CONSTRAINTS = table
    level_constraints.LEVEL_CONSTRAINTS = table


class _SpyList(list):
    """a table that notes being looked at"""

    seen = 0

    def __iter__(self):
        self.seen += 1
        return list.__iter__(self)

    def __getitem__(self, i):
        self.seen += 1
        return list.__getitem__(self, i)

    def __len__(self):
        self.seen += 1
        return list.__len__(self)


def _canary_patch(ct, vmods):
    """The enumerated table must really be the one assert_level_constraint consults (whatever it then answers)."""
    assertions, level_constraints, VNA, State = vmods
    saved = (getattr(assertions, "LEVEL_CONSTRAINTS", None), level_constraints.LEVEL_CONSTRAINTS)
    spy = _SpyList([{"c17_canary": ct.ValueSet(41)}])
    try:
        _install_table(vmods, spy)
        try:
            assertions.assert_level_constraint(State(), "c17_canary", 41)
        except Exception:
            pass  # the behaviour itself is judged by the enumerated checks, not here
        if not spy.seen:
            raise RuntimeError("C17 checker: substituting the constraint table consulted by assert_level_constraint had no effect")
    finally:
        assertions.LEVEL_CONSTRAINTS, level_constraints.LEVEL_CONSTRAINTS = saved


# ------------------------------------------------------------------------------------------------
# the validator clause: the real assert_level_constraint(state, key, value), one value at a time
# ------------------------------------------------------------------------------------------------
_MISSING = object()
NOKEY = "c17_key_in_no_column"
_REAL_KEYS = []  # key names of the shipped level_constraints.csv (filled by _real_key_names)


def _m_matches_pairs(col, pairs):
    """column lists every (key, value) pair given (a key may occur with several values)"""
    if len(col) == 0:
        return True
    for k, v in pairs:
        if k not in col:
            return False
        if col[k] is not ANY and v not in col[k]:
            return False
    return True


def _level_csv_path():
    import vc2_conformance

    return os.path.join(os.path.dirname(os.path.abspath(vc2_conformance.__file__)), "level_constraints.csv")


def _real_key_names():
    """Key names of the shipped level table (own reading of the CSV), "level" first.  The synthetic tables use
    these names so that a key the validator might treat specially is exercised in every position."""
    if not _REAL_KEYS:
        from pyvc import frontend

        frontend.ensure_repo_on_path()
        with open(_level_csv_path(), encoding="utf-8", newline="") as f:
            rows = _csv_records(f.read())
        names = []
        for row in rows:
            if all((not c.strip()) or c.strip().startswith("#") for c in row):
                continue
            if row[0] not in names:
                names.append(row[0])
        if "level" not in names:
            names.insert(0, "level")
        names.remove("level")
        _REAL_KEYS.extend(["level"] + names)
    return _REAL_KEYS


def _key_names(kept, nkeys):
    """Names of the keys of the kept-th synthetic table: distinct names of real level-table keys; "level" takes
    position kept % (nkeys + 1) (the last choice: "level" does not occur at all)."""
    pool = _real_key_names()[1:]
    j = kept // (nkeys + 1)
    names = []
    i = 0
    while len(names) < nkeys:
        nm = pool[(j * 5 + i * 11) % len(pool)]
        i += 1
        if nm not in names:
            names.append(nm)
    pos = kept % (nkeys + 1)
    if pos < nkeys:
        names[pos] = "level"
    return names


def _copy_state(State, st):
    """an independent copy of a State (so that sibling continuations of one prefix do not share anything)"""
    new = State()
    for k, v in st.items():
        new[k] = OrderedDict(v) if isinstance(v, OrderedDict) else copy.deepcopy(v)
    return new


def _vstep(vmods, mtable, st, d, hist, k, v, probes, fails, inputs, counters):
    """One call of the real assert_level_constraint(st, k, v), judged from the statement.

    d: the dictionary of the values accepted so far (a later value of a key replaces the earlier one);
    hist: every (key, value) pair accepted so far.  The call must accept iff d + {k: v} is an allowed combination
    of the table (every earlier prefix was one, or the walk would not have come here).  When k already has a
    *different* value the statement can be read two ways (the dictionary so far with the value replaced, or every
    value ever given must fit one column): the call must accept when both readings accept, must reject when both
    reject, and is only counted where they differ.
    Returns True / False (accepted / rejected, legitimately) or None after a reported failure."""
    assertions, _, VNA, State = vmods
    ext = dict(d)
    ext[k] = v
    hi = _m_allowed(mtable, ext)
    lo = hi
    if hi and k in d and d[k] != v:
        pairs = set(hist)
        pairs.add((k, v))
        lo = any(_m_matches_pairs(col, pairs) for col in mtable)
    counters["validator"] += 1
    exc = None
    try:
        assertions.assert_level_constraint(st, k, v)
        acc = True
    except VNA as e:  # anything else propagates: an unexpected exception is reported by the caller
        acc = False
        exc = e
    rec = st.get("_level_constrained_values", None)
    after = dict(rec) if rec is not None else {}
    if (acc and not hi) or (lo and not acc):
        fails.add("validator-sequence", lambda: {
            "what": "one-at-a-time check (assert_level_constraint) does not accept exactly the sequences whose every prefix is an allowed combination",
            "inputs": inputs(k, v), "expected": {"accepted": hi, "recorded": ext if hi else dict(d)},
            "observed": {"accepted": acc, "recorded": after}})
        return None
    if lo is not hi:
        counters["ambiguous"] += 1
        counters["ambiguous_accepted"] += 1 if acc else 0
    want = ext if acc else dict(d)
    if after != want:
        fails.add("validator-recorded", lambda: {
            "what": "assert_level_constraint does not record exactly the accepted values (an accepted value is recorded, a rejected one changes nothing, earlier values are kept)",
            "inputs": inputs(k, v), "expected": {"accepted": acc, "recorded": want}, "observed": {"accepted": acc, "recorded": after}})
        return None
    if exc is not None:
        got = {"key": getattr(exc, "key", _MISSING), "value": getattr(exc, "value", _MISSING)}
        lcv = getattr(exc, "level_constrained_values", _MISSING)
        av = getattr(exc, "allowed_values", _MISSING)
        bad = None
        if got != {"key": k, "value": v} or not isinstance(lcv, dict) or dict(lcv) != dict(d):
            bad = "key / value / level_constrained_values"
        elif not hasattr(av, "__contains__"):
            bad = "allowed_values is not a value set"
        elif k not in d and probes:
            wrong = [x for x in probes if (x in av) is not _m_allowed(mtable, dict(d, **{k: x}))]
            if wrong:
                bad = "allowed_values differs from the values x making the prefix + {key: x} an allowed combination, for x in %r" % (wrong[:6],)
        if bad:
            fails.add("validator-exception-fields", lambda: {
                "what": "ValueNotAllowedInLevel does not describe the rejected value as documented (%s)" % bad,
                "inputs": inputs(k, v), "expected": {"key": k, "value": v, "level_constrained_values": dict(d)},
                "observed": {"key": repr(got["key"]), "value": repr(got["value"]), "level_constrained_values": repr(lcv), "allowed_values": repr(av)}})
            return None
    return acc


def _validator_walks(vmods, model, ttext, keys, u, fails, counters, rich, rot):
    """The real assert_level_constraint on sequences over one synthetic table (installed by the caller).

    rich: every sequence of (key, value) steps, value in 0..u-1 (first step also u, a value in no cell), in which the
       keys come in ANY order, at most one step re-assigns a key that already has a value (the same or another
       value), a key that no column lists may come first or second, and the length is at most len(keys) + 1; a
       sequence is extended only while the real function accepts (as the validator stops at the first rejection).
    not rich: the keys in one rotation (by rot) of their listed order, no repetition."""
    State = vmods[3]
    r = len(keys)
    maxlen = r + 1 if rich else r
    order = [keys[(rot + i) % r] for i in range(r)]
    probes = list(range(u + 1))

    def walk(st_parent, d, hist, path, nrep):
        depth = len(path)
        if rich:
            cands = list(keys) + ([NOKEY] if depth <= 1 else [])
        else:
            cands = [order[depth]]
        for k in cands:
            rep = k in d
            if rep and (nrep or not rich):
                continue
            if k is NOKEY:
                values = (rot % u,)
            elif rich and depth == 0:
                values = range(u + 1)
            else:
                values = range(u)
            for v in values:
                st = State() if st_parent is None else _copy_state(State, st_parent)
                acc = _vstep(vmods, model, st, d, hist, k, v, probes, fails,
                             lambda k_, v_: {"table": ttext, "sequence": path + [(k_, v_)]}, counters)
                if rep:
                    counters["repeated"] += 1
                if acc and depth + 1 < maxlen:
                    d2 = OrderedDict(d)
                    d2[k] = v
                    walk(st, d2, hist | frozenset([(k, v)]), path + [(k, v)], nrep + (1 if rep else 0))

    walk(None, OrderedDict(), frozenset(), [], 0)


class _Poisoned(Exception):
    """a result aliased a cell of the (shared) enumerated cells and the probe has changed it: the worker rebuilds its cells"""


def _alias_probe(ct, real, model, k, vals, S, u, fails, inputs0, counters):
    """The result of allowed_values_for must be the caller's own set: adding a value to it must change neither a cell of
    the table nor the result of a second, identical call."""
    counters["alias_probes"] += 1
    marker = u + 7  # in no cell and never queried elsewhere
    before = [x in S for x in range(u + 1)]
    S.add_value(marker)
    hit = ["column %d key %r" % (ci, kk) for ci, col in enumerate(real) for kk, cell in col.items() if not isinstance(cell, ct.AnyValue) and marker in cell]
    S2 = ct.allowed_values_for(real, k, dict(vals))
    again = isinstance(S2, ct.ValueSet) and not isinstance(S2, ct.AnyValue) and marker not in S2 and [x in S2 for x in range(u + 1)] == before and S2 is not S
    if hit or not again:
        fails.add("table-result-aliased", lambda: {
            "what": "the set returned by allowed_values_for is not independent of the table / of a second identical call: after result.add_value(%d) %s" % (
                marker, ("the table cell(s) %s contain %d" % (", ".join(hit), marker)) if hit else "a second identical call is affected"),
            "inputs": dict(inputs0, key=k, values=dict(vals), then="S.add_value(%d)" % marker), "expected": "table and second result unchanged",
            "observed": {"cells containing the marker": hit, "second result": repr(S2)}})
        if hit:
            raise _Poisoned()


def _check_table(ct, vmods, real, model, ttext, keys, u, fails, counters, vmode=1, rot=0):
    """All queries on one table.  Domain of already-chosen values: 0..u-1; of the queried value: 0..u."""
    nokey = "c17_key_in_no_column"
    has_catch_all = any(len(col) == 0 for col in model)
    inputs0 = {"table": ttext}
    cache = {}
    idmap = dict((id(col), i) for i, col in enumerate(real))

    def allowed_real(vals):
        """real filter_constraint_table + is_allowed_combination, checked against the definition"""
        key = frozenset(vals.items())
        if key in cache:
            return cache[key]
        counters["queries"] += 1
        exp_idx = [i for i, col in enumerate(model) if _m_matches(col, vals)]
        flt = ct.filter_constraint_table(real, dict(vals))
        got_idx = []
        ok = isinstance(flt, list)
        if ok:
            for ent in flt:  # must be the containing columns themselves (an equal copy is tolerated, order is not compared)
                i = idmap.get(id(ent))
                if i is None or i in got_idx:
                    hit = [j for j, col in enumerate(real) if col == ent and j not in got_idx]
                    if not hit:
                        ok = False
                        break
                    i = hit[0]
                got_idx.append(i)
        if not ok or sorted(got_idx) != exp_idx:
            fails.add("table-filter", lambda: {"what": "filter_constraint_table does not return exactly the columns containing the given values",
                                       "inputs": dict(inputs0, values=dict(vals)), "expected": exp_idx, "observed": repr(flt)})
        ia = ct.is_allowed_combination(real, dict(vals))
        if ia is not bool(exp_idx):
            fails.add("table-is_allowed", lambda: {"what": "is_allowed_combination disagrees with 'some column contains every given value'",
                                           "inputs": dict(inputs0, values=dict(vals)), "expected": bool(exp_idx), "observed": ia})
        cache[key] = ia
        return ia

    r = len(keys)
    deep = vmode == 2
    has_any = any(c is ANY for col in model for c in col.values())
    for ki, k in enumerate(keys + [nokey]):
        others = [x for x in keys if x != k]
        if k is nokey:
            # a key no column lists: nothing chosen, and one complete assignment
            choices = [(None,) * r, tuple(range(r))] if u >= r else [(None,) * r]
            choices = [tuple(None if c is None else c % u for c in ch) for ch in choices]
        else:
            # every partial assignment of the other keys (None = not chosen)
            choices = itertools.product([None] + list(range(u)), repeat=len(others))
        for choice in choices:
            items = [(o, c) for o, c in zip(others, choice) if c is not None]
            if rot & 1:
                items.reverse()  # the already-chosen values are given in either order
            vals = dict(items)
            counters["avf"] += 1
            S = ct.allowed_values_for(real, k, dict(vals))
            if deep and isinstance(S, ct.ValueSet) and not isinstance(S, ct.AnyValue):
                _alias_probe(ct, real, model, k, vals, S, u, fails, inputs0, counters)
            if not vals:
                # "nothing chosen" through the default argument as well
                S0 = ct.allowed_values_for(real, k)
                if not isinstance(S0, ct.ValueSet) or [v in S0 for v in range(u + 1)] != [v in S for v in range(u + 1)]:
                    fails.add("table-allowed_values_for-default", lambda: {"what": "allowed_values_for(T, k) differs from allowed_values_for(T, k, {})",
                                                                   "inputs": dict(inputs0, key=k), "expected": repr(S), "observed": repr(S0)})
            if not isinstance(S, ct.ValueSet):
                fails.add("table-allowed_values_for-type", lambda: {"what": "allowed_values_for did not return a ValueSet", "inputs": dict(inputs0, key=k, values=vals),
                                                            "expected": "ValueSet", "observed": repr(S)})
                continue
            mv = _m_values_for(model, k, vals) if (has_catch_all or has_any) else None
            for v in range(u + 1):
                lhs = v in S
                ext = dict(vals)
                ext[k] = v
                rhs_real = allowed_real(ext)
                if has_catch_all:
                    exp = True if mv is ANY else (v in mv)
                else:
                    exp = _m_allowed(model, ext)  # the property's equivalence
                if lhs is not exp or (not has_catch_all and lhs is not rhs_real):
                    fails.add("table-allowed_values_for", lambda: {
                        "what": "v in allowed_values_for(T, k, vals) differs from is_allowed_combination(T, vals + {k: v})" if not has_catch_all
                        else "allowed_values_for differs from the union of the values listed for the key by the columns containing vals",
                        "inputs": dict(inputs0, key=k, values=vals, v=v), "expected": exp,
                        "observed": {"v in allowed_values_for": lhs, "is_allowed_combination(extended)": rhs_real}})
            # any_value substitution as documented: the substitute is returned exactly when AnyValue is allowed
            if has_any or has_catch_all or not vals:
                if mv is None:
                    mv = _m_values_for(model, k, vals)
                counters["avf"] += 1
                sub = ct.ValueSet(12345)
                S2 = ct.allowed_values_for(real, k, dict(vals), sub)
                if (S2 is sub) is not (mv is ANY) or isinstance(S, ct.AnyValue) is not (mv is ANY):
                    fails.add("table-any_value", lambda: {"what": "allowed_values_for(any_value=...) substitutes exactly when AnyValue is allowed",
                                                  "inputs": dict(inputs0, key=k, values=vals), "expected": mv is ANY,
                                                  "observed": {"substituted": S2 is sub, "default result is AnyValue": isinstance(S, ct.AnyValue)}})
    allowed_real({})

    if deep:
        # the list returned by filter_constraint_table belongs to the caller (its entries are, by design, the table's own columns)
        for vals in ({}, dict((kk, 0) for kk in keys[:1])):
            counters["alias_probes"] += 1
            n0 = len(real)
            flt = ct.filter_constraint_table(real, dict(vals))
            n1 = len(flt)
            if flt is real:
                shared = True
            else:
                flt.append({NOKEY: ct.ValueSet(0)})
                shared = len(real) != n0 or len(ct.filter_constraint_table(real, dict(vals))) != n1
            if shared:
                fails.add("table-result-aliased", lambda: {"what": "the list returned by filter_constraint_table is the input table itself or is shared between calls",
                                                   "inputs": dict(inputs0, values=dict(vals), then="result.append(...)"), "expected": "input table and a second result unchanged",
                                                   "observed": {"result is the input list": flt is real, "len(table)": len(real)}})
                break

    if vmode and vmods and not has_catch_all:
        _install_table(vmods, real)
        _validator_walks(vmods, model, ttext, keys, u, fails, counters, vmode == 2, rot)


def _w_tables(job):
    """job: (ncols, nkeys, u, specials, index iterable spec, seed)"""
    ncols, nkeys, u, specials, spec, sym, vstride, seed = job
    ct = _load()
    vmods = None if _VALIDATOR_BROKEN else _load_validator()
    cells = _cell_variants(ct, u)
    special_any[0] = ct.AnyValue()
    base = len(cells) + len(specials)
    ncell = ncols * nkeys
    fails = _Fails()
    counters = dict.fromkeys(_TABLE_COUNTERS, 0)
    saved = (getattr(vmods[0], "LEVEL_CONSTRAINTS", None), vmods[1].LEVEL_CONSTRAINTS) if vmods else None
    if spec[0] == "range":
        indices = range(spec[1], spec[2])
    else:
        rng = random.Random(seed * 104729 + spec[1] + 1000 * (ncols + 10 * nkeys + 100 * u + 1000 * len(specials)))
        indices = (rng.randrange(base ** ncell) for _ in range(spec[2]))
    colbase = base ** nkeys
    try:
        for idx in indices:
            if sym:
                # columns in non-decreasing order of their code (tables are lists, but a column permutation of a table is the
                # same set of combinations; the filter-order check still runs on every kept table)
                cs = [(idx // colbase ** c) % colbase for c in range(ncols)]
                if any(cs[i] > cs[i + 1] for i in range(ncols - 1)):
                    continue
            digits = []
            x = idx
            for _ in range(ncell):
                digits.append(x % base)
                x //= base
            kept = counters["tables"]
            # key names are those of the real level table, "level" in every position (and absent); under the symmetric
            # reduction every other table lists its columns in decreasing instead of increasing order
            keys = _key_names(kept, nkeys)
            real, model, ttext = _table_from_digits(digits, ncols, keys, cells, specials, idx, reverse=bool(sym and kept & 1))
            counters["tables"] += 1
            if len(set(ttext[1:-1].split("}, {"))) > 1 or (ncols == 1 and any(col and all(c is ANY or c for c in col.values()) for col in model)):
                counters["nontrivial"] += 1
            vmode = 2 if kept % vstride == 0 else 1
            if vmode == 2 and not any(len(col) == 0 for col in model):
                counters["rich_tables"] += 1
            try:
                _check_table(ct, vmods, real, model, ttext, keys, u, fails, counters, vmode, kept // 2)
            except _Poisoned:
                cells = _cell_variants(ct, u)  # (the failure is recorded; the shared cells were changed through the alias)
            except Exception:
                fails.add("table-exception", lambda: {"what": "unexpected exception from the constraint-table functions", "inputs": {"table": ttext},
                                              "expected": "no exception", "observed": traceback.format_exc(limit=6)})
    finally:
        if vmods:
            vmods[0].LEVEL_CONSTRAINTS, vmods[1].LEVEL_CONSTRAINTS = saved
    # the shared cell objects must not have been modified by any query
    for s, variants, texts in cells:
        for v, t in zip(variants, texts):
            if [x in v for x in range(-1, u + 1)] != [x in s for x in range(-1, u + 1)]:
                fails.add("table-cell-mutated", lambda: {"what": "a query modified a ValueSet of the table", "inputs": {"cell": t}, "expected": sorted(s),
                                                 "observed": [x for x in range(-1, u + 1) if x in v]})
    return counters, fails


_TABLE_COUNTERS = ("tables", "queries", "avf", "validator", "nontrivial", "rich_tables", "repeated", "ambiguous", "ambiguous_accepted", "alias_probes")


def _split_jobs(ncols, nkeys, u, specials, sym, seed, sample=None, pieces=None, vstride=1):
    base = (1 << u) + len(specials)
    total = base ** (ncols * nkeys)
    pieces = pieces or NPROC * 4
    if sample is not None:
        per = max(1, sample // pieces)
        return [(ncols, nkeys, u, specials, ("sample", i, per), sym, vstride, seed) for i in range(pieces)], per * pieces
    step = max(1, -(-total // pieces))
    return [(ncols, nkeys, u, specials, ("range", lo, min(total, lo + step)), sym, vstride, seed) for lo in range(0, total, step)], total


def _check_empty_table(ct, vmods, fails):
    """A table with no column allows nothing (not even the empty combination); the validator rejects every value."""
    n = 0
    for vals in ({}, {"level": 1}):
        n += 1
        obs = {"filter": ct.filter_constraint_table([], dict(vals)), "is_allowed": ct.is_allowed_combination([], dict(vals)),
               "allowed_values_for contains 0, 1": [x in ct.allowed_values_for([], "profile", dict(vals)) for x in (0, 1)]}
        exp = {"filter": [], "is_allowed": False, "allowed_values_for contains 0, 1": [False, False]}
        if obs != exp:
            fails.add("table-empty", lambda: {"what": "a table without columns must allow no combination", "inputs": {"table": "[]", "values": dict(vals)},
                                              "expected": exp, "observed": repr(obs)})
    if vmods:
        assertions, level_constraints, VNA, State = vmods
        saved = (getattr(assertions, "LEVEL_CONSTRAINTS", None), level_constraints.LEVEL_CONSTRAINTS)
        counters = dict.fromkeys(_TABLE_COUNTERS, 0)
        try:
            _install_table(vmods, [])
            for k, v in (("level", 0), ("profile", 1)):
                n += 1
                try:
                    _vstep(vmods, [], State(), {}, frozenset(), k, v, [0, 1], fails, lambda k_, v_: {"table": "[]", "sequence": [(k_, v_)]}, counters)
                except Exception:
                    tb = traceback.format_exc(limit=6)
                    fails.add("validator-exception", lambda: {"what": "assert_level_constraint raised something other than ValueNotAllowedInLevel",
                                                              "inputs": {"table": "[]", "sequence": [(k, v)]}, "expected": "ValueNotAllowedInLevel", "observed": tb})
        finally:
            assertions.LEVEL_CONSTRAINTS, level_constraints.LEVEL_CONSTRAINTS = saved
    return n


def _part_tables(rep, tier, seed):
    ct = _load()
    if not _VALIDATOR_BROKEN:
        _canary_patch(ct, _load_validator())
    else:
        rep.extra_assumptions.append("the validator modules could not be imported (reported as a violation); the one-at-a-time clause was NOT exercised in this run")
    thorough = tier == "thorough"
    total = _Fails()
    _check_empty_table(ct, None if _VALIDATOR_BROKEN else _load_validator(), total)
    plain, special = [], []
    # (ncols, nkeys, universe size, symmetric reduction, sample or None, vstride): every vstride-th table of a family gets the
    # rich validator walks (all key orders, a repeated key, an unlisted key), the others one rotated key order
    for nk in (1, 2):
        plain.append((1, nk, 4, False, None, 1))
    plain += [(1, 3, 4, False, None, 16 if thorough else 32), (2, 1, 4, False, None, 1)]
    if thorough:
        plain += [(2, 2, 4, False, None, 32), (2, 3, 3, False, None, 128), (2, 3, 4, False, 250000, 256), (2, 2, 5, True, None, 128), (3, 2, 3, True, None, 32),
                  (3, 2, 4, False, 300000, 256), (3, 3, 2, False, None, 64), (3, 3, 3, False, 100000, 128)]
    else:
        plain += [(2, 2, 4, True, None, 48), (2, 3, 2, False, None, 4), (2, 3, 3, False, 5000, 32), (2, 3, 4, False, 2000, 64), (3, 2, 3, False, 15000, 24),
                  (3, 3, 3, False, 1000, 16)]
    sp = ("ANY", "MISSING")
    special += [(1, 2, 3, False, None, 1), (2, 1, 3, False, None, 1), (2, 2, 3, False, None, 16)]
    if thorough:
        special += [(2, 3, 2, False, None, 32), (3, 2, 2, False, None, 16), (2, 3, 3, False, 150000, 128), (3, 3, 2, False, 150000, 128), (3, 2, 3, False, 200000, 128)]
    else:
        special += [(2, 3, 2, False, 10000, 24), (3, 2, 2, True, None, 8), (2, 3, 3, False, 3000, 32)]

    def run(configs, specials):
        jobs, descr = [], []
        for (nc, nk, u, sym, sample, vstride) in configs:
            js, n = _split_jobs(nc, nk, u, specials, sym, seed, sample, vstride=vstride)
            jobs += js
            if sym:
                import math

                n = math.comb(((1 << u) + len(specials)) ** nk + nc - 1, nc)
            descr.append("%d column(s) x %d key(s) over 0..%d: %s [rich validator walks on every %s table]"
                         % (nc, nk, u - 1, ("%d seeded random tables" % n) if sample else
                            ("all %d tables%s" % (n, " (one per multiset of columns; the column order alternates between increasing and decreasing)" if sym else "")),
                            {1: ""}.get(vstride, "%d-th" % vstride)))
        agg = dict.fromkeys(_TABLE_COUNTERS, 0)
        fl = _Fails()
        for (c, f) in _pool_map(_w_tables, jobs):
            for k in agg:
                agg[k] += c[k]
            fl.merge(f)
        return agg, fl, descr

    agg, fl, descr = run(plain, ())
    total.merge(fl)
    sampled = any(c[4] for c in plain)
    rep.add_bounded(
        "C17.tables.no-catch-all",
        "Tables without catch-all columns, every column listing every key, every cell any subset of the universe (built as values, as maximal ranges, or mixed): "
        + "; ".join(descr) + ". For every table: every partial assignment vals of the keys (values in the universe), every key k not in vals and a key no column lists, "
        "every v in the universe plus one value outside it: v in allowed_values_for(T, k, vals) == is_allowed_combination(T, vals + {k: v}) == (some column contains the "
        "combination), the already-chosen values given in either order and 'nothing chosen' also through the default argument; filter_constraint_table returns exactly the "
        "containing columns; and the real assert_level_constraint(state, key, value), run with the enumerated table in place of LEVEL_CONSTRAINTS (restored afterwards), the keys "
        "named after keys of the real level table with 'level' in every position of the table or absent. Rich walks (every n-th table as stated per family): EVERY sequence of "
        "(key, value) steps, values in the universe (first step also one value outside it), the keys in ANY order, at most one step that gives a key again (same or another "
        "value), a key that no column lists first or second, length <= number of keys + 1, each sequence extended while the real function accepts, every continuation on an "
        "independent copy of the State. Other tables: the keys in one rotation of their order. After every call: accepted iff the dictionary of the accepted values so far plus "
        "{key: value} is an allowed combination (so exactly the sequences whose every prefix is allowed are accepted); otherwise ValueNotAllowedInLevel carrying the key, the "
        "value, the earlier values and an allowed_values set equal to {x: prefix + {key: x} allowed}; the recorded values are exactly the accepted ones",
        agg["tables"], not sampled, distinct=agg["nontrivial"],
        samples=_samples_tables(ct),
        note="evaluations = tables; on the tables with rich walks also %d aliasing probes (a value is added to the set returned by allowed_values_for: no table cell and no second, "
             "identical call may be affected; the list returned by filter_constraint_table is appended to: the table and a second call unaffected); on all tables "
             "%d filter/is_allowed queries, %d allowed_values_for calls, %d assert_level_constraint calls (%d tables with rich walks; %d calls give a "
             "key again, of which %d with another value where the two readings of the statement differ: the real function accepted %d of those). distinct = tables with >= 2 different columns"
             % (agg["alias_probes"], agg["queries"], agg["avf"], agg["validator"], agg["rich_tables"], agg["repeated"], agg["ambiguous"], agg["ambiguous_accepted"]))
    rep.extra_coverage["C17_validator_synthetic_tables"] = dict((k, agg[k]) for k in ("validator", "rich_tables", "repeated", "ambiguous", "ambiguous_accepted"))
    agg2, fl, descr = run(special, sp)
    total.merge(fl)
    rep.add_bounded(
        "C17.tables.any-missing-catch-all",
        "Tables whose cells are any subset of the universe, an AnyValue cell, or absent (a column with no cells at all is the documented 'catch all' column): " + "; ".join(descr)
        + ". filter/is_allowed against 'a column contains a combination iff it lists every given key with a set containing the value, or is empty'; allowed_values_for against "
        "the property's equivalence when the table has no catch-all column and against the union of the sets the containing columns list for the key when it has one; the "
        "any_value substitute is returned exactly when AnyValue is allowed; the one-at-a-time validator check as above on the tables without a catch-all column",
        agg2["tables"], not any(c[4] for c in special), distinct=agg2["nontrivial"],
        note="evaluations = tables; %d filter/is_allowed queries, %d allowed_values_for calls, %d assert_level_constraint calls (%d tables with rich walks, %d calls giving a key again)"
             % (agg2["queries"], agg2["avf"], agg2["validator"], agg2["rich_tables"], agg2["repeated"]) + "; %d aliasing probes of allowed_values_for / filter results" % agg2["alias_probes"])
    return total


# ================================================================================================
# (3) CSV
# ================================================================================================
_DITTO_CHARS = set(['"', "“", "”", "„", "‟", "″", "〃"])


def _csv_records(text):
    """Independent minimal RFC-4180 reader: comma separated, double-quoted fields with "" as an escaped
    quote, records end at CR, LF or CRLF outside quotes."""
    rows, row, field = [], [], []
    i, n = 0, len(text)
    inq = False
    started = False  # a field has been started on this record
    while i < n:
        c = text[i]
        if inq:
            if c == '"':
                if i + 1 < n and text[i + 1] == '"':
                    field.append('"')
                    i += 1
                else:
                    inq = False
            else:
                field.append(c)
        elif c == '"':
            inq = True
            started = True
        elif c == ",":
            row.append("".join(field))
            field = []
            started = True
        elif c in "\r\n":
            if c == "\r" and i + 1 < n and text[i + 1] == "\n":
                i += 1
            if started or field:
                row.append("".join(field))
            rows.append(row)
            row, field, started = [], [], False
        else:
            field.append(c)
            started = True
        i += 1
    if inq:
        raise ValueError("unterminated quoted field")
    if started or field:
        row.append("".join(field))
        rows.append(row)
    return rows


def _m_cell(cell, left):
    """Documented cell format -> ('any',) | ('set', [atoms]) where an atom is ('v', x) or ('r', lo, hi)."""
    s = cell.strip()
    if s and all(ch in _DITTO_CHARS or ch.isspace() for ch in s):
        # "the same value as the column to their left": the first value column has no value cell to its left in this row,
        # so nothing is listed (rows are independent of each other: a ditto never refers to another row)
        return left if left is not None else ("set", [])
    if s == "any":
        return ("any",)
    if s == "":
        return ("set", [])
    atoms = []
    for tok in s.split(","):
        t = tok.strip()
        if t == "TRUE":
            atoms.append(("v", True))
        elif t == "FALSE":
            atoms.append(("v", False))
        elif t.isdigit():
            atoms.append(("v", int(t)))
        else:
            lo, sep, hi = t.partition("-")
            if not (sep and lo.strip().isdigit() and hi.strip().isdigit()):
                raise ValueError("cell %r is not of the documented format" % (cell,))
            atoms.append(("r", int(lo), int(hi)))
    return ("set", atoms)


ABSENT = ("absent",)  # a column (defined by a wider key row) for which a shorter key row writes no cell


def _m_read_csv(text, mark_absent=False):
    """Independent reader of the documented table format -> list (one per value column) of {key: cell model}.

    Empty rows and rows of only '#'-prefixed (or empty) cells are skipped: they define nothing, whatever their width.  The
    value columns are those the key rows define: as many as the widest key row has value cells (an empty cell is a cell).
    What a key row that is shorter than another one means for the columns it does not reach is not documented: by default
    the key is simply not listed there; with mark_absent the place is marked ABSENT (judged as inconclusive: 'not listed' and
    'listed with no values' are both accepted by the comparison)."""
    rows = [row for row in _csv_records(text) if not all((not c.strip()) or c.strip().startswith("#") for c in row)]
    out = [{} for _ in range(max([len(row) - 1 for row in rows] + [0]))]
    for row in rows:
        left = None
        for i, cell in enumerate(row[1:]):
            left = _m_cell(cell, left)
            out[i][row[0]] = left
        if mark_absent:
            for i in range(max(0, len(row) - 1), len(out)):
                out[i].setdefault(row[0], ABSENT)
    return out


def _keys_differ(rc, mc):
    """keys of a real column against the model column: every written key, and nothing else but ABSENT-marked ones"""
    required = set(k for k, cm in mc.items() if cm is not ABSENT and cm != ABSENT)
    return not (required <= set(rc.keys()) <= set(mc.keys()))


def _cell_member(cm, x):
    if cm[0] == "any":
        return True
    for a in cm[1]:
        if a[0] == "v":
            if x == a[1]:
                return True
        elif a[1] <= x <= a[2]:
            return True
    return False


def _cell_points(cm):
    pts = set()
    if cm[0] == "set":
        for a in cm[1]:
            pts.update(a[1:])
    return pts


def _compare_csv(ct, real, model, fails, inputs, kindprefix):
    """cell by cell comparison of the real table with the independently read one; returns cells compared"""
    n = 0
    if not isinstance(real, list) or len(real) != len(model):
        fails.add(kindprefix + "-shape", lambda: {"what": "number of columns read from the CSV differs", "inputs": inputs, "expected": len(model),
                                          "observed": len(real) if isinstance(real, list) else repr(real)})
        return n
    for ci, (rc, mc) in enumerate(zip(real, model)):
        if not isinstance(rc, dict) or _keys_differ(rc, mc):
            fails.add(kindprefix + "-keys", lambda: {"what": "keys of a column read from the CSV differ", "inputs": dict(inputs, column=ci),
                                             "expected": sorted(k for k, cm in mc.items() if cm != ABSENT), "observed": sorted(rc.keys()) if isinstance(rc, dict) else repr(rc)})
            continue
        for k, cm in mc.items():
            if cm == ABSENT:
                # undocumented: a short key row either does not list its key here or lists it with no values
                if k in rc and (not isinstance(rc[k], ct.ValueSet) or isinstance(rc[k], ct.AnyValue) or list(rc[k])):
                    fails.add(kindprefix + "-cell", lambda: {"what": "a value column beyond the end of a short key row holds values for its key", "inputs": dict(inputs, column=ci, key=k),
                                                     "expected": "key not listed, or listed with no values", "observed": repr(rc[k])})
                continue
            n += 1
            rv = rc[k]
            is_any = isinstance(rv, ct.AnyValue)
            ok = isinstance(rv, ct.ValueSet) and is_any is (cm[0] == "any")
            detail = None
            if ok and not is_any:
                items = list(rv)
                pts = set(_cell_points(cm))
                for it in items:
                    pts.update(it if isinstance(it, tuple) else (it,))
                probes = set([True, False])
                for p in pts:
                    probes.update((p - 1, p, p + 1))
                diff = sorted(x for x in probes if (x in rv) is not _cell_member(cm, x))
                # written booleans must come back as bool, written integers as int
                want_types = set(type(a[1]).__name__ for a in cm[1] if a[0] == "v") | set("int" for a in cm[1] if a[0] == "r")
                got_types = set(type(z).__name__ for it in items for z in (it if isinstance(it, tuple) else (it,)))
                if diff or not got_types <= want_types:
                    ok = False
                    detail = {"differing probe values": diff[:12], "types read": sorted(got_types), "types written": sorted(want_types), "read": repr(rv)}
            elif ok and is_any:
                ok = all(x in rv for x in (0, 1, 10 ** 9, True, "x"))
            if not ok:
                fails.add(kindprefix + "-cell", lambda: {"what": "cell read from the CSV does not contain exactly the values, ranges, 'any' or ditto content written in the file",
                                                 "inputs": dict(inputs, column=ci, key=k), "expected": repr(cm), "observed": detail or repr(rv)})
    return n


def _csv_alias_probe(ct, real, model, fails, inputs, kindprefix, path=None):
    """Every cell of a table read from CSV must be its own set: a distinct marker value is added to every (non-'any') cell,
    then no cell may contain another cell's marker (for big tables: another cell of the same row, where dittos copy).
    With `path`: the file is read again afterwards and must still give what is written in it.  -> cells probed"""
    if not isinstance(real, list) or len(real) != len(model) or any(not isinstance(rc, dict) or _keys_differ(rc, mc) for rc, mc in zip(real, model)):
        return 0  # (already reported by the comparison)
    cells = [(ci, k, rc[k]) for ci, rc in enumerate(real) for k in sorted(rc) if isinstance(rc[k], ct.ValueSet) and not isinstance(rc[k], ct.AnyValue)]
    base = 10 ** 6
    for idx, (ci, k, cell) in enumerate(cells):
        cell.add_value(base + idx)
    small = len(cells) <= 40
    for idx, (ci, k, cell) in enumerate(cells):
        foreign = [(cj, kj) for j, (cj, kj, _) in enumerate(cells) if j != idx and (small or kj == k) and (base + j) in cell]
        if foreign or (base + idx) not in cell:
            fails.add(kindprefix + "-cell-aliased", lambda: {
                "what": "cells of the table read from CSV are not independent sets: after adding a distinct value to every cell, a cell contains the value added to another one",
                "inputs": dict(inputs, column=ci, key=k, then="every cell c_i.add_value(%d + i)" % base), "expected": "only its own marker",
                "observed": {"also contains the markers of (column, key)": foreign[:6], "own marker present": (base + idx) in cell}})
    if path is not None:
        again = ct.read_constraints_from_csv(path)
        _compare_csv(ct, again, model, fails, dict(inputs, note="second read of the same file, after the cells of the first result were changed"), kindprefix + "-reread")
    return len(cells)


def _csv_semantic_probe(ct, real, model, fails, inputs, kindprefix):
    """From the statement, on the table read: a combination that names a key no key row has, or (in a file without 'any'
    cells) gives a key a value that no cell lists, is contained in no column and must not be allowed -- whatever else the
    file holds (comment rows, blank rows, rows of empty cells of any width define no column)."""
    if not isinstance(real, list):
        return 0
    combos = [{"c17_no_such_key": 0}]
    if not any(cm[0] == "any" for mc in model for cm in mc.values()):
        keys = []
        for mc in model:
            for k in mc:
                if k not in keys:
                    keys.append(k)
        combos += [{k: 987654321} for k in keys[:3]]
    for vals in combos:
        got = ct.is_allowed_combination(real, dict(vals))
        if got is not False:
            fails.add(kindprefix + "-spurious-allowed", lambda: {
                "what": "the table read from the CSV allows a combination that no column written in the file contains",
                "inputs": dict(inputs, values=vals), "expected": False, "observed": {"is_allowed_combination": got, "table": repr(real)[:600]}})
            break
    return len(combos)


def _gen_csv(rng):
    """Own writer: a random table in the documented format. -> (text, description of features used)"""
    ncols = rng.randint(1, 5)
    nrows = rng.randint(1, 7)
    eol = rng.choice(["\n", "\r\n"])
    p_ditto = rng.choice([0.2, 0.2, 0.5])  # a third of the files are ditto-heavy
    ragged = rng.random() < 0.6  # row widths vary independently of the table width
    lines = []
    feats = set()
    skipped_w = []
    key_w = []

    def q(cell, force=False):
        if force or "," in cell or '"' in cell or rng.random() < 0.15:
            return '"' + cell.replace('"', '""') + '"'
        return cell

    def token():
        r = rng.random()
        if r < 0.5:
            return str(rng.choice([0, 1, 2, 3, 5, 7, 8, 9, 10, 16, 64, 255, 1920, rng.randint(0, 40)]))
        if r < 0.8:
            lo = rng.randint(0, 30)
            feats.add("range")
            return "%d-%d" % (lo, lo + rng.choice([0, 1, 2, 5, 100]))
        feats.add("bool")
        return rng.choice(["TRUE", "FALSE"])

    def comment_row():
        w = rng.randint(1, ncols + 1 + (3 if ragged else 0))
        if ragged and rng.random() < 0.3:
            cells = [""] * w  # a row of empty cells only
        else:
            cells = [rng.choice(["# note", "#", "# (11.2.1)", "", " "]) for _ in range(w)]
            if rng.random() < 0.5:
                cells[0] = "# c"
        feats.add("comment/empty row")
        skipped_w.append(w)
        return ",".join(q(c) for c in cells)

    for r in range(nrows):
        while rng.random() < 0.25:
            lines.append(comment_row() if rng.random() < 0.7 else "")
        x = rng.random()
        cells = ["key%d" % r if x < 0.8 else "k %d" % r if x < 0.95 else "# odd key %d" % r]  # (a row with a '#' key is a key row unless all its cells are empty or '#' cells)
        for c in range(ncols):
            x = rng.random()
            if x < 0.15:
                cells.append("")
                feats.add("empty cell")
            elif x < 0.30:
                cells.append(rng.choice(["any", "any", "any", " any", "any "]))
                feats.add("any")
            elif x < 0.30 + p_ditto:
                cells.append(rng.choice(['"', '"', "“", "”", ' " ', '""']))
                feats.add("ditto")
                if c == 0:
                    feats.add("ditto in the first value column")
            else:
                k = rng.choice([1, 1, 1, 2, 3, 4])
                if k > 1:
                    feats.add("list")
                cells.append(",".join(token() for _ in range(k)))
        if ragged:
            x = rng.random()
            if x < 0.25:
                cells = cells[:rng.randint(1, ncols)]  # trailing cells not written
                feats.add("short key row")
            elif x < 0.40:
                cells += [""] * rng.randint(1, 2)
                feats.add("key row with extra trailing empty cells")
        if not all((not c.strip()) or c.strip().startswith("#") for c in cells):
            key_w.append(len(cells))
        else:
            skipped_w.append(len(cells))
        lines.append(",".join([q(cells[0])] + [q(c) for c in cells[1:]]))
    while rng.random() < 0.3:
        lines.append(comment_row())
    if skipped_w and max(skipped_w) > max(key_w + [0]):
        feats.add("skipped row wider than every key row")
    while ragged and rng.random() < 0.3:
        lines.append("")
        feats.add("blank lines at the end")
    text = eol.join(lines) + (eol if rng.random() < 0.8 else "")
    return text, feats


_GRID_KINDS = ("empty", "any", "value", "range", "multi", "ditto")


def _grid_cell(kind, pos, var):
    """-> (text written, content written or None for a ditto mark).  The numbers depend on the position of the cell in
    the file, so that content taken from any other cell is noticed."""
    b = 20 * pos
    if kind == "empty":
        return "", ("set", [])  # (a cell of blanks only is not an 'empty cell' of the documented format: see _observations)
    if kind == "any":
        return ("any", " any", "any ")[var % 3], ("any",)
    if kind == "value":
        if var % 4 == 3:
            tv = bool(pos & 1)
            return ("TRUE" if tv else "FALSE"), ("set", [("v", tv)])
        return ("%d", " %d", "%d ")[var % 3] % (b + 3), ("set", [("v", b + 3)])
    if kind == "range":
        return ("%d-%d", " %d-%d ")[var % 2] % (b + 5, b + 8), ("set", [("r", b + 5, b + 8)])
    if kind == "multi":
        if var % 2:
            return "%d, %d-%d, TRUE" % (b + 1, b + 10, b + 12), ("set", [("v", b + 1), ("r", b + 10, b + 12), ("v", True)])
        return "%d-%d,%d,%d" % (b + 14, b + 14, b + 12, b + 1), ("set", [("r", b + 14, b + 14), ("v", b + 12), ("v", b + 1)])
    if kind == "ditto":
        return ('"', "“", ' " ', '""', "”")[var % 5], None
    raise ValueError(kind)


_SKIP_ROWS = ([(kind, delta, pos) for kind in ("comment", "empty", "mixed") for delta in (-1, 0, 1, 2, 3) for pos in ("first", "middle", "last")]
              + [("blank", 0, pos) for pos in ("first", "middle", "last")])
_TAILS = [(0, True), (0, False), (1, True), (2, True), (1, False)]  # (blank lines after the last row, final line end written)


def _grid_csv(nrows, ncols, code, style, row_shapes=None, skip=None, tail=(0, True)):
    """The code-th file of the grid 'every cell of an nrows x ncols table is one of the six kinds of cell'.
    style selects what stands between the key rows (nothing / a comment row / a blank line / a row of empty cells / a row of
    comment cells; all as wide as the table), minimal or full quoting, LF or CRLF, a leading comment row, and rotates the
    spelling of the cells.  Non-rectangular files:
      row_shapes[r]: -1 the last value cell of key row r is not written, +1 / +2 that many extra empty cells are appended;
      skip = (kind, delta, position): one more skipped row -- 'comment' (every cell '# c'), 'empty' (every cell empty),
             'mixed' ('# note' then empty cells) of width (widest key row + delta) cells, or a 'blank' line -- as the first
             row of the file, before the last key row, or after it;
      tail = (blank lines after the last row, whether the last line is terminated).
    -> (text, the table written: one {key: content} per value column (ABSENT where a shorter key row writes no cell),
        [(column, kind of the cell to the left)] of the dittos)"""
    names = _real_key_names()
    sep = style % 5
    quote_all = (style // 5) % 2
    eol = ("\n", "\r\n")[(style // 10) % 2]
    header = (style // 20) % 2
    var0 = style // 40
    lines = []
    data_at = []  # index in `lines` of every key row
    per_row = []  # (key, [contents of the value cells written])
    dittos = []
    if header:
        lines.append("# (11.2.1)" + ",# a" * ncols)
    x = code
    widest = 1
    for r in range(nrows):
        if r and sep:
            lines.append({1: "# note" + "," * ncols, 2: "", 3: "," * ncols, 4: ",".join(["# c"] * (ncols + 1))}[sep])
        key = names[r % len(names)]
        cells = [key]
        contents = []
        left = None
        left_kind = "nothing"
        shape = row_shapes[r] if row_shapes else 0
        for c in range(ncols):
            kind = _GRID_KINDS[x % 6]
            x //= 6
            if shape < 0 and c >= ncols + shape:
                continue  # not written
            pos = r * ncols + c
            text, content = _grid_cell(kind, pos, var0 + pos + code)
            if content is None:
                dittos.append((c, left_kind))
                content = left if left is not None else ("set", [])
            else:
                left_kind = kind
            left = content
            contents.append(content)
            cells.append(text)
        for _ in range(max(0, shape)):
            cells.append("")
            contents.append(("set", []))
        widest = max(widest, len(cells))
        per_row.append((key, contents))
        data_at.append(len(lines))
        lines.append(",".join(('"' + t.replace('"', '""') + '"') if (quote_all or "," in t or '"' in t) else t for t in cells))
    if skip is not None:
        kind, delta, where = skip
        w = max(1, widest + delta)
        row = {"comment": ",".join(["# c"] * w), "empty": "," * (w - 1), "mixed": "# note" + "," * (w - 1), "blank": ""}[kind]
        at = 0 if where == "first" else len(lines) if (where == "last" or not data_at) else data_at[-1]
        lines.insert(at, row)
    lines += [""] * tail[0]
    written = [{} for _ in range(max([len(c) for _, c in per_row] + [0]))]
    for key, contents in per_row:
        for ci in range(len(written)):
            written[ci][key] = contents[ci] if ci < len(contents) else ABSENT
    return eol.join(lines) + (eol if tail[1] else ""), written, dittos


def _ragged_variants(nrows, code, npicks):
    """(style, row_shapes, skip, tail) of the non-rectangular files written for the code-th table: every combination of
    row shapes (as written / last cell omitted / +1 / +2 trailing empty cells, per key row), each with npicks (or, npicks <= 0, all 48) skipped
    rows rotating through kind x width x position, and rotating file endings."""
    for sc, shapes in enumerate(itertools.product((0, -1, 1, 2), repeat=nrows)):
        picks = range(len(_SKIP_ROWS)) if npicks <= 0 else [(code * 5 + sc * 7 + i * 17) % len(_SKIP_ROWS) for i in range(npicks)]
        for i, pk in enumerate(picks):
            yield (code * 7 + sc * 3 + i * 37) % 200, shapes, _SKIP_ROWS[pk], _TAILS[(code + sc + i) % len(_TAILS)]


def _w_csv_grid(job):
    # nrot: number of styles per table (rotating with the table), 0 = all 40 layouts; ragged: 0 rectangular files,
    # 1 / 3: non-rectangular variants with 2 / 4 skipped rows per combination of row shapes, 2: with every skipped row
    nrows, ncols, lo, hi, nrot, tmpdir, ragged = job
    ct = _load()
    fails = _Fails()
    n_files = n_cells = n_alias = 0
    ditto_seen = {}
    path = os.path.join(tmpdir, "g%d_%d_%d_%d_%d.csv" % (nrows, ncols, lo, ragged, os.getpid()))
    for code in range(lo, hi):
        if ragged:
            variants = _ragged_variants(nrows, code, {1: 2, 2: 0, 3: 4}[ragged])
        else:
            variants = ((style, None, None, (0, True)) for style in (range(40) if not nrot else [(code * 7 + i * 37) % 200 for i in range(nrot)]))
        for style, shapes, skip, tail in variants:
            text, written, dittos = _grid_csv(nrows, ncols, code, style, shapes, skip, tail)
            if _m_read_csv(text, mark_absent=True) != written:
                raise RuntimeError("C17 checker: the independent CSV reader does not read back what the grid writer wrote: %r" % (text,))
            with open(path, "w", encoding="utf-8", newline="") as f:
                f.write(text)
            n_files += 1
            for c, lk in dittos:
                key = "ditto in the first value column" if c == 0 else "ditto after %s" % lk
                ditto_seen[key] = ditto_seen.get(key, 0) + 1
            if skip is not None:
                key = "skipped %s row %s" % (skip[0], "wider than every key row" if skip[1] > 0 and skip[0] != "blank" else "not wider than the key rows")
                ditto_seen[key] = ditto_seen.get(key, 0) + 1
                for sh, label in ((-1, "key rows with the last cell omitted"), (1, "key rows with extra trailing empty cells"), (2, "key rows with extra trailing empty cells")):
                    ditto_seen[label] = ditto_seen.get(label, 0) + sum(1 for z in shapes if z == sh)
            inputs = {"csv_text": text}
            try:
                real = ct.read_constraints_from_csv(path)
                n_cells += _compare_csv(ct, real, written, fails, inputs, "csvgrid")
                _csv_semantic_probe(ct, real, written, fails, inputs, "csvgrid")
                n_alias += _csv_alias_probe(ct, real, written, fails, inputs, "csvgrid", path if n_files % 8 == 0 else None)
            except Exception:
                tb = traceback.format_exc(limit=6)
                fails.add("csvgrid-exception", lambda: {"what": "read_constraints_from_csv raised on a table in the documented format", "inputs": inputs,
                                                        "expected": "no exception", "observed": tb})
    if os.path.exists(path):
        os.unlink(path)
    ditto_seen["cells probed for aliasing"] = n_alias
    return n_files, n_cells, ditto_seen, fails


def _scratch_dir():
    """a scratch directory for the generated CSV files, in memory when the machine offers it (opening files on the disk is
    what dominated the run time)"""
    shm = "/dev/shm"
    return tempfile.mkdtemp(prefix="c17_csv_", dir=shm if os.path.isdir(shm) and os.access(shm, os.W_OK | os.X_OK) else None)


def _w_csv(job):
    lo, hi, seed, tmpdir = job
    ct = _load()
    fails = _Fails()
    n_files = n_cells = 0
    feats_seen = {}
    for i in range(lo, hi):
        rng = random.Random(seed * 15485863 + i)
        text, feats = _gen_csv(rng)
        model = _m_read_csv(text, mark_absent=True)
        path = os.path.join(tmpdir, "t%d.csv" % i)
        with open(path, "w", encoding="utf-8", newline="") as f:
            f.write(text)
        n_files += 1
        for ft in feats:
            feats_seen[ft] = feats_seen.get(ft, 0) + 1
        inputs = {"csv_text": text}
        try:
            real = ct.read_constraints_from_csv(path)
            n_cells += _compare_csv(ct, real, model, fails, inputs, "csv")
            _csv_semantic_probe(ct, real, model, fails, inputs, "csv")
            _csv_alias_probe(ct, real, model, fails, inputs, "csv", path)
        except Exception:
            fails.add("csv-exception", lambda: {"what": "read_constraints_from_csv raised on a table in the documented format", "inputs": inputs,
                                        "expected": "no exception", "observed": traceback.format_exc(limit=6)})
        os.unlink(path)
    return n_files, n_cells, feats_seen, fails


def _part_csv(rep, tier, seed):
    ct = _load()
    thorough = tier == "thorough"
    total = _Fails()
    nfiles = 8000 if thorough else 1600
    tmpdir = _scratch_dir()
    try:
        step = max(1, nfiles // (NPROC * 2))
        jobs = [(lo, min(nfiles, lo + step), seed, tmpdir) for lo in range(0, nfiles, step)]
        nf = nc = 0
        feats = {}
        for (a, b, fs, fl) in _pool_map(_w_csv, jobs):
            nf += a
            nc += b
            for k, v in fs.items():
                feats[k] = feats.get(k, 0) + v
            total.merge(fl)
    finally:
        shutil.rmtree(tmpdir, ignore_errors=True)
    rep.add_bounded(
        "C17.csv.random",
        "SAMPLED (seeded, seed=%d): %d CSV texts from an own writer: 1..5 value columns x 1..7 key rows plus interleaved empty / '#'-comment rows; cells: empty, 'any', ditto "
        "(\", “, ”, \"\" or \" with blanks; in any value column including the first; a third of the files ditto-heavy), or 1..4 comma-separated tokens each a non-negative integer, an inclusive range lo-hi with lo <= hi, TRUE or FALSE; random "
        "quoting, LF or CRLF; unique keys; in 60%% of the files the row widths vary independently of the table width (comment rows and rows of empty cells up to 3 cells "
        "wider than the table, key rows with trailing cells not written or with 1..2 extra trailing empty cells, blank lines at the end, last line with or without line end; "
        "cells a short key row does not write are inconclusive: 'not listed' or 'no values'); is_allowed_combination on the table read must reject an unknown key / an unlisted value. Each file is read by read_constraints_from_csv and by an independent reader of the documented format; compared "
        "cell by cell: AnyValue vs ValueSet, membership on every written/read endpoint +-1 and True/False, and the Python types of the values read (bool vs int); then a "
        "distinct value is added to every cell (no cell may contain another cell's) and the file is read again (must still give what is written)" % (seed, nf),
        nf, False, distinct=nc,
        samples=_samples_csv(ct, seed),
        note="distinct = cells compared; files using each feature: %s" % ", ".join("%s: %d" % kv for kv in sorted(feats.items())))

    # ---- the grid: every cell of a small table is each kind of cell (ditto in every position, after every kind of cell)
    # (key rows, value columns, layouts per table (0 = all 40), non-rectangular mode (0 = rectangular files))
    grids = [(2, 3, 1, 0), (2, 2, 4, 0), (1, 4, 2, 0), (4, 1, 2, 0), (1, 1, 0, 0), (2, 2, 0, 1), (1, 2, 0, 2), (0, 1, 0, 2)]
    if thorough:
        grids = [(2, 3, 4, 0), (3, 2, 4, 0), (2, 2, 0, 0), (1, 4, 0, 0), (4, 1, 0, 0), (1, 1, 0, 0), (1, 5, 2, 0), (5, 1, 2, 0),
                 (2, 2, 0, 3), (1, 2, 0, 2), (1, 3, 0, 2), (3, 1, 0, 2), (0, 1, 0, 2)]
    tmpdir = _scratch_dir()
    try:
        jobs = []
        for (nr, ncl, nrot, ragged) in grids:
            n = 6 ** (nr * ncl)
            step = max(1, -(-n // (NPROC * (2 if n > 5000 or (ragged and n > 1000) else 1))))
            jobs += [(nr, ncl, lo, min(n, lo + step), nrot, tmpdir, ragged) for lo in range(0, n, step)]
        gf = gc = 0
        dseen = {}
        for (a, b, ds, fl) in _pool_map(_w_csv_grid, jobs):
            gf += a
            gc += b
            for k, v in ds.items():
                dseen[k] = dseen.get(k, 0) + v
            total.merge(fl)
    finally:
        shutil.rmtree(tmpdir, ignore_errors=True)
    rep.add_bounded(
        "C17.csv.grid",
        "EXHAUSTIVE over the kinds of cell: every table of %s (key rows x value columns) in which each cell is empty, 'any', a single value (integer, TRUE or FALSE), a range, "
        "a quoted list of values and ranges, or a ditto mark (\", “, ”, \"\" or \" with blanks) -- so a ditto stands in every column including the first, after every kind "
        "of cell, after another ditto, and on consecutive rows; the numbers written depend on the position of the cell. Each table is written in several of 40 layouts (%s) "
        "(nothing / a '#' comment row / a blank line / a row of empty cells / a row of comment cells between the key rows; minimal or full quoting; LF or CRLF; with or without a "
        "leading comment row) with rotating spellings (blanks around cells and after commas). read_constraints_from_csv must return, per value column and key, exactly what was "
        "written (a ditto: the content of the value cell to its left in the same row; in the first value column: nothing), compared as in C17.csv.random; the independent reader "
        "must agree with the writer on every file (else checker error). Then a distinct value is added to every cell read and no cell may contain the value added to another "
        "one (cells are independent sets, a ditto is a copy); every 8th file is read a second time afterwards and must again give what is written. NON-RECTANGULAR files (%s): "
        "every combination of key-row shapes (as written / last value cell not written / 1 / 2 extra trailing empty cells, per key row), each with skipped rows rotating "
        "through (or running over all of) 48 variants: a row of '#' cells, a row of empty cells, '# note' followed by empty cells -- each 1 cell narrower than, as wide as, "
        "and 1, 2, 3 cells WIDER than the widest key row -- or a blank line; as the first row of the file, before the last key row, or after it; 0..2 blank lines at the "
        "end, last line with or without line end; also files with no key row at all. The table read must have exactly the value columns the key rows define (skipped rows "
        "define none), every written cell as written; where a shorter key row writes no cell for a column, 'key not listed' and 'listed with no values' are both accepted "
        "(undocumented, inconclusive). Additionally, from the statement: is_allowed_combination on the table read must reject a key no key row has and (files without 'any') "
        "a value no cell lists"
        % (", ".join("%dx%d" % (a, b) for a, b, _, rg in grids if not rg), ", ".join("%dx%d: %s" % (a, b, c or "all") for a, b, c, rg in grids if not rg),
           ", ".join("%dx%d: %s skipped-row variants per shape combination" % (a, b, {1: "2", 2: "all 48", 3: "4"}[rg]) for a, b, _, rg in grids if rg)),
        gf, True, distinct=gc,
        note="distinct = cells compared; files / cells by feature: %s" % ", ".join("%s: %d" % kv for kv in sorted(dseen.items())))

    # ---- the shipped level_constraints.csv
    import vc2_conformance

    lc = None
    if not _VALIDATOR_BROKEN:
        import vc2_conformance.level_constraints as lc

    path = os.path.join(os.path.dirname(os.path.abspath(vc2_conformance.__file__)), "level_constraints.csv")
    with open(path, encoding="utf-8", newline="") as f:
        text = f.read()
    model = _m_read_csv(text)
    fl = _Fails()
    n1 = n2 = 0
    try:
        n1 = _compare_csv(ct, ct.read_constraints_from_csv(path), model, fl, {"csv_file": path}, "levelcsv")
    except Exception:
        tb = traceback.format_exc(limit=8)
        fl.add("levelcsv-exception", lambda: {"what": "read_constraints_from_csv raised on the shipped level_constraints.csv", "inputs": {"csv_file": path},
                                              "expected": "no exception", "observed": tb})
    try:
        fresh = ct.read_constraints_from_csv(path)  # a fresh read, never the live table
        _csv_semantic_probe(ct, fresh, model, fl, {"csv_file": path}, "levelcsv")
        na_ship = _csv_alias_probe(ct, fresh, model, fl, {"csv_file": path}, "levelcsv", path)
    except Exception:
        na_ship = 0  # (reported above)
    rep.extra_coverage["C17_shipped_csv_cells_probed_for_aliasing"] = na_ship
    if lc is not None:
        n2 = _compare_csv(ct, lc.LEVEL_CONSTRAINTS, model, fl, {"csv_file": path, "table": "vc2_conformance.level_constraints.LEVEL_CONSTRAINTS"}, "leveltable")
    total.merge(fl)
    ncell = sum(len(c) for c in model)
    rep.add_eval_fact("C17.level_constraints.csv read by read_constraints_from_csv equals the independent parse cell by cell",
                      sum(v for k, v in fl.count.items() if k.startswith("levelcsv")) == 0 and n1 == ncell,
                      "%d columns, %d cells (%d 'any', %d ditto-derived or plain sets)" % (len(model), ncell, sum(1 for c in model for v in c.values() if v[0] == "any"),
                                                                                        sum(1 for c in model for v in c.values() if v[0] != "any")))
    rep.add_eval_fact("C17.the live LEVEL_CONSTRAINTS table equals the independent parse of level_constraints.csv cell by cell",
                      sum(v for k, v in fl.count.items() if k.startswith("leveltable")) == 0 and n2 == ncell, "%d cells" % n2)
    if lc is None:
        return total

    # ---- the property's equivalence on the live level table, along seeded random one-at-a-time walks
    keys = []
    for c in model:
        for k in c:
            if k not in keys:
                keys.append(k)
    rng = random.Random(seed * 32452843 + 17)
    nwalks = 1500 if thorough else 300
    table = lc.LEVEL_CONSTRAINTS
    n_q = 0
    n_rej = 0
    mtable = [dict((k, ANY if v[0] == "any" else _CellSet(v)) for k, v in c.items()) for c in model]
    if any(len(c) == 0 for c in mtable):
        rep.extra_assumptions.append("the live level table has a catch-all column; the equivalence walk on it was skipped")
        nwalks = 0
    for w in range(nwalks):
        col = rng.choice(model)
        order = [k for k in keys if rng.random() < 0.25]
        vals = OrderedDict()
        for k in order:
            cm = col.get(k, ("set", []))
            pts = sorted(_cell_points(cm)) or [0, 1]
            if rng.random() < 0.75:
                v = rng.choice(pts) if cm[0] == "set" else rng.randint(0, 20)
            else:
                v = rng.choice(pts) + rng.choice([-1, 1, 2, 7])
            if cm[0] == "set" and any(isinstance(a[1], bool) for a in cm[1] if a[0] == "v") and rng.random() < 0.8:
                v = rng.choice([True, False])
            n_q += 1
            ext = dict(vals)
            ext[k] = v
            exp = _m_allowed(mtable, ext)
            S = ct.allowed_values_for(table, k, dict(vals))
            lhs = v in S
            rhs = ct.is_allowed_combination(table, ext)
            if lhs is not exp or rhs is not exp:
                total.add("leveltable-equivalence", lambda: {"what": "on the live level table: v in allowed_values_for(T, k, vals) / is_allowed_combination(T, vals + {k: v}) differ from the independent parse",
                                                    "inputs": {"key": k, "v": v, "values": dict(vals)}, "expected": exp,
                                                    "observed": {"v in allowed_values_for": lhs, "is_allowed_combination": rhs}})
            if not exp:
                n_rej += 1
                break
            vals[k] = v
    rep.add_bounded(
        "C17.leveltable.walks",
        "SAMPLED (seeded): %d random one-at-a-time walks over the live LEVEL_CONSTRAINTS table (random subset of keys in file order; values drawn from a random column's cell "
        "or perturbed by -1/+1/+2/+7): at each step v in allowed_values_for(T, k, chosen) == is_allowed_combination(T, chosen + {k: v}) == membership in the independently "
        "parsed CSV model" % nwalks, n_q, False, distinct=n_rej, note="distinct = walks ended by a rejected value")
    return total


# ================================================================================================
# (4) the validator on the real level table
# ================================================================================================
_REAL_MODEL = []


def _real_model():
    """(model columns as read by the independent CSV reader, the same as ANY/_CellSet cells, key names in file order)"""
    if not _REAL_MODEL:
        with open(_level_csv_path(), encoding="utf-8", newline="") as f:
            model = _m_read_csv(f.read())
        keys = []
        for c in model:
            for k in c:
                if k not in keys:
                    keys.append(k)
        mtable = [dict((k, ANY if v[0] == "any" else _CellSet(v)) for k, v in c.items()) for c in model]
        _REAL_MODEL.append((model, mtable, keys))
    return _REAL_MODEL[0]


def _key_candidates(model, mtable, key, rng, n):
    """<= n values for `key`, one from each class of values told apart by the columns (two values are in one class when
    exactly the same columns allow them), drawn from the written endpoints, their neighbours, 0, 1, TRUE and FALSE."""
    pts = set([0, 1])
    has_bool = False
    for col in model:
        cm = col.get(key)
        if cm is not None and cm[0] == "set":
            for p in _cell_points(cm):
                if isinstance(p, bool):
                    has_bool = True
                else:
                    pts.update((p - 1, p, p + 1))
    pts = sorted(pts)
    if has_bool:
        pts = [False, True] + pts
    classes = {}
    for p in pts:
        sig = tuple(key in col and (col[key] is ANY or p in col[key]) for col in mtable)
        classes.setdefault(sig, []).append(p)
    reps = [rng.choice(classes[sig]) for sig in sorted(classes)]
    rng.shuffle(reps)
    return reps[:n]


def _w_real_validator(job):
    """Sequences through the real assert_level_constraint reading the real LEVEL_CONSTRAINTS."""
    kind, lo, hi, seed = job
    _load()
    vmods = _load_validator()
    State = vmods[3]
    model, mtable, keys = _real_model()
    fails = _Fails()
    counters = dict.fromkeys(("sequences", "validator", "rejected", "level_later", "level_absent", "repeated", "ambiguous", "ambiguous_accepted"), 0)
    others = [k for k in keys if k != "level"]

    def run(seq, probes_of):
        """seq: [(key, value)]; continues after a rejection (which must have left the state as it was)"""
        st = State()
        d = OrderedDict()
        hist = frozenset()
        done = []
        ks = [k for k, _ in seq]
        counters["sequences"] += 1
        counters["level_absent"] += 0 if "level" in ks else 1
        counters["level_later"] += 1 if "level" in ks[1:] else 0
        for k, v in seq:
            if k in d:
                counters["repeated"] += 1
            prefix = list(done)
            try:
                acc = _vstep(vmods, mtable, st, d, hist, k, v, probes_of(k) if k not in d else None, fails,
                             lambda k_, v_: {"table": "the shipped level_constraints.csv (vc2_conformance.level_constraints.LEVEL_CONSTRAINTS)",
                                             "sequence": prefix + [(k_, v_)], "rejected steps are skipped": True}, counters)
            except Exception:
                tb = traceback.format_exc(limit=6)
                fails.add("validator-exception", lambda: {"what": "assert_level_constraint raised something other than ValueNotAllowedInLevel", "inputs": {"sequence": prefix + [(k, v)]},
                                                          "expected": "accepted, or ValueNotAllowedInLevel", "observed": tb})
                return
            if acc is None:
                return
            done.append((k, v))
            if acc:
                d[k] = v
                hist = hist | frozenset([(k, v)])
            else:
                counters["rejected"] += 1

    cand_cache = {}

    def cands(k, rng, n=4):
        if k not in cand_cache:
            cand_cache[k] = _key_candidates(model, mtable, k, random.Random(seed * 613 + len(cand_cache)), 8)
        c = cand_cache[k]
        return c if len(c) <= n else rng.sample(c, n)

    def probes_of(k):
        return cand_cache.get(k) or cands(k, None, 8)

    if kind == "pairs":
        # every ordered pair of keys (also the same key twice), values from the classes of each key
        pairs = [(a, b) for a in keys for b in keys]
        for pi in range(lo, min(hi, len(pairs))):
            a, b = pairs[pi]
            rng = random.Random(seed * 7907 + pi)
            for va in cands(a, rng, 3):
                for vb in cands(b, rng, 3):
                    run([(a, va), (b, vb)], probes_of)
    elif kind == "triples":
        # "level" with every ordered pair of other keys, "level" in each of the three positions
        pairs = [(a, b) for a in others for b in others if a != b]
        for pi in range(lo, min(hi, len(pairs))):
            a, b = pairs[pi]
            rng = random.Random(seed * 6007 + pi)
            for _ in range(2):
                col = rng.choice(model)
                lv = rng.choice(sorted(_cell_points(col["level"])) or [0]) if col.get("level", ("any",))[0] == "set" else rng.choice(cands("level", rng))
                seq = []
                for k in (a, b):
                    cm = col.get(k, ("set", []))
                    pts = sorted(_cell_points(cm), key=int)
                    seq.append((k, rng.choice(pts) if pts and rng.random() < 0.6 else rng.choice(cands(k, rng))))
                seq.insert((pi + _) % 3, ("level", lv))
                run(seq, probes_of)
    else:
        # random walks: a random subset of the keys in random order, values mostly from one column; "level" first, later, or
        # not at all; some keys given again (same or another value)
        for wi in range(lo, hi):
            rng = random.Random(seed * 32452867 + wi)
            col = rng.choice(model)
            n = rng.randint(2, 9)
            ks = rng.sample(others, min(n, len(others)))
            mode = wi % 4  # 0: level first, 1: level at a random later position, 2: level absent, 3: level anywhere, possibly twice
            if mode == 0:
                ks.insert(0, "level")
            elif mode == 1:
                ks.insert(rng.randint(1, len(ks)), "level")
            elif mode == 3:
                ks.insert(rng.randint(0, len(ks)), "level")
                if rng.random() < 0.5:
                    ks.insert(rng.randint(0, len(ks)), "level")
            if rng.random() < 0.5:
                ks.insert(rng.randint(1, len(ks)), rng.choice(ks))  # a key given again
            seq = []
            given = {}
            for k in ks:
                cm = col.get(k, ("set", []))
                pts = sorted(_cell_points(cm), key=int)
                x = rng.random()
                if k in given and x < 0.5:
                    v = given[k]
                elif x < 0.7 and pts:
                    v = rng.choice(pts)
                elif x < 0.85:
                    v = rng.choice(cands(k, rng))
                else:
                    v = (rng.choice(pts) if pts else 0) + rng.choice([-1, 1, 2, 7])
                given[k] = v
                seq.append((k, v))
            run(seq, probes_of)
    return counters, fails


def _part_validator_real(rep, tier, seed):
    if _VALIDATOR_BROKEN:
        return _Fails()
    vmods = _load_validator()
    model, mtable, keys = _real_model()
    total = _Fails()
    if any(len(c) == 0 for c in mtable):
        rep.extra_assumptions.append("the live level table has a catch-all column; the validator walks on it were skipped")
        return total
    thorough = tier == "thorough"
    nk = len(keys)
    npairs = nk * nk
    ntriples = (nk - 1) * (nk - 2)
    nwalks = 40000 if thorough else 6000
    jobs = []
    for kind, n in (("pairs", npairs), ("triples", ntriples), ("walks", nwalks)):
        step = max(1, -(-n // (NPROC * 2)))
        jobs += [(kind, lo, min(n, lo + step), seed) for lo in range(0, n, step)]
    agg = {}
    for (c, f) in _pool_map(_w_real_validator, jobs):
        for k, v in c.items():
            agg[k] = agg.get(k, 0) + v
        total.merge(f)
    rep.add_bounded(
        "C17.validator.real-table",
        "The real assert_level_constraint(state, key, value) on a fresh State, reading the real LEVEL_CONSTRAINTS, against 'the dictionary of the values accepted so far plus "
        "{key: value} is an allowed combination' evaluated on the independently parsed level_constraints.csv (%d keys x %d columns). EXHAUSTIVE over key orders of length 2: "
        "every ordered pair of keys (%d, incl. a key given twice) with up to 3 x 3 values, one from each class of values the columns tell apart; 'level' together with every "
        "ordered pair of other keys (%d pairs x 2 value choices), 'level' in each of the 3 positions. SAMPLED (seeded): %d random walks over 2..9 other keys in random order with "
        "'level' first / at a random later position / absent / anywhere and possibly twice, and in half of the walks one key given again (same or another value); values from "
        "one random column's cells, from the value classes, or perturbed by -1/+1/+2/+7. After every call: accepted or ValueNotAllowedInLevel as the statement says, the recorded "
        "values are exactly the accepted ones, the exception names the key, the value, the earlier values and (for a new key) the allowed values; a walk continues after a "
        "rejection (which must leave the state unchanged)" % (nk, len(model), npairs, ntriples, nwalks),
        agg.get("sequences", 0), False, distinct=agg.get("rejected", 0),
        note="evaluations = sequences; %d assert_level_constraint calls; distinct = calls that had to be rejected; sequences with 'level' after another key: %d, without 'level': %d; "
             "calls giving a key again: %d (of which %d with another value where the two readings of the statement differ; the real function accepted %d of those)"
             % (agg.get("validator", 0), agg.get("level_later", 0), agg.get("level_absent", 0), agg.get("repeated", 0), agg.get("ambiguous", 0), agg.get("ambiguous_accepted", 0)))
    rep.extra_coverage["C17_validator_real_table"] = agg
    return total


class _CellSet(object):
    """frozenset-like view of a CSV cell model (values and inclusive ranges) for the table model"""

    def __init__(self, cm):
        self.cm = cm

    def __contains__(self, x):
        return _cell_member(self.cm, x)


# ------------------------------------------------------------------------------------------------
# samples: a few of the enumerated cases, re-run here so that the evidence shows observed results
# ------------------------------------------------------------------------------------------------
def _samples_valueset(ct):
    atoms = dict((a.text, a) for a in _universe("int7")[0])
    out = []
    for texts, mode in (((("(0, 1)", "(3, 4)", "(1, 3)")), (1, ("M", "R"))), (("2", "(0, 1)", "(3, 3)"), ("S", 1)), (("(2, 5)", "5", "(6, 6)"), (0, ("L", "M", "R")))):
        seq = [atoms[t] for t in texts]
        vs = _build(ct.ValueSet, seq, mode)
        out.append("%s -> members among -1..7: %r, str: %s" % (_program_text(seq, mode), [x for x in range(-1, 8) if x in vs], str(vs)))
    return out


def _samples_multivar(ct):
    out = []
    for ops in ([("new", "a", (1,)), ("plus", "b", "a", "E"), ("addv", "b", 0)],
                [("new", "a", ((1, 2),)), ("new", "b", (0,)), ("plus", "a", "a", "b"), ("addr", "b", 2, 3)]):
        env = {}
        for op in ops:
            _pv_real_step(ct, env, op)
        out.append("%s -> %s" % ("; ".join(_pv_text(o) for o in ops), ", ".join("%s = %s" % (n, env[n]) for n in sorted(env))))
    return out


def _samples_pairs(ct):
    out = []
    for a, b in ((((0, 6),), ((2, 3),)), ((1, (3, 4)), (2, (5, 6))), (((0, 2),), ((3, 4),))):
        A, B = ct.ValueSet(*a), ct.ValueSet(*b)
        out.append("%r.is_disjoint(%r) = %r; union members among -1..7: %r" % (A, B, A.is_disjoint(B), [x for x in range(-1, 8) if x in (A + B)]))
    return out


def _samples_tables(ct):
    T = [{"k0": ct.ValueSet(0, 1), "k1": ct.ValueSet((2, 3))}, {"k0": ct.ValueSet(1), "k1": ct.ValueSet(0)}]
    S = ct.allowed_values_for(T, "k1", {"k0": 0})
    return ["T = %r: allowed_values_for(T, 'k1', {'k0': 0}) = %r; is_allowed_combination(T, {'k0': 0, 'k1': v}) for v in 0..4 = %r"
            % (T, S, [ct.is_allowed_combination(T, {"k0": 0, "k1": v}) for v in range(5)])]


def _samples_csv(ct, seed):
    text, _ = _gen_csv(random.Random(seed * 15485863 + 0))
    d = _scratch_dir()
    try:
        path = os.path.join(d, "sample.csv")
        with open(path, "w", encoding="utf-8", newline="") as f:
            f.write(text)
        return ["csv text %r is read as %r" % (text, ct.read_constraints_from_csv(path))]
    finally:
        shutil.rmtree(d, ignore_errors=True)


# ================================================================================================
# observations outside the statement (recorded, never a verdict)
# ================================================================================================
def _observations(rep):
    ct = _load()
    obs = {}
    try:
        a = ct.ValueSet((5, 3))
        obs["reversed range (lo > hi), excluded by the bound lo <= hi"] = {
            "ValueSet((5, 3)) contains any of 2..6": any(x in a for x in range(2, 7)),
            "ValueSet((5, 3)).is_disjoint(ValueSet(5))": a.is_disjoint(ct.ValueSet(5)),
        }
    except Exception as e:
        obs["reversed range (lo > hi), excluded by the bound lo <= hi"] = repr(e)
    try:
        obs["string queried against an integer range (mixed incomparable types, excluded)"] = repr("a" in ct.ValueSet((1, 3)))
    except Exception as e:
        obs["string queried against an integer range (mixed incomparable types, excluded)"] = "raises " + type(e).__name__
    T = [{"k": ct.ValueSet(1), "j": ct.ValueSet(0)}, {"k": ct.ValueSet(2), "j": ct.ValueSet(0)}]
    obs["a key given again with ANOTHER value (the statement can be read two ways there; the check only counts such calls, see C17.validator.real-table and the table notes)"] = {
        "table": "[{'k': ValueSet(1), 'j': ValueSet(0)}, {'k': ValueSet(2), 'j': ValueSet(0)}]",
        "2 in allowed_values_for(T, 'k', {'k': 1}) (what a second assert_level_constraint('k', 2) after k=1 consults)": 2 in ct.allowed_values_for(T, "k", {"k": 1}),
        "is_allowed_combination(T, {'k': 2})": ct.is_allowed_combination(T, {"k": 2}),
        "reading": "the real function rejects k=2 after k=1 here although {'k': 2} alone is an allowed combination: it requires one column to contain the old AND the new "
                   "value of the key (at the first re-assignment), not the dictionary with the value replaced",
    }
    d = _scratch_dir()
    try:
        path = os.path.join(d, "blank.csv")
        with open(path, "w", encoding="utf-8", newline="") as f:
            f.write("level,1, ,2\n")
        try:
            obs["a cell of blanks only (neither an 'empty cell' nor a value of the documented format; excluded)"] = repr(ct.read_constraints_from_csv(path))
        except Exception as e:
            obs["a cell of blanks only (neither an 'empty cell' nor a value of the documented format; excluded)"] = "raises " + repr(e)
    finally:
        shutil.rmtree(d, ignore_errors=True)
    rep.extra_coverage["C17_observations_outside_the_checked_bounds"] = obs


# ================================================================================================
# hook
# ================================================================================================
def check_c17(rep, tier, seed):
    global NPROC
    if tier == "thorough" and "VERIF_C17_NPROC" not in os.environ:
        NPROC = max(1, min(16, os.cpu_count() or 1))  # the thorough tier is sized for 16 workers (about 90 CPU minutes)
    _load()
    total = _Fails()
    try:
        _load_validator()
    except Exception:
        tb = traceback.format_exc(limit=12)
        if "constraint_table.py" not in tb:
            raise  # not attributable to the code under check: a checker error
        # importing the validator loads the level table through read_constraints_from_csv: its failure is a finding
        _VALIDATOR_BROKEN.append(tb)
        total.add("levelcsv-exception", {"what": "loading vc2_conformance.level_constraints / decoder.assertions (which reads level_constraints.csv through "
                                                 "read_constraints_from_csv) raised", "inputs": {"import": "vc2_conformance.decoder.assertions"},
                                         "expected": "no exception", "observed": tb})
    walls = {}
    try:
        for name, part in (("valueset", _part_valueset), ("tables", _part_tables), ("csv", _part_csv), ("validator_real_table", _part_validator_real)):
            t0 = time.time()
            total.merge(part(rep, tier, seed))
            walls[name] = round(time.time() - t0, 1)
    finally:
        _close_pool()
    rep.extra_coverage["C17_wall_seconds_by_part"] = walls
    _observations(rep)
    for kind in sorted(total.kept):
        rep.say("C17 %s: %d failing case(s)" % (kind, total.count[kind]))
        for i, payload in enumerate(total.kept[kind]):
            payload = dict(payload)
            payload["failing_cases_of_this_kind"] = total.count[kind]
            rep.violation("%s-%d" % (kind, i), payload)
    rep.extra_coverage["C17_failing_cases_by_kind"] = dict(total.count)
    rep.extra_coverage["explanation"] = (
        "BOUNDED stand-in, not a proof: the real ValueSet/AnyValue class, filter_constraint_table, is_allowed_combination, allowed_values_for, "
        "assert_level_constraint and read_constraints_from_csv of the tree under check were executed on the enumerated / seeded-random inputs listed under "
        "bounded_checks and compared with an independent set-semantics model (Python frozensets; own CSV reader); 'evaluations' counts programs, pairs, tables "
        "files and validator sequences run on the real code; the two 'obligations' are the ground comparisons of the shipped level_constraints.csv with the independent parse")
    rep.extra_coverage["trusted_base"] = ["CPython 3.12 (set/frozenset semantics as reference)", "the independent model and CSV reader in /verif/bounded/c17_constraint_table.py"]
    rep.extra_coverage["checker_cmd"] = "./verif check C17 --tier %s  (bounded enumeration in a %d-process fork pool; no solver involved)" % (tier, NPROC)


_VALIDATOR_BROKEN = []


REGISTER = {
    "C17": dict(
        extra=[check_c17],
        level="other",
        assumptions=[
            "BOUNDED stand-in, not a proof: every claim is limited to the enumerated / sampled domains listed under bounded_checks",
            "ValueSet: integer universes 0..6 (quick) / 0..8 (thorough), <= 3 operations in every build mode (thorough: 4 operations in 6 build modes), plus 4-5 operations of the "
            "special shape 'separated ranges, then one bridging atom' in 3-4 build modes; ranges always have lo <= hi "
            "(a reversed range is outside the bound; see C17_observations_outside_the_checked_bounds); strings only as single values; bool/IntEnum members only where they "
            "compare as integers; values of mutually incomparable types (a string against an integer range) are outside the bound",
            "multi-variable programs: universe 0..3, <= 3 variables, exhaustive to 3 steps (full alphabet, constructions of <= 1 atom), 4 steps over a reduced alphabet (quick "
            "tier: only those ending in an addition after a union/copy; thorough: all, plus such 5-step programs), seeded random programs of 5..10 steps over 0..4. An operation "
            "is taken to change the denotation of its target variable only (no two variables ever share state: the class has no operation documented as returning an operand); "
            "the columns (dicts) inside the list returned by filter_constraint_table ARE the table's own entries by design ('the subset of constraint_table entries'), so only "
            "the list itself is required to be the caller's",
            "equality of ValueSets is checked for soundness only (== implies same set); neither the property nor the docstrings promise that equal sets compare equal, and they do not",
            "constraint tables (columns x keys over universe), quick tier: exhaustive 1x1, 1x2, 1x3, 2x1 over 0..3, 2x2 over 0..3 up to column order, 2x3 over 0..1; "
            "seeded samples of 3x2 over 0..2 (15000 tables), 2x3 over 0..2 (5000) and over 0..3 (2000), 3x3 over 0..2 (1000). Thorough tier: exhaustive 2x2 over 0..3, 2x3 over 0..2, 3x3 over 0..1, 2x2 over 0..4 and 3x2 over 0..2 "
            "up to column order; seeded samples of 2x3 over 0..3 (250000), 3x2 over 0..3 (300000), 3x3 over 0..2 (100000). Tables with AnyValue cells / missing keys / catch-all "
            "columns: exhaustive up to 2x2 over 0..2 and 3x2 over 0..1 (thorough also 2x3 over 0..1); sampled 2x3 over 0..1 (10000, quick) and over 0..2 (3000; thorough 150000, also 3x3 over 0..1 and 3x2 over 0..2). String keys. The exact "
            "counts of each run are in the domain strings",
            "the validator clause runs the real assert_level_constraint with the module global LEVEL_CONSTRAINTS (in decoder/assertions.py and level_constraints.py) replaced by the "
            "enumerated table (a canary confirms the replacement is effective; the real table is restored in a finally) and, separately, with the real table; every sequence starts "
            "from a fresh State() and continuations of a prefix run on independent copies of the State the real function left behind; sequence length <= keys + 1 on synthetic "
            "tables (all key orders on every n-th table, one rotated order on the others), <= 11 on the real table",
            "a key given again with the SAME value must be accepted and change nothing. A key given again with ANOTHER value is judged only where both readings of 'every prefix is "
            "an allowed combination' agree (reading A: the dictionary so far with the value replaced; reading B: one column contains every value ever accepted): must accept when "
            "B accepts, must reject when A rejects; calls in between are counted (coverage keys C17_validator_*), not judged. On the unchanged tree the real function follows B at "
            "the first re-assignment (it rejects k=2 after k=1 on [{k:1, j:0}, {k:2, j:0}] although {k: 2} is allowed)",
            "the fields of ValueNotAllowedInLevel are checked against its docstring (key, value, level_constrained_values = the earlier accepted values, allowed_values = the "
            "values x for which prefix + {key: x} is allowed, probed on the universe + 1 / on one value per class of values the real columns tell apart)",
            "a 'catch-all column' is read as a column with no cells at all (the code comment's 'catch all' rule); a key missing from a non-empty column means the column does not "
            "contain any combination mentioning that key (module docstring: the 'pickleable' example)",
            "CSV: an independent RFC-4180 reader and an independent reader of the documented cell format; generated files have unique keys, non-negative integers, "
            "ranges with lo <= hi, upper-case TRUE/FALSE, lower-case 'any'; blanks only around whole cells and after the commas of a list; a cell of blanks only and '-5' style "
            "negative numbers are outside the documented format",
            "CSV files need not be rectangular: skipped rows (blank, only empty cells, only '#'/empty cells) define no column whatever their width; the value columns are those "
            "of the widest key row (an empty cell is a cell); what a key row shorter than another means for the columns it does not reach is undocumented and judged as "
            "inconclusive ('key not listed' and 'listed with no values' both accepted, values there are a violation)",
            "a ditto mark ('the same value as the column to their left') is read as the content of the value cell to its left IN THE SAME ROW; in the first value column there is "
            "no such cell and the ditto lists nothing (rows are independent: nothing is ever taken from another row); ditto marks written: \", “, ”, \"\" and \" with blanks",
            "the CSV grid is exhaustive over the KINDS of cell (empty, any, value, range, list, ditto) of tables up to 2x3 / 1x4 / 4x1 (thorough also 3x2, 1x5, 5x1), not over their numeric "
            "contents; non-rectangular variants on 2x2, 1x2 and 0-row tables (thorough also 1x3, 3x1); the "
            "layouts (separator rows, quoting, line ends, leading comment row, spellings) rotate with the table (the number of layouts per table is in the domain string); generated CSV "
            "files are written to /dev/shm when available",
            "trusted: CPython set/frozenset semantics as the reference model; the csv dialect of the shipped file is plain RFC-4180",
        ],
        manifest=dict(
            category="other",
            technique="bounded exhaustive / seeded enumeration of the real ValueSet, constraint-table and CSV functions against an independent set-semantics model",
            text="Bounded stand-in: ValueSet membership/union/is_disjoint exhaustively for all programs of <= 3 (thorough 4) operations over 0..6 (0..8) plus chains of 3-4 separated "
                 "ranges bridged by a last atom; the allowed_values_for <=> is_allowed_combination equivalence exhaustively for small tables (<= 2x3 over 0..2/0..3, 3x2), with AnyValue "
                 "cells, missing keys and catch-all columns against the documented semantics; the validator's one-at-a-time acceptance through the real assert_level_constraint on a "
                 "State, for all key orders / repeated / unlisted keys on small substituted tables and for all ordered key pairs, level-triples and seeded walks on the real level "
                 "table; read_constraints_from_csv against an independent reader on an exhaustive grid of cell kinds (ditto everywhere; non-rectangular files: skipped rows wider than "
                 "the table, short and over-long key rows), seeded random CSVs and the shipped "
                 "level_constraints.csv (every cell).",
            note="Not a proof. Not covered: reversed ranges, incomparable mixed types, the ambiguous case of a key re-assigned to another value (counted only), larger tables/universes, "
                 "CSV text outside the documented format.",
        ),
    ),
}
