#!/bin/sh
# Builds /verif/.venv offline: python 3.12 (from /venv) + solver wheels from the
# local wheelhouse + a .pth exposing /venv's site-packages (where the repo and
# its dependencies are installed, editable -> /repo working tree).
set -e
HERE="$(cd "$(dirname "$0")" && pwd)"
VENV="$HERE/.venv"
exec 9>"$HERE/.venv.lock"
flock 9
if [ -x "$VENV/bin/python" ] && "$VENV/bin/python" -c "import z3, cvc5, jsonschema, vc2_conformance" 2>/dev/null; then
    exit 0
fi
rm -rf "$VENV"
/venv/bin/python -m venv "$VENV"
PIP_NO_INDEX=1 "$VENV/bin/python" -m pip install -q --no-index --find-links /opt/veriftools/wheels \
    z3-solver cvc5 jsonschema crosshair-tool icontract deal >/dev/null
SP="$("$VENV/bin/python" -c 'import sysconfig; print(sysconfig.get_paths()["purelib"])')"
echo "import site; site.addsitedir('/venv/lib/python3.12/site-packages')" > "$SP/zz_repo_overlay.pth"
"$VENV/bin/python" -c "import z3, cvc5, jsonschema, vc2_conformance; print('venv ok', z3.get_version_string(), vc2_conformance.__file__)"
