"""Call handling: ghost functions, builtins, transparent inlining, contract calls, lemma calls."""
import ast
import types

import z3

from . import frontend
from .symexec import (
    AIA,
    AIB,
    AII,
    B,
    I,
    LEMMAS,
    NONE,
    SPEC_Z3,
    BoundMethod,
    Frame,
    GhostFn,
    LemmaSrc,
    SpecFun,
    St,
    SV,
    Unsupported,
    as_int,
    blen,
    lift_conc,
    merge_states,
    mk_bool,
    mk_conc,
    mk_int,
    mk_optint,
    mk_ref,
    mk_tuple,
    sv_eq,
    sv_ite,
    truth,
)


def do_call(ex, st, e):
    ctx = ex.ctx
    # super-special forms that must not evaluate their arguments eagerly
    if isinstance(e.func, ast.Name) and e.func.id in ("forall", "exists", "old", "at_entry", "apply_forall") and e.func.id not in st.env:
        return ghost_call(ex, st, e.func.id, e)
    f = ex.ev(st, e.func)
    if f.k == "ref" and str(f.x) in getattr(ex.reg, "opaque_call_hooks", {}):
        args = [ex.ev(st, a) for a in e.args]
        return ex.reg.opaque_call_hooks[str(f.x)](ex, st, f, args, e)
    if f.k != "conc":
        raise Unsupported("call of non-constant callee", e)
    o = f.z
    if isinstance(o, GhostFn):
        return ghost_call(ex, st, o.name, e)
    if any(isinstance(a, ast.Starred) for a in e.args):
        args = []
        for a in e.args:
            if isinstance(a, ast.Starred):
                v = ex.ev(st, a.value)
                if v.k != "tuple":
                    raise Unsupported("*args of non-tuple", e)
                args.extend(v.z)
            else:
                args.append(ex.ev(st, a))
    else:
        args = [ex.ev(st, a) for a in e.args]
    kwargs = {}
    for k in e.keywords:
        if k.arg is None:
            raise Unsupported("**kwargs", e)
        kwargs[k.arg] = ex.ev(st, k.value)
    if isinstance(o, BoundMethod):
        return method_call(ex, st, o, args, kwargs, e)
    from .stmts import LocalFn

    if isinstance(o, LocalFn):
        return inline_local(ex, st, o, args, kwargs, e)
    if isinstance(o, LemmaSrc):
        return lemma_call(ex, st, o, args, e)
    if isinstance(o, SpecFun):
        return mk_int(o.z(*[spec_arg(ctx, st, a, e) for a in args]))
    if isinstance(o, types.BuiltinFunctionType) or o in (int, bool, len, abs, min, max, range, sum, bytearray, isinstance, getattr):
        return builtin_call(ex, st, o, args, kwargs, e)
    if isinstance(o, types.FunctionType):
        fq = frontend.fq_of(o)
        if fq is None and hasattr(o, "__pyvc_inline__"):
            return inline_sidecar(ex, st, o, args, kwargs, e)
        if fq is None:
            raise Unsupported("call of function outside the tree: %r" % (o,), e)
        return function_call(ex, st, fq, args, kwargs, e)
    if isinstance(o, types.MethodType):
        raise Unsupported("bound method constant", e)
    if isinstance(o, type):
        return class_call(ex, st, o, args, kwargs, e)
    raise Unsupported("call of %r" % (o,), e)


# ---------------------------------------------------------------------------


def spec_arg(ctx, st, a, e):
    if a.k == "array":
        return a.z
    return as_int(ctx, st, a, e)


def ghost_call(ex, st, name, e):
    ctx = ex.ctx
    fr = ctx.frames[-1]
    if name in ("old", "at_entry"):
        if fr.old_state is None:
            raise Unsupported("old() outside a contract", e)
        tmp = fr.old_state.fork()
        tmp.pc = list(st.pc)
        # names in old() are parameters (entry values); quantifier-bound and ghost names keep their current meaning
        for k, v in st.env.items():
            if k not in tmp.env:
                tmp.env[k] = v
                tmp.defd[k] = z3.BoolVal(True)
        saved = ctx.spec_mode
        ctx.spec_mode = True
        try:
            return ex.ev(tmp, e.args[0])
        finally:
            ctx.spec_mode = saved
    if name == "apply_forall":
        # apply_forall(lemma, lambda m: (arg, ...), trigger=lambda m: term): the universally quantified statement of an
        # already proved lemma (requires ==> ensures for all m) is added as a fact
        lemv = ex.ev(st, e.args[0])
        lem = lemv.z
        if not isinstance(lem, LemmaSrc):
            raise Unsupported("apply_forall needs a lemma", e)
        if ctx.current_lemma is lem:
            raise Unsupported("apply_forall of the lemma being proved would be circular", e)
        lam = e.args[1]
        bnames = [a.arg for a in lam.args.args]
        bvars = [ctx.fresh("q_" + n) for n in bnames]
        tmp = st.fork()
        for n, v in zip(bnames, bvars):
            tmp.env[n] = mk_int(v)
            tmp.defd[n] = z3.BoolVal(True)
        saved = ctx.spec_mode
        ctx.spec_mode = True
        try:
            argt = ex.ev(tmp, lam.body)
            if argt.k != "tuple" or len(argt.z) != len(lem.params):
                raise Unsupported("apply_forall: the lambda must return the lemma's argument tuple", e)
            inner = st.fork()
            inner.env = {pn: a for (pn, _), a in zip(lem.params, argt.z)}
            inner.defd = {k: z3.BoolVal(True) for k in inner.env}
            fr = Frame("lemma-forall:" + lem.name, lem.modname)
            fr.locals_assigned = set()
            fr.sidecar_globals = lem.sidecar_globals
            fr.loop_ordinals = {}
            fr.invariants = {}
            fr.old_state = None
            ctx.frames.append(fr)
            try:
                reqs = [ex.ev_spec(inner, r) for r in lem.requires]
                enss = [ex.ev_spec(inner, q) for q in lem.ensures]
            finally:
                ctx.frames.pop()
            pats = []
            for k in e.keywords:
                if k.arg == "trigger":
                    tv = ex.ev(tmp, k.value.body)
                    pats.append(tv.z)
        finally:
            ctx.spec_mode = saved
        body = z3.Implies(z3.And(*reqs) if reqs else z3.BoolVal(True), z3.And(*enss) if enss else z3.BoolVal(True))
        ctx.assume(st, z3.ForAll(bvars, body, patterns=pats) if pats else z3.ForAll(bvars, body))
        ctx.lemma_deps.add(lem.name)
        return NONE
    if name in ("forall", "exists"):
        # forall(lo, hi, lambda j: body [, trigger=lambda j: term])  /  forall(lambda j: body)
        args = list(e.args)
        lam = args[-1]
        if not isinstance(lam, ast.Lambda):
            raise Unsupported("forall needs a lambda", e)
        bnames = [a.arg for a in lam.args.args]
        bvars = [ctx.fresh("q_" + n) for n in bnames]
        tmp = st.fork()
        for n, v in zip(bnames, bvars):
            tmp.env[n] = mk_int(v)
            tmp.defd[n] = z3.BoolVal(True)
        saved = ctx.spec_mode
        ctx.spec_mode = True
        try:
            rng = None
            if len(args) == 3:
                lo = as_int(ctx, st, ex.ev(st, args[0]), e)
                hi = as_int(ctx, st, ex.ev(st, args[1]), e)
                rng = z3.And(lo <= bvars[0], bvars[0] < hi)
            body = truth(ctx, tmp, ex.ev(tmp, lam.body), e)
            pats = []
            for k in e.keywords:
                if k.arg == "trigger":
                    tl = k.value
                    ts = tl.body.elts if isinstance(tl.body, ast.Tuple) else [tl.body]
                    terms = []
                    for t in ts:
                        tv = ex.ev(tmp, t)
                        terms.append(tv.z if tv.k != "bool" else tv.z)
                    pats.append(z3.MultiPattern(*terms) if len(terms) > 1 else terms[0])
        finally:
            ctx.spec_mode = saved
        if name == "forall":
            inner = z3.Implies(rng, body) if rng is not None else body
            return mk_bool(z3.ForAll(bvars, inner, patterns=pats) if pats else z3.ForAll(bvars, inner))
        inner = z3.And(rng, body) if rng is not None else body
        return mk_bool(z3.Exists(bvars, inner))
    args = [ex.ev(st, a) for a in e.args]
    if name == "implies":
        return mk_bool(z3.Implies(truth(ctx, st, args[0], e), truth(ctx, st, args[1], e)))
    if name == "ite":
        return sv_ite(ctx, truth(ctx, st, args[0], e), args[1], args[2])
    if name == "has":
        key = args[1].x
        return mk_bool(ctx.field_array(st, "has_" + key, AIB)[args[0].z])
    if name in ("content", "elems"):
        return SV("array", ctx.field_array(st, "elem", AIA)[args[0].z])
    if name == "fpos":
        return mk_int(ctx.field_array(st, "val_fpos", AII)[args[0].z])
    if name in ("flen", "length"):
        return mk_int(ctx.field_array(st, "len", AII)[args[0].z])
    if name == "field":
        return ex.load_field(st, args[0], args[1].x, e)
    if name == "gval":
        from .ext import AIAA

        g = ctx.field_array(st, "g_val", AIAA)[args[0].z]
        return mk_int(g[as_int(ctx, st, args[1], e)][as_int(ctx, st, args[2], e)])
    if name in ("lo_has", "lo_row", "lo_get", "gheight", "gwidth"):
        from .ext import ORIENTS, lo_arrays

        if name in ("gheight", "gwidth"):
            gz = ctx.field_array(st, "g_h" if name == "gheight" else "g_w")[args[0].z]
            ctx.assume(st, gz >= 0)  # a 2-D array has a non-negative height and width
            return mk_int(gz)
        row, has, val = lo_arrays(ctx, st)
        m = args[0].z
        lv = as_int(ctx, st, args[1], e)
        if name == "lo_row":
            return mk_bool(row[m][lv])
        if args[2].x is not None:
            oid = ORIENTS[args[2].x]
        else:
            oid = z3.IntVal(-1)
            for oname, oi in ORIENTS.items():
                oid = z3.If(args[2].z == ctx.strid(oname), z3.IntVal(oi), oid)
        if name == "lo_has":
            return mk_bool(z3.And(row[m][lv], has[m][lv][oid]))
        kind = (args[0].x or "lomap:int").split(":", 1)[1]
        return mk_int(val[m][lv][oid]) if kind == "int" else mk_ref(val[m][lv][oid], kind)
    if name == "existing_unchanged":
        # frame for a whole heap field: every object that existed on entry keeps its entry value
        fname = e.args[0].value
        cur = ctx.field_array(st, fname)
        old = fr.old_state.heap.get(fname) if fr.old_state is not None else None
        if old is None:
            old = ctx.field_sorts[fname][1]
        x = ctx.fresh("q_x")
        return mk_bool(z3.ForAll([x], z3.Implies(x > 0, cur[x] == old[x]), patterns=[cur[x]]))
    if name == "is_fresh":
        # allocated during the call: distinct from every object that existed on entry and, when a callee's
        # postcondition is assumed at a call site, from everything the caller has allocated so far
        z = args[0].z
        if getattr(ctx, "assuming_post", False):
            others = [o for o in ctx.alloc_refs if not o.eq(z)]
            ctx.alloc_refs.append(z)
            return mk_bool(z3.And(z < 0, *[z != o for o in others]))
        return mk_bool(z < 0)
    if name == "store":
        return SV("array", z3.Store(args[0].z, as_int(ctx, st, args[1], e), as_int(ctx, st, args[2], e)))
    if name == "define":
        # quantified definitional axiom of a NON-recursive spec function (safe trigger: the application itself)
        sf = args[0].z
        if not isinstance(sf, SpecFun):
            raise Unsupported("define of non-specfun", e)
        define_specfun(ex, st, sf, e)
        return NONE
    if name == "assume_":
        ctx.assume(st, truth(ctx, st, args[0], e))
        ctx.notes.append("assume_ at line %d: %s" % (e.lineno, ast.unparse(e.args[0])))
        return NONE
    if name == "cover":
        return NONE
    if name == "requires":
        # inside a lemma body after the head: treated as an assumption is NOT allowed
        raise Unsupported("requires() must be at the head of a lemma", e)
    if name in ("ensures", "decreases"):
        raise Unsupported("%s() must be at the head of a lemma" % name, e)
    if name == "use":
        lname = e.args[0].value if isinstance(e.args[0], ast.Constant) else None
        if lname not in LEMMAS:
            raise Unsupported("unknown ground lemma %r" % lname, e)
        ar, build, native, grid = LEMMAS[lname]
        zs = [as_int(ctx, st, a, e) for a in args[1:]]
        if len(zs) != ar:
            raise Unsupported("lemma %s takes %d arguments" % (lname, ar), e)
        ctx.assume(st, build(*zs))
        ctx.used_lemmas.add(lname)
        return NONE
    if name == "unfold":
        # unfold(specfun, args...) adds the definitional equation for these arguments
        sf = args[0].z
        if not isinstance(sf, SpecFun):
            raise Unsupported("unfold of non-specfun", e)
        unfold_specfun(ex, st, sf, args[1:], e)
        return NONE
    if name in SPEC_Z3:
        zs = [as_int(ctx, st, a, e) for a in args]
        if name == "pow2":
            from .symexec import pow2_small

            ctx.assume(st, pow2_small(zs[0]))
        return mk_int(SPEC_Z3[name](*zs))
    raise Unsupported("ghost function %s" % name, e)


def define_specfun(ex, st, sf, e):
    ctx = ex.ctx
    body = frontend.strip_docstring(sf.node)
    if len(body) != 1 or not isinstance(body[0], ast.Return):
        raise Unsupported("spec function %s must be a single return expression" % sf.name, e)
    for n in ast.walk(body[0]):
        if isinstance(n, ast.Name) and n.id == sf.name:
            raise Unsupported("define() of a recursive spec function would be a self-triggering axiom", e)
    bvars = []
    tmp = St(ctx)
    tmp.pc = []
    tmp.heap = dict(st.heap)
    for (pn, ann) in sf.params:
        if ann in ("array", "bytes"):
            v = ctx.fresh("d_" + pn, AII)
            tmp.env[pn] = SV("array", v)
        else:
            v = ctx.fresh("d_" + pn)
            tmp.env[pn] = mk_int(v)
        tmp.defd[pn] = z3.BoolVal(True)
        bvars.append(v)
    fr = Frame("specfun:" + sf.name, sf.modname)
    fr.sidecar_globals = ctx.frames[-1].sidecar_globals or getattr(ctx.frames[-1], "ghost_globals", None)
    fr.locals_assigned = set()
    fr.loop_ordinals = {}
    fr.invariants = {}
    fr.old_state = None
    ctx.frames.append(fr)
    saved = ctx.spec_mode
    ctx.spec_mode = True
    nfacts = len(ctx.facts)
    try:
        v = ex.ev(tmp, body[0].value)
    finally:
        ctx.spec_mode = saved
        ctx.frames.pop()
    del ctx.facts[nfacts:]  # side facts about bound variables are dropped (they would be unquantified)
    app = sf.z(*bvars)
    ctx.facts.append(z3.ForAll(bvars, app == as_int(ctx, tmp, v, e), patterns=[app]))


def unfold_specfun(ex, st, sf, args, e):
    """Adds sf(args) == body[args] as a fact (body is a single return expression, evaluated in spec mode)."""
    ctx = ex.ctx
    zs = [spec_arg(ctx, st, a, e) for a in args]
    body = frontend.strip_docstring(sf.node)
    if len(body) != 1 or not isinstance(body[0], ast.Return):
        raise Unsupported("spec function %s must be a single return expression" % sf.name, e)
    tmp = St(ctx)
    tmp.pc = list(st.pc)
    tmp.heap = dict(st.heap)
    for (pn, ann), z in zip(sf.params, zs):
        tmp.env[pn] = SV("array", z) if ann in ("array", "bytes") else mk_int(z)
        tmp.defd[pn] = z3.BoolVal(True)
    fr = Frame("specfun:" + sf.name, sf.modname)
    fr.sidecar_globals = ctx.frames[-1].sidecar_globals or getattr(ctx.frames[-1], "ghost_globals", None)
    fr.locals_assigned = set()
    fr.loop_ordinals = {}
    fr.invariants = {}
    fr.old_state = None
    ctx.frames.append(fr)
    saved = ctx.spec_mode
    ctx.spec_mode = True
    try:
        v = ex.ev(tmp, body[0].value)
    finally:
        ctx.spec_mode = saved
        ctx.frames.pop()
    ctx.assume(st, sf.z(*zs) == as_int(ctx, st, v, e))


# ---------------------------------------------------------------------------


def builtin_call(ex, st, o, args, kwargs, e):
    ctx = ex.ctx
    name = getattr(o, "__name__", str(o))
    if name == "abs":
        x = as_int(ctx, st, args[0], e)
        return mk_int(z3.If(x >= 0, x, -x))
    if name in ("min", "max"):
        if len(args) == 1 and args[0].k == "tuple":
            args = args[0].z
        zs = [as_int(ctx, st, a, e) for a in args]
        r = zs[0]
        for z in zs[1:]:
            r = z3.If(z < r, z, r) if name == "min" else z3.If(z > r, z, r)
        return mk_int(r)
    if name == "len":
        a = args[0]
        if a.k == "tuple":
            return mk_int(len(a.z))
        if a.k == "conc":
            return mk_int(len(a.z))
        if a.k == "ref" and str(a.x).startswith("grid"):
            ctx.assume(st, ctx.field_array(st, "g_h")[a.z] >= 0)
            return mk_int(ctx.field_array(st, "g_h")[a.z])
        if a.k == "gridrow":
            ctx.assume(st, ctx.field_array(st, "g_w")[a.z[0]] >= 0)
            return mk_int(ctx.field_array(st, "g_w")[a.z[0]])
        if a.k == "ref":
            ln = ctx.field_array(st, "len", AII)[a.z]
            ctx.assume(st, ln >= 0)
            return mk_int(ln)
        raise Unsupported("len of %s" % a.k, e)
    if name == "int":
        a = args[0]
        if a.k in ("int", "bool"):
            return mk_int(as_int(ctx, st, a, e))
        raise Unsupported("int() of %s" % a.k, e)
    if name == "bool":
        return mk_bool(truth(ctx, st, args[0], e))
    if name == "sum":
        a = args[0]
        if a.k == "tuple":
            r = z3.IntVal(0)
            for x in a.z:
                r = r + as_int(ctx, st, x, e)
            return mk_int(r)
        raise Unsupported("sum of %s" % a.k, e)
    if name == "getattr" and len(args) == 2 and args[0].k == "conc" and args[1].k == "str":
        if args[1].x is not None:
            try:
                return lift_conc(ctx, mk_conc(getattr(args[0].z, args[1].x)), e)
            except AttributeError:
                raise Unsupported("getattr of a missing constant attribute", e)
        note = "TRUSTED: getattr(%s, <symbol>) does not raise (every symbol the matchers can report names a member: ground fact M3, evaluated each run)" % getattr(args[0].z, "__name__", "?")
        if note not in ctx.notes:
            ctx.notes.append(note)
        return mk_int(ctx.fresh("getattr"))
    if name == "isinstance":
        raise Unsupported("isinstance", e)
    if name == "bytearray":
        # bytearray(b) of a value returned by the file model's read(1): the same byte list
        if len(args) == 1 and args[0].k == "ref":
            return mk_ref(args[0].z, "list:int")
        if not args:
            return ex.alloc_list(st, [], e)
        raise Unsupported("bytearray(%s)" % args[0].k, e)
    raise Unsupported("builtin %s" % name, e)


def method_call(ex, st, bm, args, kwargs, e):
    ctx = ex.ctx
    recv, name = bm.recv, bm.name
    if recv.k in ("int", "bool") and name == "bit_length":
        x = as_int(ctx, st, recv, e)
        return mk_int(blen(x))
    if recv.k == "optref":
        ctx.oblige(st, z3.Not(recv.z[0]), "not-none", e, "receiver of .%s() is not None" % name)
        recv = mk_ref(recv.z[1], recv.x)
    if recv.k == "ref":
        kind = recv.x or ""
        h = ex.reg.builtin_methods.get((kind.split(":")[0], name))
        if h is not None:
            return h(ex, st, recv, args, kwargs, e)
        if kind.startswith("obj:"):
            cls = kind[4:]
            fq = ex.reg.classes.get(cls)
            if fq is None:
                raise Unsupported("class %s not registered" % cls, e)
            return function_call(ex, st, fq + "." + name, [recv] + args, kwargs, e)
    raise Unsupported("method %s on %s/%s" % (name, recv.k, recv.x), e)


def class_call(ex, st, cls, args, kwargs, e):
    ctx = ex.ctx
    import enum

    if isinstance(cls, type) and issubclass(cls, enum.IntEnum):
        # Enum(v): ValueError exactly when v is not a member; otherwise the member (== v as an int)
        v = as_int(ctx, st, args[0], e)
        members = sorted(set(int(m) for m in cls))
        ok = z3.Or(*[v == m for m in members])
        bad = st.fork(z3.Not(ok))
        ex.deliver_raise(bad, ValueError, e)
        st.pc.append(ok)
        return SV("int", v, cls)
    raise Unsupported("constructor call %s" % cls.__name__, e)


# ---------------------------------------------------------------------------


def bind_params(ex, st, fsrc_params, modname, args, kwargs, e, what, vararg=None):
    ctx = ex.ctx
    env = {}
    names = [p for p, _ in fsrc_params]
    if len(args) > len(names):
        if vararg is None:
            raise Unsupported("too many arguments for %s" % what, e)
        env[vararg] = mk_tuple(args[len(names):])
        args = args[: len(names)]
    elif vararg is not None:
        env[vararg] = mk_tuple([])
    for n, a in zip(names, args):
        env[n] = a
    for k, v in kwargs.items():
        if k not in names or k in env:
            raise Unsupported("bad keyword %s for %s" % (k, what), e)
        env[k] = v
    for n, d in fsrc_params:
        if n not in env:
            if d is None:
                raise Unsupported("missing argument %s for %s" % (n, what), e)
            fr = Frame("default", modname)
            fr.locals_assigned = set()
            fr.sidecar_globals = None
            fr.loop_ordinals = {}
            fr.invariants = {}
            fr.old_state = None
            ctx.frames.append(fr)
            try:
                env[n] = ex.ev(St(ctx), d)
            finally:
                ctx.frames.pop()
    return env


def function_call(ex, st, fq, args, kwargs, e):
    ctx = ex.ctx
    reg = ex.reg
    if fq in reg.contracts and fq != ctx.verifying_fq_transparent:
        return contract_call(ex, st, reg.contracts[fq], args, kwargs, e)
    if fq in reg.transparent:
        return inline_call(ex, st, fq, args, kwargs, e)
    raise Unsupported("call to %s which has neither a contract nor is transparent" % fq, e)


def inline_call(ex, st, fq, args, kwargs, e):
    from .stmts import assigned_names

    ctx = ex.ctx
    fsrc = frontend.get_function(fq)
    ex.reg.used_transparent.add(fq)
    if ctx.inline_depth > 12:
        raise Unsupported("inlining too deep at %s" % fq, e)
    va = fsrc.node.args.vararg.arg if fsrc.node.args.vararg else None
    env = bind_params(ex, st, fsrc.params(), fsrc.module, args, kwargs, e, fq, vararg=va)
    fr = Frame(fq, fsrc.module, fsrc.cls)
    body = frontend.strip_docstring(fsrc.node)
    fr.locals_assigned = assigned_names(body) | set(env)
    fr.sidecar_globals = None
    fr.loop_ordinals = fsrc.loops
    fr.invariants = ex.reg.transparent_invariants.get(fq, {})
    fr.old_state = None
    inner = st.fork()
    inner.env = dict(env)
    inner.defd = {k: z3.BoolVal(True) for k in env}
    ctx.frames.append(fr)
    ctx.inline_depth += 1
    try:
        ex.run_block(inner, body)
    finally:
        ctx.inline_depth -= 1
        ctx.frames.pop()
    outs = []
    if not inner.dead:
        fr.returns.append((inner, NONE))
    for (rs, rv) in fr.returns:
        rs.env = dict(st.env)
        rs.defd = dict(st.defd)
        rs.env["__ret"] = rv
        rs.defd["__ret"] = z3.BoolVal(True)
        outs.append(rs)
    if not outs:
        st.dead = True
        return NONE
    merge_states(ctx, outs, st)
    rv = st.env.pop("__ret")
    st.defd.pop("__ret", None)
    return rv


def inline_sidecar(ex, st, fn, args, kwargs, e):
    from .stmts import assigned_names

    ctx = ex.ctx
    node, mod = fn.__pyvc_inline__
    if ctx.inline_depth > 12:
        raise Unsupported("inlining too deep at %s" % fn.__name__, e)
    # memoisation of pure helper evaluations in specification mode: the result is a function of the argument
    # terms and of the heap arrays the helper reads (recorded on first evaluation)
    ckey = None
    if ctx.spec_mode and not kwargs and all(a.k in ("int", "bool", "ref", "str", "array", "none") for a in args):
        deps = ctx.inline_deps.get(fn.__name__)
        if deps is not None:
            sig = tuple(a.z.get_id() if a.z is not None else -1 for a in args) + tuple(
                (f, st.heap[f].get_id() if f in st.heap else -1) for f in deps) + (id(ctx.frames[-1].old_state),)
            ckey = (fn.__name__, sig)
            hit = ctx.inline_cache.get(ckey)
            if hit is not None:
                return hit
        ctx.read_log.append(set())
    a = node.args
    names = [x.arg for x in a.args]
    defaults = [None] * (len(names) - len(a.defaults)) + list(a.defaults)
    env = bind_params(ex, st, list(zip(names, defaults)), None, args, kwargs, e, fn.__name__)
    fr = Frame("inline:" + fn.__name__, None)
    body = frontend.strip_docstring(node)
    fr.locals_assigned = assigned_names(body) | set(env)
    fr.sidecar_globals = mod.__dict__
    fr.loop_ordinals = {}
    fr.invariants = {}
    fr.old_state = ctx.frames[-1].old_state
    inner = st.fork()
    inner.env = dict(env)
    inner.defd = {k: z3.BoolVal(True) for k in env}
    ctx.frames.append(fr)
    ctx.inline_depth += 1
    try:
        ex.run_block(inner, body)
    finally:
        ctx.inline_depth -= 1
        ctx.frames.pop()
    outs = []
    if not inner.dead:
        fr.returns.append((inner, NONE))
    for (rs, rv) in fr.returns:
        rs.env = dict(st.env)
        rs.defd = dict(st.defd)
        rs.env["__ret"] = rv
        rs.defd["__ret"] = z3.BoolVal(True)
        outs.append(rs)
    if not outs:
        if ctx.spec_mode and not kwargs and all(a.k in ("int", "bool", "ref", "str", "array", "none") for a in args):
            ctx.read_log.pop()
        st.dead = True
        return NONE
    merge_states(ctx, outs, st)
    rv = st.env.pop("__ret")
    st.defd.pop("__ret", None)
    if ctx.spec_mode and not kwargs and all(a.k in ("int", "bool", "ref", "str", "array", "none") for a in args):
        reads = ctx.read_log.pop()
        if ctx.read_log:
            ctx.read_log[-1] |= reads
        if fn.__name__ not in ctx.inline_deps:
            ctx.inline_deps[fn.__name__] = sorted(reads)
        deps = ctx.inline_deps[fn.__name__]
        if set(reads) <= set(deps) and rv.k in ("int", "bool", "ref", "str", "array", "none"):
            sig = tuple(a.z.get_id() if a.z is not None else -1 for a in args) + tuple(
                (f, st.heap[f].get_id() if f in st.heap else -1) for f in deps) + (id(ctx.frames[-1].old_state),)
            ctx.inline_cache[(fn.__name__, sig)] = rv
        elif not set(reads) <= set(deps):
            ctx.inline_deps[fn.__name__] = sorted(set(deps) | set(reads))
    return rv


def inline_local(ex, st, lf, args, kwargs, e):
    """Call of a nested function: its body runs in the caller's frame and environment (closure variables visible)."""
    from .stmts import assigned_names

    ctx = ex.ctx
    node = lf.node
    names = [a.arg for a in node.args.args]
    if len(args) != len(names) or kwargs:
        raise Unsupported("call of local function %s" % node.name, e)
    fr_outer = ctx.frames[-1]
    fr = Frame(fr_outer.unit + "." + node.name, fr_outer.modname, fr_outer.cls)
    body = frontend.strip_docstring(node)
    fr.locals_assigned = assigned_names(body) | set(names)
    fr.sidecar_globals = fr_outer.sidecar_globals
    fr.ghost_globals = getattr(fr_outer, "ghost_globals", None)
    fr.loop_ordinals = {}
    fr.invariants = {}
    fr.old_state = fr_outer.old_state
    inner = st.fork()
    for n, a in zip(names, args):
        inner.env[n] = a
        inner.defd[n] = z3.BoolVal(True)
    ctx.frames.append(fr)
    ctx.inline_depth += 1
    try:
        ex.run_block(inner, body)
    finally:
        ctx.inline_depth -= 1
        ctx.frames.pop()
    outs = []
    if not inner.dead:
        fr.returns.append((inner, NONE))
    for (rs, rv) in fr.returns:
        rs.env = dict(st.env)
        rs.defd = dict(st.defd)
        rs.env["__ret"] = rv
        rs.defd["__ret"] = z3.BoolVal(True)
        outs.append(rs)
    if not outs:
        st.dead = True
        return NONE
    merge_states(ctx, outs, st)
    rv = st.env.pop("__ret")
    st.defd.pop("__ret", None)
    return rv


def fresh_of_type(ex, t, name):
    ctx = ex.ctx
    if t == "int":
        return mk_int(ctx.fresh(name))
    if t == "bool":
        return mk_bool(ctx.fresh(name, B))
    if t == "none":
        return NONE
    if t == "optint":
        return mk_optint(ctx.fresh(name + "_none", B), ctx.fresh(name))
    if t == "str":
        return SV("str", ctx.fresh(name))
    if t.startswith("tuple:"):
        return mk_tuple([fresh_of_type(ex, x, name + str(i)) for i, x in enumerate(t[6:].split(","))])
    if t in ("array", "bytes"):
        return SV("array", ctx.fresh(name, AII))
    if t == "class":
        # an exception class passed as a parameter: a fresh class nothing else is related to
        cls = type("@" + name, (Exception,), {})
        ctx.param_classes[name] = cls
        return mk_conc(cls)
    if t.startswith("opaque"):
        return mk_ref(ctx.fresh(name), t)
    if t in ("dict", "file", "opaque", "bytearray", "grid") or t.startswith(("list", "obj:", "dict:", "lomap")):
        return mk_ref(ctx.fresh(name), t)
    raise Unsupported("type %s" % t)


def eval_modifies(ex, st, contract, env, with_cond=False):
    """[(ref z3 term, heap array name[, cond])] for a contract's modifies clauses, evaluated in st with env.
    A clause may be conditional:  `<target> if <cond> else None`."""
    ctx = ex.ctx
    out = []
    tmp = st.fork()
    tmp.env = dict(env)
    tmp.defd = {k: z3.BoolVal(True) for k in env}
    saved = ctx.spec_mode
    ctx.spec_mode = True
    try:
        for (txt, node) in contract.modifies:
            cond = None
            if isinstance(node, ast.IfExp):
                cond = truth(ctx, tmp, ex.ev(tmp, node.test), node)
                node = node.body
            items = []
            if isinstance(node, ast.Subscript) and isinstance(node.slice, ast.Constant) and isinstance(node.slice.value, str):
                base = ex.ev(tmp, node.value)
                key = node.slice.value
                items.append((base.z, "has_" + key))
                for f in ex.field_arrays_of(key):
                    items.append((base.z, f))
            elif isinstance(node, ast.Attribute):
                base = ex.ev(tmp, node.value)
                for f in ex.field_arrays_of(node.attr):
                    items.append((base.z, f))
            elif isinstance(node, ast.Call) and isinstance(node.func, ast.Name) and node.func.id == "elems":
                base = ex.ev(tmp, node.args[0])
                items.append((base.z, "elem"))
            elif isinstance(node, ast.Call) and isinstance(node.func, ast.Name) and node.func.id == "length":
                base = ex.ev(tmp, node.args[0])
                items.append((base.z, "len"))
            elif isinstance(node, ast.Call) and isinstance(node.func, ast.Name) and node.func.id == "gcontent":
                base = ex.ev(tmp, node.args[0])
                items.append((base.z, "g_val"))
            elif isinstance(node, ast.Call) and isinstance(node.func, ast.Name) and node.func.id == "lomap":
                base = ex.ev(tmp, node.args[0])
                items.extend([(base.z, "lo_row"), (base.z, "lo_has"), (base.z, "lo_val")])
            elif isinstance(node, ast.Call) and isinstance(node.func, ast.Name) and node.func.id == "gshape":
                base = ex.ev(tmp, node.args[0])
                items.extend([(base.z, "g_h"), (base.z, "g_w"), (base.z, "g_val")])
            elif isinstance(node, ast.Call) and isinstance(node.func, ast.Name) and node.func.id == "any_key" and isinstance(node.args[0], ast.Constant):
                # any_key("k"): entry k of ANY dictionary/object may be set, changed or removed (frame: every other key is untouched)
                items.append((None, "has_" + node.args[0].value))
                for f in ex.field_arrays_of(node.args[0].value):
                    items.append((None, f))
            elif isinstance(node, ast.Call) and isinstance(node.func, ast.Name) and node.func.id == "all_grids":
                items.append((None, "g_val"))  # contents of 2-D arrays (never their shapes)
            else:
                raise Unsupported("modifies clause %s" % txt)
            for (r, f) in items:
                out.append((r, f, cond) if with_cond else (r, f))
    finally:
        ctx.spec_mode = saved
    return out


def contract_frame(contract, old_state, sidecar_globals):
    fr = Frame("contract:" + contract.fq, contract.module)
    fr.locals_assigned = set()
    fr.sidecar_globals = sidecar_globals
    fr.loop_ordinals = {}
    fr.invariants = {}
    fr.old_state = old_state
    return fr


def contract_call(ex, st, contract, args, kwargs, e):
    ctx = ex.ctx
    ex.reg.used_contracts.add(contract.fq)
    fsrc = frontend.get_function(contract.fq)
    va = fsrc.node.args.vararg.arg if fsrc.node.args.vararg else None
    # defaults of opaque parameters are not evaluated (e.g. any_value=AnyValue())
    pnames = [p for p, _ in fsrc.params()]
    kwargs = dict(kwargs)
    for i, (pn, d) in enumerate(fsrc.params()):
        if d is not None and i >= len(args) and pn not in kwargs and str(contract.args.get(pn, "")).startswith("opaque"):
            kwargs[pn] = mk_ref(ctx.fresh("default_" + pn), contract.args[pn])
    env = bind_params(ex, st, fsrc.params(), fsrc.module, args, kwargs, e, contract.fq, vararg=va)
    env.pop(va, None)
    if getattr(contract, "ghost_params", None):
        given = getattr(ex, "pending_ghost", None) or {}
        ex.pending_ghost = None
        for gn in contract.ghost_params:
            if gn not in given:
                raise Unsupported("call of %s without its ghost argument %s (use with_ghost)" % (contract.short, gn), e)
            env[gn] = given[gn]
    # coerce concrete constants (a constant tuple/list passed where the contract expects a list becomes a fresh list)
    for k in list(env):
        if env[k].k == "conc":
            if isinstance(env[k].z, (tuple, list)) and str(contract.args.get(k, "")).startswith("list"):
                env[k] = ex.alloc_list(st, [lift_conc(ctx, mk_conc(x), e) for x in env[k].z], e)
            else:
                env[k] = lift_conc(ctx, env[k], e)
    old = st.fork()
    old.env = dict(env)
    old.defd = {k: z3.BoolVal(True) for k in env}
    fr = contract_frame(contract, old, contract.sidecar_globals)
    ctx.frames.append(fr)
    try:
        # 1. precondition
        for (txt, node) in contract.requires:
            z = ex.ev_spec(old, node)
            ctx.oblige(st, z, "pre", e, "precondition of %s: %s" % (contract.short, txt))
        # 2. exceptional outcomes (entry-state conditions)
        from .api import is_exact

        raise_conds = []
        exact_conds = []
        for (clsname, cls, cond) in contract.raises:
            if clsname.startswith("@"):
                pv = env.get(clsname[1:])
                if pv is None or pv.k != "conc" or not isinstance(pv.z, type):
                    raise Unsupported("exception class parameter %s is not a constant class" % clsname, e)
                cls = pv.z
            if cond is not None:
                cz = ex.ev_spec(old, cond[1])
                if is_exact(contract, clsname):
                    exact_conds.append(cz)
                else:
                    cz = z3.And(cz, ctx.fresh("may_raise_" + clsname, B))
            else:
                cz = ctx.fresh("may_raise_" + clsname, B)
            raise_conds.append((cls, cz))
        # 3. havoc
        mods = eval_modifies(ex, st, contract, env, with_cond=True)
        post = st.fork()
        for (refz, field, cond) in mods:
            arr = ctx.field_array(post, field, None)
            if refz is None:
                post.heap[field] = ctx.fresh("Hc_" + field, arr.sort())
                continue
            fv = ctx.fresh("cv_" + field, arr.sort().range())
            if cond is not None:
                fv = z3.If(cond, fv, arr[refz])
            ctx.set_field_array(post, field, z3.Store(arr, refz, fv))
        # exceptional paths: heap havocked, nothing known
        for (cls, cz) in raise_conds:
            est = post.fork(cz)
            ex.deliver_raise(est, cls, e)
        if raise_conds:
            post.pc.append(z3.Not(z3.Or(*[c for _, c in raise_conds])))
        # (for exact classes the normal path additionally knows the condition was false - implied by the above)
        # 4. result + postconditions
        res = fresh_of_type(ex, contract.result, "res_" + contract.short) if contract.result else NONE
        penv = dict(env)
        penv["result"] = res
        tmp = post.fork()
        tmp.env = penv
        tmp.defd = {k: z3.BoolVal(True) for k in penv}
        ctx.assuming_post = True
        try:
            for (txt, node) in contract.ensures:
                z = ex.ev_spec(tmp, node)
                ctx.assume(post, z)
            for ((txt, node), why) in contract.assumed_ensures:
                z = ex.ev_spec(tmp, node)
                ctx.assume(post, z)
                note = "ASSUMED postcondition of %s (not verified against its body): %s -- %s" % (contract.short, txt, why)
                if note not in ctx.notes:
                    ctx.notes.append(note)
        finally:
            ctx.assuming_post = False
    finally:
        ctx.frames.pop()
    st.heap = post.heap
    st.pc = post.pc
    return res


def lemma_call(ex, st, lem, args, e):
    ctx = ex.ctx
    env = {}
    for (pn, ann), a in zip(lem.params, args):
        env[pn] = lift_conc(ctx, a, e) if a.k == "conc" else a
    if len(args) != len(lem.params):
        raise Unsupported("lemma %s arity" % lem.name, e)
    tmp = st.fork()
    tmp.env = dict(env)
    tmp.defd = {k: z3.BoolVal(True) for k in env}
    fr = Frame("lemma-call:" + lem.name, lem.modname)
    fr.locals_assigned = set()
    fr.sidecar_globals = lem.sidecar_globals
    fr.loop_ordinals = {}
    fr.invariants = {}
    fr.old_state = None
    ctx.frames.append(fr)
    try:
        for r in lem.requires:
            ctx.oblige(st, ex.ev_spec(tmp, r), "lemma-pre", e, "requires of lemma %s: %s" % (lem.name, ast.unparse(r)), force=True)
        if ctx.current_lemma is lem:
            # recursive use = induction hypothesis: the measure must decrease and stay >= 0
            if lem.decreases is None:
                raise Unsupported("recursive lemma %s without decreases()" % lem.name, e)
            m_new = as_int(ctx, tmp, ex.ev(tmp, lem.decreases), e)
            ctx.oblige(st, z3.And(m_new >= 0, m_new < ctx.current_measure), "decreases", e, "measure of %s decreases" % lem.name, force=True)
        else:
            ctx.lemma_deps.add(lem.name)
        for q in lem.ensures:
            ctx.assume(st, ex.ev_spec(tmp, q))
    finally:
        ctx.frames.pop()
    return NONE


# ---------------------------------------------------------------------------
# effects of a call inside a loop body (for havoc)


def callee_effects(ex, st, call, assigned, stable_ref):
    """Over-approximate [(ref z3 or None, field)] a call may modify; used for loop havoc only."""
    ctx = ex.ctx
    reg = ex.reg
    fr = ctx.frames[-1]
    f = call.func
    target_fq = None
    recv = None
    if isinstance(f, ast.Name):
        if f.id in st.env or f.id in ("range", "len", "abs", "min", "max", "int", "bool", "sum"):
            return []
        try:
            obj = frontend.resolve_name(fr.modname, f.id)
        except KeyError:
            return []
        if isinstance(obj, types.FunctionType):
            target_fq = frontend.fq_of(obj)
    elif isinstance(f, ast.Attribute):
        recv = stable_ref(f.value)
        if recv is not None and recv.k == "conc":
            obj = getattr(recv.z, f.attr, None)
            if isinstance(obj, types.FunctionType):
                target_fq = frontend.fq_of(obj)
            recv = None
        elif recv is not None and recv.k == "ref":
            kind = recv.x or ""
            if kind.startswith("obj:"):
                target_fq = reg.classes.get(kind[4:], "?") + "." + f.attr
            else:
                eff = reg.builtin_method_effects.get((kind, f.attr))
                if eff is None:
                    eff = reg.builtin_method_effects.get((kind.split(":")[0], f.attr))
                if eff is None:
                    return []
                return [(recv.z, fld) for fld in eff]
        else:
            # unknown receiver: be conservative for known mutators
            if f.attr in ("append", "pop", "extend", "insert"):
                return [(None, "len"), (None, "elem")]
            return []
    if target_fq is None:
        return []
    out = []
    if target_fq in reg.contracts and target_fq != ctx.verifying_fq_transparent:
        c = reg.contracts[target_fq]
        fsrc = frontend.get_function(target_fq)
        pnames = [p for p, _ in fsrc.params()]
        argexprs = list(call.args)
        if recv is not None:
            argmap = {pnames[0]: recv}
            rest = pnames[1:]
        else:
            argmap = {}
            rest = pnames
        for pn, a in zip(rest, argexprs):
            argmap[pn] = stable_ref(a)
        for k in call.keywords:
            argmap[k.arg] = stable_ref(k.value)
        env = {k: v for k, v in argmap.items() if v is not None}
        try:
            for (refz, field, cond) in eval_modifies(ex, st, c, env, with_cond=True):
                out.append((refz, field, cond))
        except Unsupported:
            # could not resolve the target object: havoc the whole field
            for (txt, node) in c.modifies:
                if isinstance(node, ast.IfExp):
                    node = node.body
                if isinstance(node, ast.Subscript):
                    key = node.slice.value
                    out.append((None, "has_" + key))
                    out.extend((None, fl) for fl in ex.field_arrays_of(key))
                elif isinstance(node, ast.Attribute):
                    out.extend((None, fl) for fl in ex.field_arrays_of(node.attr))
                elif isinstance(node, ast.Call) and getattr(node.func, "id", "") in ("gcontent", "all_grids"):
                    out.append((None, "g_val"))
                elif isinstance(node, ast.Call) and getattr(node.func, "id", "") == "lomap":
                    out.extend([(None, "lo_row"), (None, "lo_has"), (None, "lo_val")])
                else:
                    out.append((None, "elem"))
                    out.append((None, "len"))
        return out
    if target_fq in reg.transparent:
        fsrc = frontend.get_function(target_fq)
        # conservative: every syntactic store in the callee, whole-field
        class V(ast.NodeVisitor):
            def visit_Subscript(v, n):
                if isinstance(n.ctx, (ast.Store, ast.Del)):
                    if isinstance(n.slice, ast.Constant) and isinstance(n.slice.value, str):
                        out.append((None, "has_" + n.slice.value))
                        out.extend((None, fl) for fl in ex.field_arrays_of(n.slice.value))
                    else:
                        out.append((None, "elem"))
                v.generic_visit(n)

            def visit_Attribute(v, n):
                if isinstance(n.ctx, ast.Store):
                    out.extend((None, fl) for fl in ex.field_arrays_of(n.attr))
                v.generic_visit(n)

            def visit_Call(v, n):
                out.extend(callee_effects(ex, st, n, assigned | {"*"}, lambda x: None))
                v.generic_visit(n)

        V().visit(fsrc.node)
        return out
    return []
