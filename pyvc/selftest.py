"""`verif selftest [--only <seed-id>]`: mutation self-test of the checks.  Every seeded change kept under /verif/seeded (a change to
bbc/vc2_conformance that breaks a property while the project's own tests still pass) is applied to a scratch worktree of /repo and
the quick check of its property is run against it (tools/sweep_seeds.py); each must be reported as a VIOLATION.  Exit 0 iff all are."""
import os
import subprocess
import sys

VERIF = os.path.dirname(os.path.dirname(os.path.abspath(__file__)))


def main(only=None):
    cmd = [sys.executable, os.path.join(VERIF, "tools", "sweep_seeds.py")] + ([only] if only else [])
    r = subprocess.run(cmd, cwd=VERIF, capture_output=True, text=True)
    sys.stdout.write(r.stdout)
    sys.stderr.write(r.stderr)
    rows = [l for l in r.stdout.split("\n") if l and not l.startswith(" ")]
    missed = [l for l in rows if "CAUGHT" not in l and "no check registered" not in l]
    print("selftest: %d seeded changes, %d not caught" % (len(rows), len(missed)))
    return 1 if missed else 0
