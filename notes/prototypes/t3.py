import z3, time
def prove(name, f, timeout=20000, hyps=()):
    s=z3.Solver(); s.set("timeout",timeout); 
    for h in hyps: s.add(h)
    s.add(z3.Not(f))
    t=time.time(); r=s.check(); print(name, "PROVED" if r==z3.unsat else r, "%.2fs"%(time.time()-t))
    if r==z3.sat: print(s.model())
P,Q,m,w,S=z3.Ints('P Q m w S')
pw = S*((w+S-1)/S)
prove("div-exact", z3.Implies(z3.And(P>=1,Q>=1,S==P*Q,w>=0), (pw/P)*P==pw))
prove("pad-ge", z3.Implies(z3.And(S>=1,w>=0), z3.And(pw>=w, pw-w<S)))
prove("div-exact2", z3.Implies(z3.And(P>=1,Q>=1,S==P*Q,w>=0), (pw/P)==Q*((w+S-1)/S)))
