import z3, time
z3.set_param("smt.mbqi", False)  # rely on e-matching
I=z3.IntSort(); Arr=z3.ArraySort(I,I)
def check(name, hyps, goal, timeout=30000):
    s=z3.Solver(); s.set("timeout",timeout)
    for h in hyps: s.add(h)
    s.add(z3.Not(goal)); t=time.time(); r=s.check()
    print(name, "PROVED" if r==z3.unsat else r, "%.2fs"%(time.time()-t))
N,L,D,S=z3.Ints('N L D S'); taps=z3.Const('taps',Arr)
ss=z3.Function('ss',Arr,I,I,I)      # ss(A,n,k)
agree=z3.Function('agree',Arr,Arr,z3.BoolSort())
A,B=z3.Consts('A B',Arr); n,k,j=z3.Ints('n k j')
def clampodd(p): 
    p1=z3.If(p<N-1,p,N-1); return z3.If(p1>1,p1,1)
def pos(n,i): return clampodd(2*(n+i)-1)
ax=[ z3.ForAll([A,n], ss(A,n,0)==0),
     z3.ForAll([A,n,k], z3.Implies(k>=0, ss(A,n,k+1)==ss(A,n,k)+taps[k]*A[pos(n,k+D)]), patterns=[ss(A,n,k+1)]),
     z3.ForAll([A,B], agree(A,B)==z3.ForAll([j], z3.Implies(z3.And(1<=j,j<N,j%2==1), A[j]==B[j]), patterns=[A[j]])),
   ]
pre=[N>=2, N%2==0, L>=0, S>=0]
# frame lemma by induction: step VC
A1,B1=z3.Consts('A1 B1',Arr); n1,k1=z3.Ints('n1 k1')
check("frame-base", ax+pre, z3.Implies(agree(A1,B1), ss(A1,n1,0)==ss(B1,n1,0)))
p=pos(n1,k1+D)
# help: p is odd and in range
check("pos-odd", pre, z3.And(p%2==1, p>=1, p<=N-1))
check("frame-step", ax+pre+[agree(A1,B1), k1>=0, ss(A1,n1,k1)==ss(B1,n1,k1)], ss(A1,n1,k1+1)==ss(B1,n1,k1+1))
