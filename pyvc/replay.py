"""verif replay <file>: re-runs a recorded counterexample on the real code of the tree under check.
Exit 0 = the failure reproduces (prints what fails), 1 = it does not reproduce, 3 = replay file not understood."""
import importlib
import json
import random
import sys

from . import api, frontend, native, nativefn


def main(path):
    d = json.load(open(path))
    pid = d.get("property")
    frontend.ensure_repo_on_path()
    import props

    P = props.PROPS.get(pid, {})
    for m in P.get("modules", []):
        importlib.import_module("contracts." + m)
    unit = d.get("unit") or (d.get("obligation") or "").split("#")[0]
    nat = d.get("native") or {}
    inputs = nat.get("inputs") or d.get("inputs")
    if "/lemma:" in unit:
        lem = api.REG.lemmas[unit.split("lemma:")[1]]
        raw = d.get("inputs") or {}
        args = [raw[p] for (p, _) in lem.params]
        f = native.run_lemma(lem, args)
        print("replay %s(%s): %s" % (lem.name, args, f.as_dict() if f else "holds"))
        return 0 if f else 1
    if "/fn:" in unit:
        fq = unit.split("fn:")[1].split("[")[0]
        c = api.REG.contracts[fq]
        if isinstance(inputs, dict) and "__driver_input__" in inputs:
            stream = bytes.fromhex(inputs["__driver_input__"]["stream_hex"])
            from vc2_conformance.pseudocode.state import State
            from vc2_conformance.decoder import io as dio
            from vc2_conformance import decoder
            import io

            def driver(rng):
                st = State()
                dio.init_io(st, io.BytesIO(stream))
                try:
                    decoder.parse_stream(st)
                except decoder.ConformanceError:
                    pass
                return {"stream_hex": stream.hex()}

            r = nativefn.monitor_contract(c, driver, 0, seconds=30, budget=1)
            print("replay: validator on the recorded %d-byte stream with the contract of %s monitored: %s" % (
                len(stream), c.short, r["fail"].as_dict() if r["fail"] else "holds"))
            return 0 if r["fail"] else 1
        raw = d.get("inputs")
        if isinstance(raw, dict):
            f = nativefn.run_contract(c, raw)
            print("replay %s: %s" % (c.short, f.as_dict() if f else "holds / precondition not met"))
            return 0 if f else 1
    if d.get("inputs") is not None and d.get("what"):
        print("replay of a bounded-check case: re-run `./verif check %s`; recorded case: %s" % (pid, json.dumps(d.get("inputs"))[:500]))
        return 3
    print("replay file not understood")
    return 3
