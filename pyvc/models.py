"""Trusted library models: binary file objects, lists/bytearrays, dict methods.

Each model is listed in the evidence as an assumption.  File model (a seekable
binary file such as io.BytesIO): a file is a byte sequence `content` of length
`len`, plus a position `fpos`.  read(1) returns the byte at fpos and advances,
or an empty bytes object at/after the end; tell() returns fpos; seek(n) sets
it (n >= 0); seek(d, 1) moves it relatively; write(b) of a single byte stores
it at fpos, advances and extends the length to cover it; flush() does nothing.
Bytes are integers in 0..255.  Bytes skipped by seeking beyond the end are left
unspecified by the model (real files zero-fill them); no contract refers to them.
"""
import z3

from .api import REG
from .symexec import AIA, AIB, AII, NONE, SV, Unsupported, as_int, mk_bool, mk_int, mk_ref, truth

MODEL_NOTES = {}


def model(kind, name, effects=(), note=None):
    def deco(fn):
        REG.builtin_methods[(kind, name)] = fn
        REG.builtin_method_effects[(kind, name)] = list(effects)
        return fn

    return deco


def _len(ctx, st, r):
    return ctx.field_array(st, "len", AII)[r]


def _elem(ctx, st, r):
    return ctx.field_array(st, "elem", AIA)[r]


def _get(ctx, st, field, r):
    return ctx.field_array(st, field)[r]


def _set(ctx, st, field, r, v):
    arr = ctx.field_array(st, field)
    ctx.set_field_array(st, field, z3.Store(arr, r, v))


# ---- file -------------------------------------------------------------------


@model("file", "read", effects=["val_fpos"])
def file_read(ex, st, recv, args, kwargs, e):
    ctx = ex.ctx
    n = z3.simplify(as_int(ctx, st, args[0], e))
    if not (z3.is_int_value(n) and n.as_long() == 1):
        raise Unsupported("file.read(n) only modelled for n == 1", e)
    f = recv.z
    pos = _get(ctx, st, "val_fpos", f)
    ln = _len(ctx, st, f)
    b = ex.alloc_ref(st, "bytes")
    avail = z3.And(pos >= 0, pos < ln)
    byte = _elem(ctx, st, f)[pos]
    ctx.assume(st, z3.Implies(avail, z3.And(byte >= 0, byte <= 255)))
    lenarr = ctx.field_array(st, "len", AII)
    ctx.set_field_array(st, "len", z3.Store(lenarr, b, z3.If(avail, z3.IntVal(1), z3.IntVal(0))))
    el = ctx.field_array(st, "elem", AIA)
    ctx.set_field_array(st, "elem", z3.Store(el, b, z3.Store(el[b], 0, byte)))
    _set(ctx, st, "val_fpos", f, z3.If(avail, pos + 1, pos))
    return mk_ref(b, "list:int")


@model("file", "tell")
def file_tell(ex, st, recv, args, kwargs, e):
    return mk_int(_get(ex.ctx, st, "val_fpos", recv.z))


@model("file", "seek", effects=["val_fpos"])
def file_seek(ex, st, recv, args, kwargs, e):
    ctx = ex.ctx
    off = as_int(ctx, st, args[0], e)
    whence = z3.simplify(as_int(ctx, st, args[1], e)) if len(args) > 1 else z3.IntVal(0)
    if not z3.is_int_value(whence) or whence.as_long() not in (0, 1):
        raise Unsupported("file.seek whence", e)
    pos = _get(ctx, st, "val_fpos", recv.z)
    new = off if whence.as_long() == 0 else pos + off
    ctx.oblige(st, new >= 0, "seek-nonneg", e, "file.seek target is non-negative (else ValueError/OSError)")
    _set(ctx, st, "val_fpos", recv.z, new)
    return mk_int(new)


@model("file", "write", effects=["val_fpos", "len", "elem"])
def file_write(ex, st, recv, args, kwargs, e):
    ctx = ex.ctx
    b = args[0]
    if b.k != "ref":
        raise Unsupported("file.write of %s" % b.k, e)
    ctx.oblige(st, _len(ctx, st, b.z) == 1, "model-limit", e, "file.write is modelled for a single byte only")
    byte = _elem(ctx, st, b.z)[0]
    f = recv.z
    pos = _get(ctx, st, "val_fpos", f)
    ln = _len(ctx, st, f)
    ctx.oblige(st, z3.And(byte >= 0, byte <= 255), "byte-range", e, "byte written is in range(256) (else ValueError)")
    el = ctx.field_array(st, "elem", AIA)
    ctx.set_field_array(st, "elem", z3.Store(el, f, z3.Store(el[f], pos, byte)))
    lenarr = ctx.field_array(st, "len", AII)
    ctx.set_field_array(st, "len", z3.Store(lenarr, f, z3.If(pos + 1 > ln, pos + 1, ln)))
    _set(ctx, st, "val_fpos", f, pos + 1)
    return mk_int(1)


@model("file", "flush")
def file_flush(ex, st, recv, args, kwargs, e):
    return NONE


# ---- list / bytearray ----------------------------------------------------------


@model("list", "append", effects=["len", "elem"])
def list_append(ex, st, recv, args, kwargs, e):
    ctx = ex.ctx
    r = recv.z
    ln = _len(ctx, st, r)
    v = args[0]
    if v.k == "ref":
        z = v.z
    elif v.k == "optint":
        # bytearray.append(None) raises TypeError
        ctx.oblige(st, z3.Not(v.z[0]), "not-none", e, "appended value is not None")
        z = v.z[1]
    else:
        z = as_int(ctx, st, v, e)
    el = ctx.field_array(st, "elem", AIA)
    ctx.set_field_array(st, "elem", z3.Store(el, r, z3.Store(el[r], ln, z)))
    lenarr = ctx.field_array(st, "len", AII)
    ctx.set_field_array(st, "len", z3.Store(lenarr, r, ln + 1))
    return NONE


REG.builtin_methods[("bytearray", "append")] = list_append
REG.builtin_method_effects[("bytearray", "append")] = ["len", "elem"]


# ---- dict -----------------------------------------------------------------------


@model("dict", "get")
def dict_get(ex, st, recv, args, kwargs, e):
    ctx = ex.ctx
    key = args[0]
    if key.k != "str" or key.x is None:
        raise Unsupported("dict.get with symbolic key", e)
    has = ctx.field_array(st, "has_" + key.x, AIB)[recv.z]
    val = ex.load_field(st, recv, key.x, e)
    default = args[1] if len(args) > 1 else NONE
    from .symexec import sv_ite

    return sv_ite(ctx, has, val, default)
