"""Verification units: a sidecar lemma, or a real function against its contract."""
import ast

import z3

from . import frontend
from .calls import contract_frame, eval_modifies, fresh_of_type
from .stmts import Runner, assigned_names
from .symexec import AIB, Ctx, Frame, NONE, St, Unsupported, as_int, mk_bool, mk_int, truth


class UnitResult(object):
    def __init__(self, unit_id, kind):
        self.unit = unit_id
        self.kind = kind
        self.obls = []
        self.error = None  # Unsupported message (unit outside subset)
        self.notes = []
        self.used_lemmas = set()
        self.lemma_deps = set()
        self.src = None
        self.params = []  # [(name, SV)] symbolic inputs, for counterexample decoding
        self.ctx = None
        self.returns = 0
        self.raises = []


def _new_frame(unit, modname, body, env, loops, invariants, sidecar_globals, cls=None):
    fr = Frame(unit, modname, cls)
    fr.locals_assigned = assigned_names(body) | set(env)
    fr.sidecar_globals = sidecar_globals
    fr.loop_ordinals = loops
    fr.invariants = invariants
    fr.old_state = None
    return fr


def verify_lemma(reg, lem, prefix=""):
    uid = prefix + "lemma:" + lem.name
    res = UnitResult(uid, "lemma")
    ctx = Ctx(reg, uid)
    res.ctx = ctx
    ex = Runner(ctx)
    st = St(ctx)
    try:
        for (pn, ann) in lem.params:
            v = fresh_of_type(ex, ann, pn)
            st.env[pn] = v
            st.defd[pn] = z3.BoolVal(True)
            res.params.append((pn, v))
            if v.k == "ref":
                ctx.param_refs.append(v.z)
                ctx.facts.append(v.z > 0)
        invs = {}
        # loop invariants inside lemma bodies: `invariant(...)` calls at the head of the loop body
        fr = _new_frame(uid, lem.modname, lem.body, st.env, lem.loops, invs, lem.sidecar_globals)
        ctx.frames.append(fr)
        for r in lem.requires:
            ctx.assume(st, ex.ev_spec(st, r))
        ctx.current_lemma = lem
        if lem.decreases is not None:
            ctx.current_measure = as_int(ctx, st, ex.ev(st, lem.decreases))
            ctx.oblige(st, ctx.current_measure >= 0, "decreases", lem.decreases, "measure is non-negative under requires")
        entry = st.fork()
        ex.run_block(st, lem.body)
        outs = [s for (s, v) in fr.returns]
        if not st.dead:
            outs.append(st)
        res.returns = len(outs)
        for o in outs:
            # ensures are over parameters only: evaluate in the entry environment, exit facts
            tmp = o.fork()
            tmp.env = dict(entry.env)
            tmp.defd = dict(entry.defd)
            for q in lem.ensures:
                ctx.oblige(o, ex.ev_spec(tmp, q), "ensures", q, ast.unparse(q))
        for (est, cls, node) in ctx.exc_stack[0]:
            ctx.oblige(est, z3.BoolVal(False), "no-raise", node, "lemma body raises %s" % cls.__name__)
    except Unsupported as u:
        res.error = "%s (line %s)" % (u, getattr(u.node, "lineno", "?"))
    res.obls = ctx.obls
    res.notes = ctx.notes
    res.used_lemmas = ctx.used_lemmas
    res.lemma_deps = ctx.lemma_deps
    return res


def verify_function_cases(reg, contract, prefix=""):
    """A contract may ask for one verification per value of finite-domain string parameters (split_on):
    the union of the cases is the whole domain, which the contract's requires must imply (checked at call sites
    by the key-domain obligations)."""
    import itertools

    if getattr(contract, "arg_cases", None):
        return [verify_function(reg, contract, prefix, {"__case__": i}) for i in range(len(contract.arg_cases))]
    if not contract.split_on:
        return [verify_function(reg, contract, prefix)]
    doms = [contract.str_domains[p] for p in contract.split_on]
    out = []
    for combo in itertools.product(*doms):
        fixed = dict(zip(contract.split_on, combo))
        out.append(verify_function(reg, contract, prefix, fixed))
    return out


def _refs_of(v):
    if v.k == "ref":
        yield v
    elif v.k == "tuple":
        for x in v.z:
            for r in _refs_of(x):
                yield r


def verify_function(reg, contract, prefix="", fixed=None):
    """The real function body against its contract."""
    uid = prefix + "fn:" + contract.fq + ("".join("[%s=%s]" % kv for kv in sorted((fixed or {}).items())))
    argtypes = dict(contract.args)
    if fixed and "__case__" in fixed:
        argtypes.update(contract.arg_cases[fixed["__case__"]])
        fixed = {k: v for k, v in fixed.items() if k != "__case__"}
    res = UnitResult(uid, "function")
    ctx = Ctx(reg, uid)
    res.ctx = ctx
    ex = Runner(ctx)
    st = St(ctx)
    try:
        fsrc = frontend.get_function(contract.fq)
        res.src = fsrc
        body = frontend.strip_docstring(fsrc.node)
        for (pn, default) in fsrc.params():
            t = argtypes.get(pn)
            if t is None:
                raise Unsupported("contract of %s gives no type for parameter %s" % (contract.fq, pn))
            from .symexec import fixed_len

            fixlen = fixed_len(t)  # "list#n:<elem>": a sequence parameter of fixed arity n
            if fixed and pn in fixed:
                from .symexec import SV

                v = SV("str", ctx.strid(fixed[pn]), fixed[pn])
            else:
                v = fresh_of_type(ex, t, pn)
            if fixlen is not None:
                from .symexec import AII

                ctx.set_field_array(st, "len", z3.Store(ctx.field_array(st, "len", AII), v.z, z3.IntVal(int(fixlen))))
            st.env[pn] = v
            st.defd[pn] = z3.BoolVal(True)
            res.params.append((pn, v))
            for rv in _refs_of(v):
                ctx.param_refs.append(rv.z)
                ctx.facts.append(rv.z > 0)
            if v.k == "str" and v.x is None and pn in contract.str_domains:
                ctx.str_domains[v.z.get_id()] = list(contract.str_domains[pn])
        for gn, gt in getattr(contract, "ghost_params", {}).items():
            gv = fresh_of_type(ex, gt, gn)
            st.env[gn] = gv
            st.defd[gn] = z3.BoolVal(True)
            for rv in _refs_of(gv):
                ctx.param_refs.append(rv.z)
                ctx.facts.append(rv.z > 0)
        if fsrc.node.args.vararg:
            from .symexec import mk_tuple

            st.env[fsrc.node.args.vararg.arg] = mk_tuple([])  # extra positional arguments only feed exception constructors
            st.defd[fsrc.node.args.vararg.arg] = z3.BoolVal(True)
        fr = _new_frame(uid, fsrc.module, body, st.env, fsrc.loops, contract.invariants, None, fsrc.cls)
        fr.contract = contract
        fr.ghost_globals = contract.sidecar_globals
        ctx.frames.append(fr)
        entry = st.fork()
        fr.old_state = entry
        # contract clauses are evaluated in a frame that sees the sidecar's names
        cfr = contract_frame(contract, entry, contract.sidecar_globals)

        def spec_eval(state, node, extra=None):
            ctx.frames.append(cfr)
            try:
                return ex.ev_spec(state, node, extra)
            finally:
                ctx.frames.pop()

        ex.spec_eval = spec_eval
        for (txt, node) in contract.requires:
            ctx.assume(st, spec_eval(st, node))
        ctx.verifying_fq_transparent = None
        ex.run_ghost(st, "entry")
        fallthrough = []
        if getattr(contract, "split_body", False):
            # path splitting: every `if` of the top-level block forks the rest of the body; postconditions are proved per path
            fallthrough = ex.run_block_split(st, list(body))
        else:
            for idx, stmt in enumerate(body):
                if st.dead:
                    break
                ex.run_block(st, [stmt])
                ex.run_ghost(st, "after_stmt%d" % (idx + 1))
            if not st.dead:
                fallthrough = [st]
        outs = list(fr.returns)
        for o in fallthrough:
            outs.append((o, NONE))
        for (o, v) in outs:
            o.env["result"] = v
            o.defd["result"] = z3.BoolVal(True)
            ex.run_ghost(o, "exit")
        res.returns = len(outs)
        raise_conds = {}
        for (name, cls, cond) in contract.raises:
            if name.startswith("@"):
                cls = ctx.param_classes[name[1:]]
            raise_conds[cls] = (name, cond)
        # --- normal exits
        for (o, v) in outs:
            tmp = o.fork()
            tmp.env = dict(entry.env)
            tmp.defd = dict(entry.defd)
            if contract.result:
                rv = v
                tmp.env["result"] = rv
                tmp.defd["result"] = z3.BoolVal(True)
            for (txt, node) in contract.ensures:
                ctx.oblige(o, spec_eval(tmp, node), "post", fsrc.node, "ensures " + txt)
            if contract.raises_exact:
                from .api import is_exact

                for cls, (name, cond) in raise_conds.items():
                    if cond is not None and is_exact(contract, name):
                        ctx.oblige(o, z3.Not(spec_eval(entry_with_pc(entry, o), cond[1])), "raises-iff", fsrc.node,
                                   "returns normally only when not (%s)" % cond[0])
            check_frame(ex, ctx, contract, entry, o, fsrc)
        # --- exceptional exits
        allowed = tuple(raise_conds)
        for (est, cls, node) in ctx.exc_stack[0]:
            res.raises.append(getattr(cls, "__name__", str(cls)))
            match = None
            for a in allowed:
                if isinstance(a, ParamExc) or isinstance(cls, ParamExc):
                    if isinstance(a, ParamExc) and isinstance(cls, ParamExc) and a.name == cls.name:
                        match = a
                        break
                    continue
                if issubclass(cls, a):
                    match = a
                    break
            if match is None:
                ctx.oblige(est, z3.BoolVal(False), "raises-only", node, "raises %s which is not permitted by the contract" % cls.__name__)
                continue
            name, cond = raise_conds[match]
            if cond is not None:
                ctx.oblige(est, spec_eval(entry_with_pc(entry, est), cond[1]), "raises-when", node, "raises %s only when %s" % (name, cond[0]))
    except Unsupported as u:
        res.error = "%s (line %s)" % (u, getattr(u.node, "lineno", "?"))
    res.obls = ctx.obls
    res.notes = ctx.notes
    res.used_lemmas = ctx.used_lemmas
    res.lemma_deps = ctx.lemma_deps
    return res


class ParamExc(object):
    """The exception class passed in as a parameter (generic assert_* helpers)."""

    def __init__(self, name):
        self.name = name
        self.__name__ = "@" + name

    def __hash__(self):
        return hash(self.name)

    def __eq__(self, o):
        return isinstance(o, ParamExc) and o.name == self.name


def entry_with_pc(entry, o):
    t = entry.fork()
    t.pc = list(o.pc)
    return t


def check_frame(ex, ctx, contract, entry, o, fsrc):
    """Nothing outside `modifies` changed."""
    env = dict(entry.env)
    ctx.frames.append(contract_frame(contract, entry, contract.sidecar_globals))
    try:
        mods = eval_modifies(ex, entry, contract, env, with_cond=True)
    finally:
        ctx.frames.pop()
    by_field = {}
    for (refz, field, cond) in mods:
        by_field.setdefault(field, []).append((refz, cond))
    for f, arr in o.heap.items():
        a0 = entry.heap.get(f)
        if a0 is None:
            a0 = ctx.field_sorts[f][1]
        if arr.eq(a0):
            continue
        allowed = by_field.get(f, [])
        # objects allocated during the call (negative references) are not part of the caller's frame
        x = ctx.fresh("frame_x")
        if any(r is None for (r, c) in allowed):
            continue  # the whole field may change
        conds = [x > 0] + [(x != r) if c is None else z3.Or(x != r, z3.Not(c)) for (r, c) in allowed]
        ctx.oblige(o, z3.Implies(z3.And(*conds), arr[x] == a0[x]), "frame", fsrc.node,
                   "heap array %s changes only where the contract's modifies allows" % f)
