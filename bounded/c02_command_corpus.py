"""C02, first sentence, bounded complement: the corpus of bounded/c25_validator_cmd.py (conformant streams of the encoder and the
test-case generators, every strict prefix, parse-info bit flips, field-aware and random mutations, garbage) is also judged by C02's
own clause - the decoder library itself must end with acceptance or a ConformanceError, never with another exception.  Only the
problems that module attributes to the decoder library ('decoder-crash') are taken over; what concerns the command line tool (exit
statuses, files, messages) belongs to C25 and is ignored here.  Streams that declare astronomically large header values (the
OverflowError family recorded as a known finding of C25) are outside C02's resource bound and are counted, not reported."""


class _Proxy(object):
    def __init__(self, rep):
        object.__setattr__(self, "_rep", rep)
        object.__setattr__(self, "outside_bound", 0)
        object.__setattr__(self, "taken", 0)

    def __getattr__(self, name):
        return getattr(self._rep, name)

    def __setattr__(self, name, value):
        setattr(self._rep, name, value)

    def violation(self, name, payload, replayed=True):
        what = str(payload.get("what", ""))
        if "decoder library raised an internal exception" not in what:
            return False  # a matter of the command line tool: C25, not C02
        if payload.get("known_key") == "C25-decoder-OverflowError-on-huge-header-value":
            object.__setattr__(self, "outside_bound", self.outside_bound + 1)
            return False
        object.__setattr__(self, "taken", self.taken + 1)
        p = dict(payload)
        p.pop("known_key", None)
        p["what"] = "C02: the validator failed with an exception that is not a ConformanceError on this byte string (" + what + ")"
        return self._rep.violation("decoder-crash-%d" % self.taken, p, replayed)

    def add_bounded(self, name, domain, evaluations, exhaustive, **kw):
        if name.startswith(("C25 F", "C25.F", "F")) or " F" in name[:12] or "never" in name.lower():
            self._rep.add_bounded("C02 via the C25 corpus: " + name, domain, evaluations, exhaustive, **kw)

    def add_eval_fact(self, *a, **kw):
        pass


def check(rep, tier, seed):
    from bounded import c25_validator_cmd as m

    proxy = _Proxy(rep)
    before = len(rep.bounded)
    for hook in m.REGISTER["C25"]["extra"]:
        hook(proxy, tier, seed)
    if len(rep.bounded) == before:
        rep.add_bounded("C02 via the C25 corpus: decoder library ends with acceptance or a ConformanceError", "the corpus of bounded/c25_validator_cmd.py (see the C25 evidence for its size)",
                        int(rep.extra_coverage.get("c25_executions", {}).get("in_process", 0)), False)
    rep.extra_coverage["c02_corpus_streams_outside_resource_bound"] = proxy.outside_bound


REGISTER = {"C02": dict(extra=[check], assumptions=[
    "BOUNDED complement of the first sentence: every stream of the C25 corpus (bounded/c25_validator_cmd.py) is also required to end with acceptance or a "
    "ConformanceError inside the decoder library; streams declaring astronomically large header values (OverflowError from 1 << n) are outside the property's "
    "resource bound and only counted",
])}
