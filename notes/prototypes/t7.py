import z3, time
def prove(name, f, hyps=(), timeout=30000):
    s=z3.Solver(); s.set("timeout",timeout)
    for h in hyps: s.add(h)
    s.add(z3.Not(f)); t=time.time(); r=s.check(); print(name, "PROVED" if r==z3.unsat else r, "%.2fs"%(time.time()-t))
    if r==z3.sat: print("   model:", s.model())
def ceil(a,b): return (a+b-1)/b
pb,n,smin,k=z3.Ints('pb n smin k')
# get_safe_lossy_hq_slice_size_scaler
max_slice_bytes=ceil(pb,n); mlf=max_slice_bytes-4
s0=(mlf+254)/255
sc=z3.If(s0>1,s0,1)
s=z3.If(sc>smin,sc,smin)
N=pb-4*n; D=n*s
tl=((k+1)*N)/D-(k*N)/D
prove("hq-len<=255", z3.Implies(z3.And(n>=1,pb>=4*n,smin>=1,k>=0,k<n), z3.And(tl>=0,tl<=255)))
# total: 4n + s*floor(N/s) in (pb-s, pb]
tot=4*n+s*((n*N)/D)
prove("hq-total", z3.Implies(z3.And(n>=1,pb>=4*n,smin>=1), z3.And(tot<=pb, tot>pb-s)))
