"""C15 - every generated sequence header encodes exactly the requested video format (bounded stand-in, never "proved").

Contract, written from the property statement.  Precondition: cf is a valid codec configuration (a CodecFeatures
dictionary as the CSV reader builds it: known level / profile / picture coding mode, positive sizes and ratios, clean
area inside the frame, frame size divisible by the colour subsampling and field factors).  Postcondition, by clause:

  (G) generation     iter_sequence_headers(cf) raises nothing; make_sequence_header_data_unit(cf) is a sequence-header
                     data unit whose header equals the FIRST generated header, or - exactly when nothing is generated -
                     raises the documented IncompatibleLevelAndVideoFormatError.  Something IS generated whenever the
                     configured level admits the format: always at level 0; at a real level when the independent
                     admission oracle below finds a level-table row, a base format and one encoding per parameter group
                     that the row allows (the oracle is written from the bitstream syntax of (11.4), not from the encoder).
  (A) acceptance     every generated header, given the major version the encoder's own auto-fill chooses (or, where the
                     level table prescribes the version - levels 64/65 -, the smallest prescribed version that (11.2.2)
                     allows), serialised with the real serialiser and read by the real validator's sequence_header()
                     with LEVEL_CONSTRAINTS as shipped, raises no ConformanceError (nor anything else); and the
                     validator's level bookkeeping then still accepts the rest of the configuration (wavelet, depth,
                     slice counts, slice sizes), i.e. the header did not commit the stream to a level-table row the
                     configuration cannot follow.
  (D) exact decode   the video_parameters the validator returns equal cf['video_parameters'] (all 20 entries), and the
                     validator's state holds the configured picture_coding_mode, level and profile.
  (R) reference      an independent decoder of (11.1)-(11.5) written here from the standard's pseudocode (own exp-Golomb
                     bit reader, base formats and presets from the vc2_data_tables package) reads the same bytes to
                     the configured parameters, picture coding mode, level and profile, and consumes the whole header
                     (this clause notices a change that encoder and validator share, e.g. in set_source_defaults / preset_*).

Domain (all of it executed on the real code; counts are measured and reported):
  level 0 : every base video format (23) x both picture coding modes x both profiles with its own defaults, plus every
            single-group perturbation of it: frame sizes (grown, shrunk with the clean area, tiny, huge, another base
            format's size), every colour-difference format, scan format, top_field_first flipped, every preset frame
            rate + custom rates (incl. > 32 bit), every preset pixel aspect ratio + custom, clean areas (smaller, offset,
            1x1 in the corner), every preset signal range + custom (offset 0, excursion 1, 16 bit), every preset colour
            specification, every single primaries / matrix / transfer-function value; seeded multi-group combinations.
  levels  : every row of the shipped LEVEL_CONSTRAINTS with level != 0 x every base format and picture coding mode
            the row names x every profile it allows: a configuration synthesised from the row (forced custom flags
            get values from the row's own sets; wavelet, depth, slices, slice bytes from the row), the same with
            each forced group left at the base format's value, plus all the perturbations above applied to it (most are not admitted: then nothing may be generated that the validator
            rejects, and the refusal must be the documented exception).
  quick: perturbed configurations alternate picture coding mode / profile, 150 seeded combinations; all generated headers
  are executed for unperturbed base formats and for real levels, for perturbed level-0 configurations all headers on the
  best-matching base format plus 3 seeded others (measured counts are reported);
  thorough: all perturbations for both modes and both profiles, 2000 seeded combinations, ALL generated headers.
"""
import collections
import copy
import io
import random
import time

VP_KEYS = ("frame_width", "frame_height", "color_diff_format_index", "source_sampling", "top_field_first", "frame_rate_numer",
           "frame_rate_denom", "pixel_aspect_ratio_numer", "pixel_aspect_ratio_denom", "clean_width", "clean_height", "left_offset",
           "top_offset", "luma_offset", "luma_excursion", "color_diff_offset", "color_diff_excursion", "color_primaries_index",
           "color_matrix_index", "transfer_function_index")

MAX_PER_CLAUSE = 3
WORKERS = 8
QUICK_OTHERS = 3


# ------------------------------------------------------------------------------------------------------------------
# Reference semantics of (11.4.2): the parameters a base video format stands for (tables from vc2_data_tables)
# ------------------------------------------------------------------------------------------------------------------
def ref_defaults(b):
    import vc2_data_tables as T

    p = T.BASE_VIDEO_FORMAT_PARAMETERS[b]
    fr = T.PRESET_FRAME_RATES[p.frame_rate_index]
    par = T.PRESET_PIXEL_ASPECT_RATIOS[p.pixel_aspect_ratio_index]
    sr = T.PRESET_SIGNAL_RANGES[p.signal_range_index]
    cs = T.PRESET_COLOR_SPECS[p.color_spec_index]
    return {
        "frame_width": int(p.frame_width), "frame_height": int(p.frame_height), "color_diff_format_index": int(p.color_diff_format_index),
        "source_sampling": int(p.source_sampling), "top_field_first": bool(p.top_field_first),
        "frame_rate_numer": int(fr.numerator), "frame_rate_denom": int(fr.denominator),
        "pixel_aspect_ratio_numer": int(par.numerator), "pixel_aspect_ratio_denom": int(par.denominator),
        "clean_width": int(p.clean_width), "clean_height": int(p.clean_height), "left_offset": int(p.left_offset), "top_offset": int(p.top_offset),
        "luma_offset": int(sr.luma_offset), "luma_excursion": int(sr.luma_excursion),
        "color_diff_offset": int(sr.color_diff_offset), "color_diff_excursion": int(sr.color_diff_excursion),
        "color_primaries_index": int(cs.color_primaries_index), "color_matrix_index": int(cs.color_matrix_index),
        "transfer_function_index": int(cs.transfer_function_index),
    }


class RefError(Exception):
    """The reference decoder cannot read the bytes (unknown index, ran off the end)."""


class _Bits(object):
    """MSB-first bit reader with the interleaved exp-Golomb code of (A.4.3)."""

    def __init__(self, data):
        self.data, self.pos = data, 0

    def bit(self):
        if self.pos >= 8 * len(self.data):
            raise RefError("ran past the end of the header")
        b = (self.data[self.pos >> 3] >> (7 - (self.pos & 7))) & 1
        self.pos += 1
        return b

    def boolean(self):
        return self.bit() == 1

    def uint(self):
        v = 1
        while self.bit() == 0:
            v = (v << 1) | self.bit()
        return v - 1


def ref_parse(data):
    """(11.1) sequence_header, (11.2.1) parse_parameters, (11.4) source_parameters, (11.5) picture coding mode."""
    import vc2_data_tables as T

    def table(tab, i, what):
        try:
            return tab[i]
        except (KeyError, ValueError):
            raise RefError("unknown %s index %r" % (what, i))

    r = _Bits(data)
    out = collections.OrderedDict()
    for k in ("major_version", "minor_version", "profile", "level"):
        out[k] = r.uint()
    b = out["base_video_format"] = r.uint()
    if b not in [int(x) for x in T.BaseVideoFormats]:
        raise RefError("unknown base video format %r" % b)
    vp = ref_defaults(b)
    if r.boolean():  # (11.4.3)
        vp["frame_width"] = r.uint()
        vp["frame_height"] = r.uint()
    if r.boolean():  # (11.4.4)
        vp["color_diff_format_index"] = r.uint()
    if r.boolean():  # (11.4.5)
        vp["source_sampling"] = r.uint()
    if r.boolean():  # (11.4.6)
        i = r.uint()
        if i == 0:
            vp["frame_rate_numer"] = r.uint()
            vp["frame_rate_denom"] = r.uint()
        else:
            p = table(T.PRESET_FRAME_RATES, i, "frame rate")
            vp["frame_rate_numer"], vp["frame_rate_denom"] = int(p.numerator), int(p.denominator)
    if r.boolean():  # (11.4.7)
        i = r.uint()
        if i == 0:
            vp["pixel_aspect_ratio_numer"] = r.uint()
            vp["pixel_aspect_ratio_denom"] = r.uint()
        else:
            p = table(T.PRESET_PIXEL_ASPECT_RATIOS, i, "pixel aspect ratio")
            vp["pixel_aspect_ratio_numer"], vp["pixel_aspect_ratio_denom"] = int(p.numerator), int(p.denominator)
    if r.boolean():  # (11.4.8)
        vp["clean_width"] = r.uint()
        vp["clean_height"] = r.uint()
        vp["left_offset"] = r.uint()
        vp["top_offset"] = r.uint()
    if r.boolean():  # (11.4.9)
        i = r.uint()
        if i == 0:
            vp["luma_offset"] = r.uint()
            vp["luma_excursion"] = r.uint()
            vp["color_diff_offset"] = r.uint()
            vp["color_diff_excursion"] = r.uint()
        else:
            p = table(T.PRESET_SIGNAL_RANGES, i, "signal range")
            vp["luma_offset"], vp["luma_excursion"] = int(p.luma_offset), int(p.luma_excursion)
            vp["color_diff_offset"], vp["color_diff_excursion"] = int(p.color_diff_offset), int(p.color_diff_excursion)
    if r.boolean():  # (11.4.10)
        i = r.uint()
        p = table(T.PRESET_COLOR_SPECS, i, "colour specification")
        vp["color_primaries_index"] = int(p.color_primaries_index)
        vp["color_matrix_index"] = int(p.color_matrix_index)
        vp["transfer_function_index"] = int(p.transfer_function_index)
        if i == 0:
            if r.boolean():
                vp["color_primaries_index"] = r.uint()
            if r.boolean():
                vp["color_matrix_index"] = r.uint()
            if r.boolean():
                vp["transfer_function_index"] = r.uint()
    out["video_parameters"] = vp
    out["picture_coding_mode"] = r.uint()
    out["bits"] = r.pos
    return out


def ref_min_version(sh):
    """(11.2.2): the smallest major version the features of this header description allow (profile and preset indices)."""
    v = 1
    if sh.get("parse_parameters", {}).get("profile") == 3:
        v = 2
    sp = sh.get("video_parameters", {})
    fr = sp.get("frame_rate", {})
    if fr.get("custom_frame_rate_flag") and fr.get("index", 0) > 11:
        v = 3
    sr = sp.get("signal_range", {})
    if sr.get("custom_signal_range_flag") and sr.get("index", 0) > 4:
        v = 3
    cs = sp.get("color_spec", {})
    if cs.get("custom_color_spec_flag"):
        if cs.get("index", 0) > 4:
            v = 3
        if cs.get("index", 0) == 0:
            for sub, flag in (("color_primaries", "custom_color_primaries_flag"), ("color_matrix", "custom_color_matrix_flag"),
                              ("transfer_function", "custom_transfer_function_flag")):
                d = cs.get(sub, {})
                if d.get(flag) and d.get("index", 0) > 3:
                    v = 3
    return v


# ------------------------------------------------------------------------------------------------------------------
# Precondition and the admission oracle
# ------------------------------------------------------------------------------------------------------------------
def format_ok(vp, pcm):
    """A clearly valid video format: what the validator's own sanity rules ((11.4.3)-(11.4.9), (11.6.2)) require."""
    hs = 2 if vp["color_diff_format_index"] in (1, 2) else 1
    vs = 2 if vp["color_diff_format_index"] == 2 else 1
    fm = 2 if pcm == 1 else 1
    return (vp["frame_width"] >= 1 and vp["frame_height"] >= 1 and vp["frame_width"] % hs == 0 and vp["frame_height"] % (vs * fm) == 0
            and vp["clean_width"] >= 1 and vp["clean_height"] >= 1
            and vp["clean_width"] + vp["left_offset"] <= vp["frame_width"] and vp["clean_height"] + vp["top_offset"] <= vp["frame_height"]
            and min(vp["frame_rate_numer"], vp["frame_rate_denom"], vp["pixel_aspect_ratio_numer"], vp["pixel_aspect_ratio_denom"]) >= 1
            and vp["luma_excursion"] >= 1 and vp["color_diff_excursion"] >= 1)


# parameter groups of (11.4): (custom flag, [video parameter == level-table key], preset table name, level-table key of the index)
SIMPLE_GROUPS = (
    ("custom_dimensions_flag", ("frame_width", "frame_height"), None, None),
    ("custom_color_diff_format_flag", ("color_diff_format_index",), None, None),
    ("custom_scan_format_flag", ("source_sampling",), None, None),
    ("custom_frame_rate_flag", ("frame_rate_numer", "frame_rate_denom"), "PRESET_FRAME_RATES", "frame_rate_index"),
    ("custom_pixel_aspect_ratio_flag", ("pixel_aspect_ratio_numer", "pixel_aspect_ratio_denom"), "PRESET_PIXEL_ASPECT_RATIOS", "pixel_aspect_ratio_index"),
    ("custom_clean_area_flag", ("clean_width", "clean_height", "left_offset", "top_offset"), None, None),
    ("custom_signal_range_flag", ("luma_offset", "luma_excursion", "color_diff_offset", "color_diff_excursion"), "PRESET_SIGNAL_RANGES", "custom_signal_range_index"),
)
COLOR_KEYS = (("color_primaries_index", "custom_color_primaries_flag"), ("color_matrix_index", "custom_color_matrix_flag"),
              ("transfer_function_index", "custom_transfer_function_flag"))


def _group_admitted(row, base, target, group):
    import vc2_data_tables as T

    flag, keys, presets, index_key = group
    if all(base[k] == target[k] for k in keys) and False in row[flag]:
        return True
    if True not in row[flag]:
        return False
    if presets is None:
        return all(target[k] in row[k] for k in keys)
    want = tuple(target[k] for k in keys)
    for i, vals in getattr(T, presets).items():
        if int(i) != 0 and tuple(int(v) for v in vals) == want and int(i) in row[index_key]:
            return True
    return 0 in row[index_key] and all(target[k] in row[k] for k in keys)


def _color_admitted(row, base, target):
    import vc2_data_tables as T

    if all(base[k] == target[k] for k, _ in COLOR_KEYS) and False in row["custom_color_spec_flag"]:
        return True
    if True not in row["custom_color_spec_flag"]:
        return False
    want = tuple(target[k] for k, _ in COLOR_KEYS)
    for i, p in T.PRESET_COLOR_SPECS.items():
        if int(i) != 0 and (int(p.color_primaries_index), int(p.color_matrix_index), int(p.transfer_function_index)) == want and int(i) in row["color_spec_index"]:
            return True
    if 0 not in row["color_spec_index"]:
        return False
    p0 = T.PRESET_COLOR_SPECS[0]
    d0 = {"color_primaries_index": int(p0.color_primaries_index), "color_matrix_index": int(p0.color_matrix_index),
          "transfer_function_index": int(p0.transfer_function_index)}
    return all((target[k] == d0[k] and False in row[f]) or (True in row[f] and target[k] in row[k]) for k, f in COLOR_KEYS)


def admitted(rows, spec, target):
    """True / False: does some header exist that the level table accepts for this configuration and that decodes to `target`?
    None: cannot tell (a row depends on slices_have_same_dimensions, which this oracle does not compute)."""
    import vc2_data_tables as T

    unknown = False
    for row in rows:
        if not (spec["level"] in row["level"] and spec["profile"] in row["profile"] and spec["pcm"] in row["picture_coding_mode"]
                and 0 in row["minor_version"] and any(v in row["major_version"] for v in (1, 2, 3))):
            continue
        if not all(v in row[k] for k, v in later_values(spec) if k != "slices_have_same_dimensions"):
            continue
        one_slice = spec["coding"]["slices_x"] == 1 and spec["coding"]["slices_y"] == 1
        shsd = row["slices_have_same_dimensions"]
        for b in T.BaseVideoFormats:
            b = int(b)
            base = ref_defaults(b)
            if b not in row["base_video_format"] or base["top_field_first"] != target["top_field_first"]:
                continue
            if all(_group_admitted(row, base, target, g) for g in SIMPLE_GROUPS) and _color_admitted(row, base, target):
                if (True in shsd and False in shsd) or (one_slice and True in shsd):
                    return True
                unknown = True
    return None if unknown else False


# ------------------------------------------------------------------------------------------------------------------
# Configurations
# ------------------------------------------------------------------------------------------------------------------
def later_values(spec):
    """What the rest of a stream of this configuration will tell the validator's level bookkeeping (chosen by this module)."""
    c = spec["coding"]
    out = [("wavelet_index", c["wavelet_index"]), ("dwt_depth", c["dwt_depth"]), ("slices_x", c["slices_x"]), ("slices_y", c["slices_y"])]
    if spec["profile"] == 0:
        out += [("slice_bytes_numerator", c["slice_bytes"][0]), ("slice_bytes_denominator", c["slice_bytes"][1])]
    else:
        out += [("slice_prefix_bytes", 0)]
    out.append(("custom_quant_matrix", False))
    if c["slices_x"] == 1 and c["slices_y"] == 1:
        out.append(("slices_have_same_dimensions", True))
    return out


def spec_vp(spec):
    vp = ref_defaults(spec["base"])
    vp.update(spec["changes"])
    return vp


def build_cf(spec):
    from vc2_conformance.codec_features import CodecFeatures
    from vc2_conformance.pseudocode.video_parameters import VideoParameters

    c = spec["coding"]
    n, d = c["slice_bytes"]
    return CodecFeatures(
        name="c15", level=spec["level"], profile=spec["profile"], picture_coding_mode=spec["pcm"],
        video_parameters=VideoParameters(**spec_vp(spec)),
        wavelet_index=c["wavelet_index"], wavelet_index_ho=c["wavelet_index"], dwt_depth=c["dwt_depth"], dwt_depth_ho=0,
        slices_x=c["slices_x"], slices_y=c["slices_y"], fragment_slice_count=0, lossless=False,
        picture_bytes=(n * c["slices_x"] * c["slices_y"]) // d, quantization_matrix=None)


def perturbations(b, rng_combo=None):
    """Single-group changes of base format b's defaults: [(tag, {video parameter: value})]."""
    import vc2_data_tables as T

    d = ref_defaults(b)
    w, h, cw, ch, lo, to = d["frame_width"], d["frame_height"], d["clean_width"], d["clean_height"], d["left_offset"], d["top_offset"]
    out = []
    # frame size
    out += [("width+2", {"frame_width": w + 2}), ("height+4", {"frame_height": h + 4}), ("both+", {"frame_width": w + 2, "frame_height": h + 4}),
            ("width*2", {"frame_width": 2 * w}),
            ("huge", {"frame_width": (1 << 20) + 2, "frame_height": (1 << 33) + 4})]
    if w > 4 and h > 8:
        out += [("width-2+clean", {"frame_width": w - 2, "clean_width": min(cw, w - 2 - min(lo, w - 3)), "left_offset": min(lo, w - 3)}),
                ("height-4+clean", {"frame_height": h - 4, "clean_height": min(ch, h - 4 - min(to, h - 5)), "top_offset": min(to, h - 5)})]
    out.append(("tiny", {"frame_width": 2, "frame_height": 4, "clean_width": 2, "clean_height": 4, "left_offset": 0, "top_offset": 0}))
    nb = ref_defaults((b + 1) % len(T.BaseVideoFormats))
    out.append(("size-of-next-base", {k: nb[k] for k in ("frame_width", "frame_height", "clean_width", "clean_height", "left_offset", "top_offset")}))
    # colour difference sampling, scan format, field order
    for v in T.ColorDifferenceSamplingFormats:
        if int(v) != d["color_diff_format_index"]:
            out.append(("cdf=%d" % v, {"color_diff_format_index": int(v)}))
    out.append(("scan-flipped", {"source_sampling": 1 - d["source_sampling"]}))
    out.append(("tff-flipped", {"top_field_first": not d["top_field_first"]}))
    # frame rate
    for i, p in T.PRESET_FRAME_RATES.items():
        if (int(p.numerator), int(p.denominator)) != (d["frame_rate_numer"], d["frame_rate_denom"]):
            out.append(("fr-preset-%d" % i, {"frame_rate_numer": int(p.numerator), "frame_rate_denom": int(p.denominator)}))
    out += [("fr-custom", {"frame_rate_numer": 12345, "frame_rate_denom": 678}), ("fr-numer+1", {"frame_rate_numer": d["frame_rate_numer"] + 1}),
            ("fr-denom-only", {"frame_rate_denom": d["frame_rate_denom"] + 6}),
            ("fr-big", {"frame_rate_numer": (1 << 32) + 5, "frame_rate_denom": 7})]
    # pixel aspect ratio
    for i, p in T.PRESET_PIXEL_ASPECT_RATIOS.items():
        if (int(p.numerator), int(p.denominator)) != (d["pixel_aspect_ratio_numer"], d["pixel_aspect_ratio_denom"]):
            out.append(("par-preset-%d" % i, {"pixel_aspect_ratio_numer": int(p.numerator), "pixel_aspect_ratio_denom": int(p.denominator)}))
    out += [("par-custom", {"pixel_aspect_ratio_numer": 7, "pixel_aspect_ratio_denom": 5}),
            ("par-denom-only", {"pixel_aspect_ratio_denom": d["pixel_aspect_ratio_denom"] + 100})]
    # clean area
    if cw > 2 and ch > 2:
        out += [("clean-width-2", {"clean_width": cw - 2}), ("clean-height-1", {"clean_height": ch - 1}),
                ("clean-left", {"left_offset": lo + 2, "clean_width": cw - 2}), ("clean-top", {"top_offset": to + 1, "clean_height": ch - 1})]
    out.append(("clean-corner", {"clean_width": 1, "clean_height": 1, "left_offset": w - 1, "top_offset": h - 1}))
    if (cw, ch, lo, to) != (w, h, 0, 0):
        out.append(("clean-full", {"clean_width": w, "clean_height": h, "left_offset": 0, "top_offset": 0}))
    # signal range
    cur = (d["luma_offset"], d["luma_excursion"], d["color_diff_offset"], d["color_diff_excursion"])
    for i, p in T.PRESET_SIGNAL_RANGES.items():
        t = (int(p.luma_offset), int(p.luma_excursion), int(p.color_diff_offset), int(p.color_diff_excursion))
        if t != cur:
            out.append(("sr-preset-%d" % i, dict(zip(("luma_offset", "luma_excursion", "color_diff_offset", "color_diff_excursion"), t))))
    out += [("sr-minimal", {"luma_offset": 0, "luma_excursion": 1, "color_diff_offset": 0, "color_diff_excursion": 1}),
            ("sr-luma-offset+1", {"luma_offset": cur[0] + 1}), ("sr-cd-excursion+1", {"color_diff_excursion": cur[3] + 1}),
            ("sr-odd", {"luma_offset": 3, "luma_excursion": 70000, "color_diff_offset": 5, "color_diff_excursion": 1})]
    # colour specification
    curc = (d["color_primaries_index"], d["color_matrix_index"], d["transfer_function_index"])
    for i, p in T.PRESET_COLOR_SPECS.items():
        t = (int(p.color_primaries_index), int(p.color_matrix_index), int(p.transfer_function_index))
        if t != curc:
            out.append(("cs-preset-%d" % i, {"color_primaries_index": t[0], "color_matrix_index": t[1], "transfer_function_index": t[2]}))
    for key, enum in (("color_primaries_index", T.PresetColorPrimaries), ("color_matrix_index", T.PresetColorMatrices),
                      ("transfer_function_index", T.PresetTransferFunctions)):
        for v in enum:
            if int(v) != d[key]:
                out.append(("%s=%d" % (key, v), {key: int(v)}))
    out.append(("cs-all-last", {"color_primaries_index": int(list(T.PresetColorPrimaries)[-1]), "color_matrix_index": int(list(T.PresetColorMatrices)[-2]),
                                "transfer_function_index": int(list(T.PresetTransferFunctions)[-3])}))
    seen, uniq = set(), []
    for tag, ch_ in out:
        key = tuple(sorted(ch_.items()))
        if key not in seen and any(d[k] != v for k, v in ch_.items()):
            seen.add(key)
            uniq.append((tag, ch_))
    return uniq


def _group_of(key):
    for i, g in enumerate(SIMPLE_GROUPS):
        if key in g[1]:
            return i
    return {"top_field_first": 100}.get(key, 101)


def combos(b, perts, rng, n):
    """n seeded combinations of 2..4 perturbations from different parameter groups."""
    out = []
    for _ in range(n):
        k = rng.choice((2, 2, 3, 4))
        picked, groups, tags = {}, set(), []
        for tag, ch in rng.sample(perts, min(len(perts), 12)):
            gs = set(_group_of(key) for key in ch)
            if gs & groups:
                continue
            groups |= gs
            picked.update(ch)
            tags.append(tag)
            if len(tags) == k:
                break
        out.append(("+".join(tags), picked))
    return out


L0_CODING = {"wavelet_index": 0, "dwt_depth": 0, "slices_x": 1, "slices_y": 1, "slice_bytes": (64, 1)}


def _pick(vs, prefer, AnyValue):
    if isinstance(vs, AnyValue) or prefer in vs:
        return prefer
    vals = sorted(int(v) for v in vs.iter_values())
    return vals[0] if vals else None


def row_configs(rows, AnyValue):
    """For every level-table row with level != 0: (row index, base, pcm, profile, coding, changes) of a configuration the row admits."""
    import vc2_data_tables as T

    out, skipped = [], []
    for ri, row in enumerate(rows):
        levels = [int(l) for l in T.Levels if int(l) != 0 and int(l) in row["level"]]
        for level in levels:
            for b in [int(x) for x in T.BaseVideoFormats if int(x) in row["base_video_format"]]:
                for pcm in (0, 1):
                    if pcm not in row["picture_coding_mode"]:
                        continue
                    for profile in (0, 3):
                        if profile not in row["profile"]:
                            continue
                        d = ref_defaults(b)
                        changes = {}
                        ok = True
                        for flag, keys, presets, index_key in SIMPLE_GROUPS:
                            if False in row[flag]:
                                continue
                            if presets is not None and 0 not in row[index_key]:
                                i = _pick(row[index_key], None, AnyValue)
                                vals = getattr(T, presets).get(i) if i is not None else None
                                if vals is None:
                                    ok = False
                                    continue
                                for k, v in zip(keys, vals):
                                    changes[k] = int(v)
                            else:
                                for k in keys:
                                    v = _pick(row[k], d[k], AnyValue)
                                    if v is None:
                                        ok = False
                                    else:
                                        changes[k] = v
                        coding = {"wavelet_index": _pick(row["wavelet_index"], 0, AnyValue), "dwt_depth": _pick(row["dwt_depth"], 0, AnyValue),
                                  "slices_x": _pick(row["slices_x"], 1, AnyValue), "slices_y": _pick(row["slices_y"], 1, AnyValue),
                                  "slice_bytes": (_pick(row["slice_bytes_numerator"], 64, AnyValue) or 64, _pick(row["slice_bytes_denominator"], 1, AnyValue) or 1)}
                        n, dd = coding["slice_bytes"]
                        if not ok or None in coding.values() or (n * coding["slices_x"] * coding["slices_y"]) % dd != 0 or False not in row["custom_quant_matrix"]:
                            skipped.append({"row": ri, "base": b, "pcm": pcm, "profile": profile})
                            continue
                        changes = {k: v for k, v in changes.items() if d[k] != v}
                        out.append((ri, level, b, pcm, profile, coding, changes))
    return out, skipped


def build_specs(tier, seed, rows, AnyValue):
    import vc2_data_tables as T

    rng = random.Random(seed)
    quick = tier == "quick"
    specs, dropped = [], 0

    def add(domain, level, b, pcm, profile, coding, tag, changes, row=None):
        s = {"domain": domain, "level": level, "base": b, "pcm": pcm, "profile": profile, "coding": coding, "tag": tag, "changes": changes}
        if row is not None:
            s["row"] = row
        if format_ok(spec_vp(s), pcm):
            specs.append(s)
            return 0
        return 1

    n_combo = 150 if quick else 2000
    bases = [int(b) for b in T.BaseVideoFormats]
    per_base = {b: perturbations(b) for b in bases}
    for b in bases:
        for pcm in (0, 1):
            for profile in (0, 3):
                dropped += add("level0", 0, b, pcm, profile, L0_CODING, "defaults", {})
        for i, (tag, ch) in enumerate(per_base[b]):
            for pcm in (0, 1):
                for profile in (0, 3):
                    if quick and (pcm != (i + b) % 2 or profile != (0, 3)[((i + b) // 2) % 2]):
                        continue
                    dropped += add("level0", 0, b, pcm, profile, L0_CODING, tag, ch)
    for j in range(n_combo):
        b = bases[j % len(bases)]
        tag, ch = combos(b, per_base[b], rng, 1)[0]
        dropped += add("level0", 0, b, rng.choice((0, 1)), rng.choice((0, 3)), L0_CODING, "combo:" + tag, ch)
    rcs, skipped = row_configs(rows, AnyValue)
    for ri, level, b, pcm, profile, coding, changes in rcs:
        dropped += add("levels", level, b, pcm, profile, coding, "row-defaults", changes, row=ri)
        # a group the row forces to be coded explicitly, left at the base format's own value instead (usually not admitted)
        for flag, keys, _, _ in SIMPLE_GROUPS:
            if any(k in changes for k in keys):
                dropped += add("levels", level, b, pcm, profile, coding, "row-forced-group-at-base-value:" + flag,
                               {k: v for k, v in changes.items() if k not in keys}, row=ri)
        for i, (tag, ch) in enumerate(per_base[b]):
            if quick and profile == 3 and 0 in rows[ri]["profile"] and i % 2:
                continue
            dropped += add("levels", level, b, pcm, profile, coding, tag, dict(changes, **ch), row=ri)
    return specs, dropped, skipped


# ------------------------------------------------------------------------------------------------------------------
# Running one configuration against the real code
# ------------------------------------------------------------------------------------------------------------------
_CTX = None


def _run_range(bounds):
    lo, hi = bounds
    res = []
    for i in range(lo, hi):
        res.append(_run_spec(_CTX["specs"][i], _CTX["rows"], _CTX["quick"], _CTX["seed"] * 1000003 + i))
    return res


def _describe(spec):
    return {k: spec[k] for k in ("domain", "level", "base", "pcm", "profile", "coding", "tag", "changes", "row") if k in spec}


def _select_headers(headers, spec, quick, subseed):
    """Which generated headers are executed: all of them, except in the quick tier for perturbed level-0 configurations, where all
    headers on the first (best-matching) base video format and QUICK_OTHERS seeded others are taken."""
    if not quick or spec["domain"] != "level0" or spec["tag"] == "defaults" or len(headers) <= QUICK_OTHERS + 2:
        return list(range(len(headers)))
    first = headers[0].get("base_video_format")
    head = [i for i, h in enumerate(headers) if h.get("base_video_format") == first]
    rest = [i for i in range(len(headers)) if i not in set(head)]
    return sorted(head + random.Random(subseed).sample(rest, min(QUICK_OTHERS, len(rest))))


def _run_spec(spec, rows, quick=False, subseed=0):
    """Returns dict(n_headers, viol=[(clause, name, payload)], cov=Counter, expect)."""
    from vc2_data_tables import ParseCodes
    from vc2_conformance.encoder.sequence_header import iter_sequence_headers, make_sequence_header_data_unit
    from vc2_conformance.encoder.exceptions import IncompatibleLevelAndVideoFormatError
    from vc2_conformance.bitstream import Serialiser, BitstreamWriter, Stream, Sequence, DataUnit, ParseInfo, vc2_default_values_with_auto
    from vc2_conformance.bitstream import vc2 as bvc2
    from vc2_conformance.bitstream.vc2_autofill import autofill_major_version
    from vc2_conformance.pseudocode.state import State
    from vc2_conformance.decoder.io import init_io
    from vc2_conformance.decoder.sequence_header import sequence_header as validator_sequence_header
    from vc2_conformance.decoder.assertions import assert_level_constraint
    from vc2_conformance.decoder.exceptions import ConformanceError

    viol, cov = [], collections.Counter()
    target = spec_vp(spec)
    want_head = {"picture_coding_mode": spec["pcm"], "level": spec["level"], "profile": spec["profile"]}
    base_inputs = {"configuration": _describe(spec), "video_parameters": target}

    def report(clause, what, expected, observed, **more):
        viol.append((clause, "%s-%s-base%d-level%d-pcm%d-profile%d-%s" % (clause, spec["domain"], spec["base"], spec["level"], spec["pcm"], spec["profile"], spec["tag"]),
                     {"what": what, "inputs": dict(base_inputs, **more), "expected": expected, "observed": observed}))

    expect = True if spec["level"] == 0 else admitted([r for r in rows if spec["level"] in r["level"]], spec, target)
    out = {"n_headers": 0, "n_generated": 0, "viol": viol, "cov": cov, "expect": expect, "domain": spec["domain"]}

    # ---- (G) generation
    cf = build_cf(spec)
    try:
        headers = list(iter_sequence_headers(cf))
    except IncompatibleLevelAndVideoFormatError:
        headers = []
    except Exception as e:
        report("generation", "iter_sequence_headers raised on a valid configuration", "no exception", "%s: %s" % (type(e).__name__, str(e)[:200]))
        return out
    try:
        du = make_sequence_header_data_unit(build_cf(spec))
        made = ("ok", du)
    except IncompatibleLevelAndVideoFormatError:
        made = ("refused", None)
    except Exception as e:
        made = ("error", "%s: %s" % (type(e).__name__, str(e)[:200]))
    if made[0] == "error":
        report("generation", "make_sequence_header_data_unit raised something other than the documented IncompatibleLevelAndVideoFormatError",
               "a data unit" if headers else "IncompatibleLevelAndVideoFormatError", made[1])
    elif headers and made[0] == "refused":
        report("generation", "make_sequence_header_data_unit refuses although iter_sequence_headers generates headers", "the first generated header", "IncompatibleLevelAndVideoFormatError")
    elif not headers and made[0] == "ok":
        report("generation", "make_sequence_header_data_unit returns a header although iter_sequence_headers generates none", "IncompatibleLevelAndVideoFormatError", str(made[1])[:400])
    elif headers:
        du = made[1]
        pc = du.get("parse_info", {}).get("parse_code")
        if pc != ParseCodes.sequence_header or du.get("sequence_header") != headers[0]:
            report("generation", "make_sequence_header_data_unit is not a sequence-header data unit holding the first generated header",
                   {"parse_code": int(ParseCodes.sequence_header), "sequence_header": str(headers[0])[:600]},
                   {"parse_code": None if pc is None else int(pc), "sequence_header": str(du.get("sequence_header"))[:600]})
    if expect is True and not headers:
        if spec["level"]:
            # the statement is about the headers that ARE generated; that a constrained level admits this format is this module's own
            # reading of the level table, so a refusal there is counted, not judged
            cov["admission_oracle_says_yes_but_nothing_generated"] += 1
        else:
            report("generation", "nothing is generated for a valid format at the unconstrained level (the compact default must exist)", "at least one sequence header", "none")
    if expect is False and headers:
        cov["admission_oracle_says_no_but_headers_generated"] += 1
    cov["configs_with_headers" if headers else "configs_refused"] += 1

    # ---- (A), (D), (R) on every generated header
    level_versions = [v for v in (1, 2, 3) if any(spec["level"] in r["level"] and v in r["major_version"] for r in rows)]
    bad = collections.Counter()
    out["n_generated"] = len(headers)
    for hi in _select_headers(headers, spec, quick, subseed):
        sh0 = headers[hi]
        if min(bad.get(c, 0) for c in ("accepted", "decode", "reference")) >= MAX_PER_CLAUSE:
            break
        out["n_headers"] += 1
        sh = copy.deepcopy(sh0)
        hdesc = {"header_index": hi, "header": str(sh0)[:900]}
        # major version: as the encoder does (auto-fill over the sequence), unless the level prescribes another one
        try:
            stream = Stream(sequences=[Sequence(data_units=[DataUnit(parse_info=ParseInfo(parse_code=ParseCodes.sequence_header), sequence_header=sh),
                                                            DataUnit(parse_info=ParseInfo(parse_code=ParseCodes.end_of_sequence))])])
            autofill_major_version(stream)
            v_auto = sh["parse_parameters"]["major_version"]
        except Exception as e:
            bad["accepted"] += 1
            report("accepted", "the generated header cannot be auto-filled", "a major version", "%s: %s" % (type(e).__name__, str(e)[:200]), **hdesc)
            continue
        version = v_auto
        if v_auto not in level_versions:
            cands = [v for v in level_versions if v >= ref_min_version(sh0)]
            if not cands:
                bad["accepted"] += 1
                report("accepted", "no major version satisfies both (11.2.2) for this header and the configured level", "a usable version",
                       {"needed_at_least": ref_min_version(sh0), "level_allows": level_versions}, **hdesc)
                continue
            version = cands[0]
            cov["version_prescribed_by_level"] += 1
        sh["parse_parameters"]["major_version"] = version
        cov["version_%s" % version] += 1
        try:
            f = io.BytesIO()
            w = BitstreamWriter(f)
            with Serialiser(w, sh, vc2_default_values_with_auto) as ser:
                bvc2.sequence_header(ser, State())
            w.flush()
            data = f.getvalue()
        except Exception as e:
            bad["accepted"] += 1
            report("accepted", "the generated header cannot be serialised", "bytes", "%s: %s" % (type(e).__name__, str(e)[:200]), major_version=version, **hdesc)
            continue
        hdesc.update(major_version=version, bytes_hex=data.hex())
        # (R) reference decode
        if bad["reference"] < MAX_PER_CLAUSE:
            try:
                ref = ref_parse(data)
                got = {"video_parameters": ref["video_parameters"], "picture_coding_mode": ref["picture_coding_mode"], "level": ref["level"], "profile": ref["profile"]}
                pad = 8 * len(data) - ref["bits"]
                if got != dict(want_head, video_parameters=target) or not (0 <= pad < 8):
                    bad["reference"] += 1
                    diff = {k: [target[k], got["video_parameters"][k]] for k in VP_KEYS if target[k] != got["video_parameters"][k]}
                    report("reference", "read by the reference decoder of (11.1)-(11.5) the generated header does not give the configured format",
                           dict(want_head, video_parameters=target), dict(got, differing=diff, unread_bits=pad), **hdesc)
            except RefError as e:
                bad["reference"] += 1
                report("reference", "the reference decoder of (11.1)-(11.5) cannot read the generated header", "a readable header", str(e), **hdesc)
        # (A) acceptance by the real validator
        state = State()
        try:
            init_io(state, io.BytesIO(data + b"\x00" * 8))
            vp = validator_sequence_header(state)
        except ConformanceError as e:
            bad["accepted"] += 1
            report("accepted", "the validator rejects a generated header under the configured level", "no conformance error",
                   "%s: %s" % (type(e).__name__, str(e)[:300]), **hdesc)
            continue
        except Exception as e:
            bad["accepted"] += 1
            report("accepted", "the validator fails on a generated header", "no exception", "%s: %s" % (type(e).__name__, str(e)[:300]), **hdesc)
            continue
        # (D) exact decode
        got_vp = {k: vp.get(k) for k in VP_KEYS}
        got_head = {"picture_coding_mode": state.get("picture_coding_mode"), "level": state.get("level"), "profile": state.get("profile")}
        if got_vp != target or set(vp.keys()) != set(VP_KEYS) or got_head != want_head:
            bad["decode"] += 1
            diff = {k: [target[k], got_vp[k]] for k in VP_KEYS if target[k] != got_vp[k]}
            report("decode", "the validator decodes a generated header to something other than the configured format",
                   dict(want_head, video_parameters=target), dict(got_head, differing=diff, keys=sorted(vp.keys())), **hdesc)
        # (A, continued) the rest of the configuration still fits the level after this header
        try:
            for k, v in later_values(spec):
                assert_level_constraint(state, k, v)
        except ConformanceError as e:
            bad["accepted"] += 1
            report("accepted", "after this header the validator's level bookkeeping rejects the rest of the configuration (wavelet / depth / slices / slice size)",
                   "no conformance error", "%s: %s" % (type(e).__name__, str(e)[:300]), later_values=later_values(spec), **hdesc)
        # coverage of encodings
        sp = sh0.get("video_parameters", {})
        cov["base_used_%d" % int(sh0["base_video_format"])] += 1
        for part, flag in (("frame_size", "custom_dimensions_flag"), ("color_diff_sampling_format", "custom_color_diff_format_flag"), ("scan_format", "custom_scan_format_flag"),
                           ("frame_rate", "custom_frame_rate_flag"), ("pixel_aspect_ratio", "custom_pixel_aspect_ratio_flag"), ("clean_area", "custom_clean_area_flag"),
                           ("signal_range", "custom_signal_range_flag"), ("color_spec", "custom_color_spec_flag")):
            dd = sp.get(part, {})
            kind = "default" if not dd.get(flag) else ("explicit" if dd.get("index", 0) == 0 else "preset")
            cov["enc_%s_%s" % (part, kind)] += 1
    return out


# ------------------------------------------------------------------------------------------------------------------
# The hook
# ------------------------------------------------------------------------------------------------------------------
def check(rep, tier, seed):
    global _CTX
    from pyvc import frontend

    frontend.ensure_repo_on_path()
    import vc2_data_tables as T
    from vc2_conformance.level_constraints import LEVEL_CONSTRAINTS
    from vc2_conformance.constraint_table import AnyValue
    from vc2_conformance.pseudocode.video_parameters import set_source_defaults
    # import everything the workers use before forking
    import vc2_conformance.encoder.sequence_header  # noqa: F401
    import vc2_conformance.bitstream.vc2_autofill  # noqa: F401
    import vc2_conformance.decoder.sequence_header  # noqa: F401

    t0 = time.time()
    rows = list(LEVEL_CONSTRAINTS)

    # ---- ground facts over the live tables
    wrong = []
    for b in T.BaseVideoFormats:
        try:
            got = dict(set_source_defaults(int(b)))
        except Exception as e:
            got = "%s: %s" % (type(e).__name__, e)
        if got != ref_defaults(int(b)):
            wrong.append(int(b))
    rep.add_eval_fact("set_source_defaults(b) gives the parameters the tables of (11.4.2) / annex B assign to every base video format b", not wrong,
                      "%d base video formats; differing: %r" % (len(T.BaseVideoFormats), wrong))
    if wrong:
        b = wrong[0]
        try:
            got = {k: (int(v) if not isinstance(v, bool) else v) for k, v in dict(set_source_defaults(b)).items()}
        except Exception as e:
            got = "%s: %s" % (type(e).__name__, e)
        rep.violation("source-defaults-base%d" % b, {"what": "set_source_defaults(b) differs from the base video format tables, so a header that leaves a custom flag cleared stands for another format",
                                                      "inputs": {"base_video_format": b}, "expected": ref_defaults(b), "observed": got})
    levels_in_table = sorted(set(int(l) for l in T.Levels if any(int(l) in r["level"] for r in rows)))
    rep.add_eval_fact("every level of the Levels enumeration has at least one row in the shipped LEVEL_CONSTRAINTS (so 'the configured level' is never vacuous)",
                      levels_in_table == sorted(int(l) for l in T.Levels), "levels with rows: %r" % levels_in_table)

    # ---- the domain
    specs, dropped, skipped_rows = build_specs(tier, seed, rows, AnyValue)
    _CTX = {"specs": specs, "rows": rows, "quick": tier == "quick", "seed": seed}
    n = len(specs)
    chunks = [(i, min(n, i + 40)) for i in range(0, n, 40)]
    results = None
    try:
        import multiprocessing

        with multiprocessing.get_context("fork").Pool(WORKERS) as pool:
            results = [r for part in pool.map(_run_range, chunks, chunksize=1) for r in part]
    finally:
        _CTX = None
    assert len(results) == n

    # ---- aggregate
    cov = collections.Counter()
    per_domain = {d: collections.Counter() for d in ("level0", "levels")}
    reported = collections.Counter()
    total_viol = collections.Counter()
    for spec, r in zip(specs, results):
        dom = per_domain[spec["domain"]]
        dom["configs"] += 1
        dom["headers"] += r["n_headers"]
        dom["generated"] += r["n_generated"]
        dom["expect_%s" % r["expect"]] += 1
        dom["with_headers"] += 1 if r["n_headers"] else 0
        cov.update(r["cov"])
        for clause, name, payload in r["viol"]:
            total_viol[clause] += 1
            if reported[clause] < MAX_PER_CLAUSE:
                reported[clause] += 1
                rep.violation(name, payload)
    wall = time.time() - t0

    def sample(domain, pred):
        for s, r in zip(specs, results):
            if s["domain"] == domain and pred(s, r):
                return dict(_describe(s), headers=r["n_headers"])
        return None

    d0, dl = per_domain["level0"], per_domain["levels"]
    combos_n = sum(1 for s in specs if s["tag"].startswith("combo:"))
    rep.add_bounded(
        "C15 (G) generation, level 0",
        "every base video format (%d) x picture coding modes {0,1} x profiles {LD,HQ} with its defaults; every single-group perturbation (frame size, colour-difference format, "
        "scan format, top_field_first, frame rate presets+custom, pixel aspect ratio presets+custom, clean area, signal range presets+custom, colour spec presets, primaries, "
        "matrices, transfer functions)%s; %d seeded multi-group combinations; contract: no exception, headers generated, make_sequence_header_data_unit == first header"
        % (len(T.BaseVideoFormats), " alternating mode/profile" if tier == "quick" else " for both modes and profiles", combos_n),
        d0["configs"], False, distinct=d0["configs"], samples=[sample("level0", lambda s, r: s["tag"] == "fr-big"), sample("level0", lambda s, r: s["tag"].startswith("combo:"))],
        note="%d candidate configurations dropped by the precondition (frame size not divisible by the subsampling / field factors)" % dropped)
    rep.add_bounded(
        "C15 (G) generation, real levels",
        "every row of LEVEL_CONSTRAINTS with level != 0 (%d rows) x its base formats x its picture coding modes x its profiles: a configuration synthesised from the row, and every "
        "perturbation above on top of it; contract: generated iff the admission oracle finds an admitted encoding (unknown: no demand), refusal only by IncompatibleLevelAndVideoFormatError, "
        "make_sequence_header_data_unit == first header" % sum(1 for r in rows if 0 not in r["level"]),
        dl["configs"], False, distinct=dl["configs"], samples=[sample("levels", lambda s, r: s["tag"] == "row-defaults" and s["level"] == 65 and s["changes"]),
                                                               sample("levels", lambda s, r: s["tag"] != "row-defaults" and r["n_headers"] > 0)],
        note="admission oracle: admitted %d, not admitted %d, unknown %d; configurations with headers %d; rows that could not be synthesised: %r"
             % (dl["expect_True"], dl["expect_False"], dl["expect_None"], dl["with_headers"], skipped_rows))
    rep.add_bounded(
        "C15 (A)+(D) every generated header is accepted by the validator and decodes exactly, level 0",
        "%s headers iter_sequence_headers generates for the level-0 configurations above (compact default and every alternative on every base video format with the right field order); "
        "serialised by the real serialiser with the auto-filled major version, read by decoder.sequence_header with LEVEL_CONSTRAINTS as shipped; video_parameters (20 entries), "
        "picture_coding_mode, level, profile compared with the configuration"
        % ("quick tier: ALL for the unperturbed base formats; for perturbed ones all on the best-matching base format + %d seeded others of the" % QUICK_OTHERS if tier == "quick" else "ALL"),
        d0["headers"], False, distinct=d0["headers"], samples=[sample("level0", lambda s, r: s["tag"] == "tff-flipped")],
        note="%d headers executed of %d generated" % (d0["headers"], d0["generated"]))
    rep.add_bounded(
        "C15 (A)+(D) every generated header is accepted by the validator and decodes exactly, real levels",
        "ALL headers generated for the real-level configurations above; as for level 0, and afterwards the validator's level bookkeeping must accept the configuration's wavelet, depth, "
        "slice counts and slice size (the header must not select a level-table row the configuration cannot follow); major version prescribed by the level where the table does so",
        dl["headers"], False, distinct=dl["headers"], samples=[sample("levels", lambda s, r: r["n_headers"] > 1)],
        note="headers whose major version was taken from the level table rather than from auto-fill: %d" % cov["version_prescribed_by_level"])
    rep.add_bounded(
        "C15 (R) reference decode of the serialised bytes",
        "the same headers (both domains), bytes read by this module's own decoder of (11.1)-(11.5): own exp-Golomb reader, base-format and preset tables of vc2_data_tables",
        d0["headers"] + dl["headers"], False, distinct=d0["headers"] + dl["headers"])
    enc = {k[4:]: v for k, v in sorted(cov.items()) if k.startswith("enc_")}
    rep.extra_coverage["c15_encodings_seen"] = enc
    rep.extra_coverage["c15_base_formats_used_in_headers"] = sorted(int(k[10:]) for k in cov if k.startswith("base_used_"))
    rep.extra_coverage["c15_major_versions_used"] = {k[8:]: v for k, v in cov.items() if k.startswith("version_") and k[8:].isdigit()}
    rep.extra_coverage["c15_admission_oracle_underapproximations"] = cov["admission_oracle_says_no_but_headers_generated"]
    rep.extra_coverage["c15_violations_by_clause_total"] = dict(total_viol)
    rep.extra_coverage["c15_wall_seconds"] = round(wall, 1)
    missing = [k for k in ("frame_size_default", "frame_size_explicit", "frame_rate_preset", "frame_rate_explicit", "pixel_aspect_ratio_preset", "signal_range_preset",
                           "signal_range_explicit", "color_spec_preset", "color_spec_explicit", "clean_area_explicit", "scan_format_explicit") if not enc.get(k)]
    if missing:
        rep.extra_assumptions.append("C15: these kinds of encoding were never generated in this run, so they were not exercised: %r" % missing)


REGISTER = {
    "C15": dict(
        extra=[check],
        level="other",
        assumptions=[
            "BOUNDED (not proved): the contract is executed on the finite domain listed under bounded_checks (base formats x single-group perturbations x seeded combinations; "
            "every row of the shipped level table); other formats, other level tables and other coding parameters are not covered",
            "PRECONDITION: only clearly valid formats are used (positive sizes / ratios / excursions, clean area inside the frame, frame size divisible by the colour-subsampling "
            "and field factors); candidates outside it are dropped and counted",
            "MAJOR VERSION: a generated header carries no major version; the check takes the one the encoder's auto-fill (autofill_major_version over [header, end of sequence]) chooses, "
            "except where the level table prescribes the version (levels 64/65 demand 2): there the smallest prescribed version allowed by (11.2.2) is used.  Whether a complete stream "
            "of such a level can carry that version is outside this property",
            "ACCEPTANCE is judged on the sequence header (decoder.sequence_header) plus the validator's level bookkeeping for the configuration's wavelet index, depth, slice counts, "
            "slice bytes / prefix bytes and quantisation-matrix flag as chosen by this module; pictures are not generated (slices_have_same_dimensions only for single-slice configurations)",
            "NON-EMPTINESS at a real level is demanded only where this module's admission oracle (one level-table row, one base format, one allowed encoding per group of (11.4)) says "
            "the level admits the format; the statement itself only speaks about the headers that are generated",
            "TRUSTED: the vc2_data_tables package (base video formats, presets, enumerations), the real serialiser (checked under C06/C21) - the reference decoder reads its bytes independently; "
            "ValueSet membership of the shipped level table (C17)",
        ],
        manifest=dict(
            category="other",
            technique="native contract check (bounded): generated-header contract executed over all base formats x perturbations x level-table rows; real serialiser -> real validator and an "
                      "independent reference decoder of (11.1)-(11.5); independent level-admission oracle for non-emptiness",
            text="For every configuration of the stated finite domain: every header iter_sequence_headers yields (all of them), serialised with the auto-filled major version, is accepted by "
                 "decoder.sequence_header under the shipped level table and leaves the level bookkeeping compatible with the rest of the configuration; it decodes - by the validator and by an "
                 "independent reference decoder - to exactly the configured 20 video parameters, picture coding mode, level and profile; make_sequence_header_data_unit is the first of them or "
                 "raises the documented exception exactly when none exists; headers exist at level 0 and wherever an independent oracle shows the level admits the format.",
            note="Bounded stand-in, never counted as proved: sampled formats near the base formats, not all formats; acceptance is judged on the header and the level bookkeeping, not on a whole stream.",
        ),
    )
}
