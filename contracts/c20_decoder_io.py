"""C20 (validator side): contracts for vc2_conformance/decoder/io.py.

Abstract view: the file is a *tape* of bits, bit p of the tape being bit
(7 - p % 8) of byte p // 8 (MSB first).  The decoder's position on the tape is
    dpos(state) = 8*(file.tell() - [current_byte is not None]) + 7 - next_bit
and the representation invariant dinv(state) ties current_byte / next_bit / the
file position to that view (derived from the code, not from the docs).
"""
from pyvc.api import *
from contracts.c20_common import *
from vc2_conformance.decoder.exceptions import UnexpectedEndOfStream

IO = "vc2_conformance.decoder.io."

fields(
    _file="ref:file",
    current_byte="optint",
    next_bit="int",
    bits_left="int",
    _recorded_bytes="ref:list:int",
    fpos="int",
)

STATE = "dict:State"


# ---- ghost views of the decoder state ------------------------------------------


@inline
def dpos(state):
    f = state["_file"]
    return 8 * (fpos(f) - (0 if state["current_byte"] is None else 1)) + 7 - state["next_bit"]


@inline
def tape(state):
    return content(state["_file"])


@inline
def nbits_total(state):
    return 8 * flen(state["_file"])


@inline
def dinv(state):
    f = state["_file"]
    cb = state["current_byte"]
    return (
        has(state, "_file") and has(state, "current_byte") and has(state, "next_bit")
        and 0 <= state["next_bit"] and state["next_bit"] <= 7
        and 0 <= fpos(f) and fpos(f) <= flen(f)
        and implies(cb is not None, fpos(f) >= 1 and cb == content(f)[fpos(f) - 1] and 0 <= cb and cb <= 255)
        and implies(cb is None, fpos(f) == flen(f) and state["next_bit"] == 7)
        and implies(has(state, "_recorded_bytes"), state["_recorded_bytes"] != f)
    )


FRAME_IO = ['state["next_bit"]', 'state["current_byte"]', 'state["_file"].fpos',
            'elems(state["_recorded_bytes"]) if has(state, "_recorded_bytes") else None',
            'length(state["_recorded_bytes"]) if has(state, "_recorded_bytes") else None']


@spec(IO + "read_byte")
class _read_byte:
    args = {"state": STATE}
    requires = [
        'has(state, "_file")',
        '0 <= fpos(state["_file"]) and fpos(state["_file"]) <= flen(state["_file"])',
        'implies(has(state, "_recorded_bytes"), has(state, "current_byte") and state["current_byte"] is not None and state["_recorded_bytes"] != state["_file"])',
    ]
    modifies = FRAME_IO
    ensures = [
        "dinv(state)",
        '(old(fpos(state["_file"])) < flen(state["_file"])) == (state["current_byte"] is not None)',
        'fpos(state["_file"]) == old(fpos(state["_file"])) + (1 if old(fpos(state["_file"])) < flen(state["_file"]) else 0)',
        'state["next_bit"] == 7',
        "tape(state) == old(tape(state))",
        'flen(state["_file"]) == old(flen(state["_file"]))',
        'has(state, "_recorded_bytes") == old(has(state, "_recorded_bytes"))',
        # while a recording runs (record_bitstream_start; C01 'byte-identical repeated sequence headers') the used-up byte - whatever its
        # value - is appended to it and what was recorded before stays
        'implies(has(state, "_recorded_bytes"), length(state["_recorded_bytes"]) == old(length(state["_recorded_bytes"])) + 1)',
        'implies(has(state, "_recorded_bytes"), content(state["_recorded_bytes"])[old(length(state["_recorded_bytes"]))] == old(state["current_byte"]))',
        'implies(has(state, "_recorded_bytes"), forall(0, old(length(state["_recorded_bytes"])), lambda j: content(state["_recorded_bytes"])[j] == old(content(state["_recorded_bytes"]))[j], '
        'trigger=lambda j: content(state["_recorded_bytes"])[j]))',
    ]
    raises = {}


@spec(IO + "read_bit")
class _read_bit:
    args = {"state": STATE}
    result = "int"
    requires = ["dinv(state)"]
    modifies = FRAME_IO
    raises = {"UnexpectedEndOfStream": 'state["current_byte"] is None'}
    raises_exact = True
    ensures = [
        "dinv(state)",
        "result == tbit(old(tape(state)), old(dpos(state)))",
        "0 <= result and result <= 1",
        "dpos(state) == old(dpos(state)) + 1",
        "tape(state) == old(tape(state))",
        'flen(state["_file"]) == old(flen(state["_file"]))',
        "old(dpos(state)) < nbits_total(state)",
        'has(state, "_recorded_bytes") == old(has(state, "_recorded_bytes"))',
    ]
    ghost = {"entry": ['use("bitof_def", state["current_byte"], state["next_bit"]) if state["current_byte"] is not None else None',
                       "unfold(tbit, tape(state), dpos(state))"]}


COMMON_POST = [
    "dinv(state)",
    "tape(state) == old(tape(state))",
    'flen(state["_file"]) == old(flen(state["_file"]))',
    'has(state, "_recorded_bytes") == old(has(state, "_recorded_bytes"))',
]


@spec(IO + "byte_align")
class _byte_align:
    args = {"state": STATE}
    requires = ["dinv(state)"]
    modifies = FRAME_IO
    raises = {}
    ensures = COMMON_POST + [
        "dpos(state) % 8 == 0 or dpos(state) == nbits_total(state)",
        "dpos(state) >= old(dpos(state)) and dpos(state) < old(dpos(state)) + 8",
        "implies(old(dpos(state)) % 8 == 0, dpos(state) == old(dpos(state)))",
        'state["next_bit"] == 7',
    ]


@spec(IO + "read_bool")
class _read_bool:
    args = {"state": STATE}
    result = "bool"
    requires = ["dinv(state)"]
    modifies = FRAME_IO
    raises = {"UnexpectedEndOfStream": "dpos(state) == nbits_total(state)"}
    raises_exact = True
    ensures = COMMON_POST + [
        "result == (tbit(old(tape(state)), old(dpos(state))) == 1)",
        "dpos(state) == old(dpos(state)) + 1",
    ]


@spec(IO + "read_nbits")
class _read_nbits:
    args = {"state": STATE, "n": "int"}
    result = "int"
    requires = ["dinv(state)"]
    modifies = FRAME_IO
    raises = {"UnexpectedEndOfStream": "n > 0 and dpos(state) + n > nbits_total(state)"}
    raises_exact = True
    ensures = COMMON_POST + [
        "result == bitsval(old(tape(state)), old(dpos(state)), n)",
        "dpos(state) == old(dpos(state)) + (n if n > 0 else 0)",
        "result >= 0",
    ]
    invariants = {
        1: [
            "val >= 0",
            "dinv(state)",
            "tape(state) == old(tape(state))",
            'flen(state["_file"]) == old(flen(state["_file"]))',
            'has(state, "_recorded_bytes") == old(has(state, "_recorded_bytes"))',
            "dpos(state) == old(dpos(state)) + i",
            "dpos(state) <= nbits_total(state)",
            "val == bitsval(old(tape(state)), old(dpos(state)), i)",
        ]
    }
    ghost = {
        "entry": ['unfold(bitsval, tape(state), dpos(state), 0)'],
        "loop1.body_end": ['unfold(bitsval, old(tape(state)), old(dpos(state)), i + 1)'],
        "exit": ['unfold(bitsval, old(tape(state)), old(dpos(state)), n) if n <= 0 else None'],
    }


@spec(IO + "read_uint_lit")
class _read_uint_lit:
    args = {"state": STATE, "n": "int"}
    result = "int"
    requires = ["dinv(state)"]
    modifies = FRAME_IO
    raises = {"UnexpectedEndOfStream": "n > 0 and dpos(state) + 8 * n > nbits_total(state)"}
    raises_exact = True
    ensures = COMMON_POST + [
        "result == bitsval(old(tape(state)), old(dpos(state)), 8 * n)",
        "dpos(state) == old(dpos(state)) + (8 * n if n > 0 else 0)",
        "result >= 0",
    ]


@spec(IO + "read_uint")
class _read_uint:
    args = {"state": STATE}
    result = "int"
    requires = ["dinv(state)"]
    modifies = FRAME_IO
    raises = {"UnexpectedEndOfStream": None}
    ensures = COMMON_POST + [
        "result == ue_val(old(tape(state)), old(dpos(state)), 1)",
        "dpos(state) == ue_end(old(tape(state)), old(dpos(state)))",
        "result >= 0",
    ]
    invariants = {
        1: [
            "dinv(state)",
            "tape(state) == old(tape(state))",
            'flen(state["_file"]) == old(flen(state["_file"]))',
            'has(state, "_recorded_bytes") == old(has(state, "_recorded_bytes"))',
            "value >= 1",
            "ue_val(old(tape(state)), old(dpos(state)), 1) == ue_val(tape(state), dpos(state), value)",
            "ue_end(old(tape(state)), old(dpos(state))) == ue_end(tape(state), dpos(state))",
        ]
    }
    ghost = {
        # the loop test reads one bit: unfold the spec functions at the position it reads from
        "loop1.head": ["unfold(ue_val, tape(state), dpos(state), value)", "unfold(ue_end, tape(state), dpos(state))"],
    }


@spec(IO + "read_sint")
class _read_sint:
    args = {"state": STATE}
    result = "int"
    requires = ["dinv(state)"]
    modifies = FRAME_IO
    raises = {"UnexpectedEndOfStream": None}
    ensures = COMMON_POST + [
        "implies(ue_val(old(tape(state)), old(dpos(state)), 1) == 0, result == 0 and dpos(state) == ue_end(old(tape(state)), old(dpos(state))))",
        "implies(ue_val(old(tape(state)), old(dpos(state)), 1) != 0, "
        "dpos(state) == ue_end(old(tape(state)), old(dpos(state))) + 1 and "
        "result == (1 - 2 * tbit(old(tape(state)), ue_end(old(tape(state)), old(dpos(state))))) * ue_val(old(tape(state)), old(dpos(state)), 1))",
    ]


@inline
def dlimit(state):
    return dpos(state) + state["bits_left"]


FRAME_IOB = FRAME_IO + ['state["bits_left"]']
PRE_B = ["dinv(state)", 'has(state, "bits_left") and state["bits_left"] >= 0']
COMMON_POST_B = COMMON_POST + ['has(state, "bits_left") and state["bits_left"] >= 0', "dlimit(state) == old(dlimit(state))"]


@spec(IO + "read_bitb")
class _read_bitb:
    args = {"state": STATE}
    result = "int"
    requires = PRE_B
    modifies = FRAME_IOB
    raises = {"UnexpectedEndOfStream": 'state["bits_left"] > 0 and dpos(state) == nbits_total(state)'}
    raises_exact = True
    ensures = COMMON_POST_B + [
        "result == vbit(old(tape(state)), old(dpos(state)), old(dlimit(state)))",
        "0 <= result and result <= 1",
        "dpos(state) == imin(old(dpos(state)) + 1, old(dlimit(state)))",
    ]


@spec(IO + "read_boolb")
class _read_boolb:
    args = {"state": STATE}
    result = "bool"
    requires = PRE_B
    modifies = FRAME_IOB
    raises = {"UnexpectedEndOfStream": 'state["bits_left"] > 0 and dpos(state) == nbits_total(state)'}
    raises_exact = True
    ensures = COMMON_POST_B + [
        "result == (vbit(old(tape(state)), old(dpos(state)), old(dlimit(state))) == 1)",
        "dpos(state) == imin(old(dpos(state)) + 1, old(dlimit(state)))",
    ]


@spec(IO + "flush_inputb")
class _flush_inputb:
    args = {"state": STATE}
    requires = PRE_B
    modifies = FRAME_IOB
    raises = {"UnexpectedEndOfStream": "dlimit(state) > nbits_total(state)"}
    raises_exact = True
    ensures = COMMON_POST_B + ['state["bits_left"] == 0', "dpos(state) == old(dlimit(state))"]
    invariants = {1: COMMON_POST_B + ["dpos(state) <= nbits_total(state)"]}


@spec(IO + "read_uintb")
class _read_uintb:
    args = {"state": STATE}
    result = "int"
    requires = PRE_B
    modifies = FRAME_IOB
    raises = {"UnexpectedEndOfStream": None}
    ensures = COMMON_POST_B + [
        "result == ueb_val(old(tape(state)), old(dpos(state)), old(dlimit(state)), 1)",
        "dpos(state) == ueb_end(old(tape(state)), old(dpos(state)), old(dlimit(state)))",
        "result >= 0",
    ]
    invariants = {
        1: COMMON_POST_B + [
            "value >= 1",
            "ueb_val(old(tape(state)), old(dpos(state)), old(dlimit(state)), 1) == ueb_val(tape(state), dpos(state), dlimit(state), value)",
            "ueb_end(old(tape(state)), old(dpos(state)), old(dlimit(state))) == ueb_end(tape(state), dpos(state), dlimit(state))",
        ]
    }
    ghost = {
        "loop1.head": ["unfold(ueb_val, tape(state), dpos(state), dlimit(state), value)", "unfold(ueb_end, tape(state), dpos(state), dlimit(state))"],
    }


@spec(IO + "read_sintb")
class _read_sintb:
    args = {"state": STATE}
    result = "int"
    requires = PRE_B
    modifies = FRAME_IOB
    raises = {"UnexpectedEndOfStream": None}
    ensures = COMMON_POST_B + [
        "implies(ueb_val(old(tape(state)), old(dpos(state)), old(dlimit(state)), 1) == 0, "
        "result == 0 and dpos(state) == ueb_end(old(tape(state)), old(dpos(state)), old(dlimit(state))))",
        "implies(ueb_val(old(tape(state)), old(dpos(state)), old(dlimit(state)), 1) != 0, "
        "dpos(state) == imin(ueb_end(old(tape(state)), old(dpos(state)), old(dlimit(state))) + 1, old(dlimit(state))) and "
        "result == (1 - 2 * vbit(old(tape(state)), ueb_end(old(tape(state)), old(dpos(state)), old(dlimit(state))), old(dlimit(state)))) "
        "* ueb_val(old(tape(state)), old(dpos(state)), old(dlimit(state)), 1))",
    ]


@spec(IO + "tell")
class _tell:
    args = {"state": STATE}
    result = "tuple:int,int"
    requires = ["dinv(state)"]
    modifies = []
    raises = {}
    ensures = ["8 * result[0] + 7 - result[1] == dpos(state)", "0 <= result[1] and result[1] <= 7"]


@spec(IO + "is_end_of_stream")
class _is_end_of_stream:
    args = {"state": STATE}
    result = "bool"
    requires = ["dinv(state)"]
    modifies = []
    raises = {}
    ensures = ["result == (dpos(state) == nbits_total(state))"]


@spec(IO + "init_io")
class _init_io:
    args = {"state": STATE, "f": "file"}
    requires = ['not has(state, "_recorded_bytes")', "0 <= fpos(f) and fpos(f) <= flen(f)"]
    modifies = ['state["next_bit"]', 'state["current_byte"]', 'state["_file"]', "f.fpos"]
    raises = {}
    ensures = ["dinv(state)", 'state["_file"] == f', "dpos(state) == 8 * old(fpos(f))", "content(f) == old(content(f))", "flen(f) == old(flen(f))"]


# ---- native generators (replay / bounded stand-in) ------------------------------------------------


def gen_state(rng):
    import io
    from vc2_conformance.pseudocode.state import State
    from vc2_conformance.decoder import io as dio

    f = io.BytesIO(bytes(rng.choice([0, 0, 255, 128, 1, rng.randrange(256)]) for _ in range(rng.randint(0, 6))))
    state = State()
    dio.init_io(state, f)
    try:
        for _ in range(rng.randint(0, 12)):
            dio.read_bit(state)
        if rng.random() < 0.4:
            # a recording in progress (started at a byte boundary, as sequence_header does), some bits into it
            dio.byte_align(state)
            dio.record_bitstream_start(state)
            for _ in range(rng.randint(0, 20)):
                dio.read_bit(state)
    except Exception:
        pass
    if rng.random() < 0.6:
        state["bits_left"] = rng.randint(0, 30)
    return state


def gen_file(rng):
    import io

    f = io.BytesIO(bytes(rng.randrange(256) for _ in range(rng.randint(0, 5))))
    f.seek(rng.randint(0, len(f.getvalue())))
    return f


GENERATORS = {"dict:State": gen_state, "file": gen_file}


# ---- recording ---------------------------------------------------------------------------------------


@spec(IO + "record_bitstream_start")
class _rbs:
    args = {"state": STATE}
    requires = ["dinv(state)", 'state["next_bit"] == 7', 'not has(state, "_recorded_bytes")']
    modifies = ['state["_recorded_bytes"]']
    raises = {}
    ensures = ["dinv(state)", 'has(state, "_recorded_bytes")', 'length(state["_recorded_bytes"]) == 0', 'is_fresh(state["_recorded_bytes"])']


@spec(IO + "record_bitstream_finish")
class _rbf:
    args = {"state": STATE}
    result = "list:int"
    requires = ["dinv(state)", 'has(state, "_recorded_bytes")']
    modifies = ['state["_recorded_bytes"]', 'elems(state["_recorded_bytes"])', 'length(state["_recorded_bytes"])']
    raises = {}
    ensures = ["dinv(state)", 'not has(state, "_recorded_bytes")',
               # (docstring / C01 'byte-identical repeated sequence headers') the bytes read since the start of the recording; the bits of the
               # current byte that have not been read yet (next_bit and below) are zero in the last recorded byte
               'implies(state["next_bit"] == 7, length(result) == old(length(state["_recorded_bytes"])))',
               'implies(state["next_bit"] != 7, length(result) == old(length(state["_recorded_bytes"])) + 1 and '
               'content(result)[length(result) - 1] == (state["current_byte"] // pow2(state["next_bit"] + 1)) * pow2(state["next_bit"] + 1))',
               'forall(0, old(length(state["_recorded_bytes"])), lambda j: content(result)[j] == old(content(state["_recorded_bytes"]))[j], trigger=lambda j: content(result)[j])']
    ghost = {"entry": ['use("band_clear_low", state["current_byte"], state["next_bit"] + 1)']}
