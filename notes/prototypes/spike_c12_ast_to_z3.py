# throw-away spike: ast -> z3 for pure int functions with transparent inlining (C12)
import ast, z3, time, sys
SRC={}
def load(path):
    tree=ast.parse(open(path).read())
    for n in tree.body:
        if isinstance(n,ast.FunctionDef): SRC[n.name]=n
load('/repo/vc2_conformance/pseudocode/quantization.py'); load('/repo/vc2_conformance/pseudocode/vc2_math.py')
pow2=z3.Function('pow2',z3.IntSort(),z3.IntSort())
class Ret(Exception): pass
def fdiv(a,b): # python floor div, b may be symbolic nonzero; assume b>0 here (checked as obligation)
    return a/b
def ev(e,env,pc,obl):
    if isinstance(e,ast.Constant): return z3.IntVal(e.value) if isinstance(e.value,int) else e.value
    if isinstance(e,ast.Name): return env[e.id]
    if isinstance(e,ast.BinOp):
        a=ev(e.left,env,pc,obl); b=ev(e.right,env,pc,obl)
        if isinstance(e.op,ast.Add): return a+b
        if isinstance(e.op,ast.Sub): return a-b
        if isinstance(e.op,ast.Mult): return a*b
        if isinstance(e.op,ast.FloorDiv): obl.append((list(pc),b>0,'div>0')); return a/b
        if isinstance(e.op,ast.Mod): obl.append((list(pc),b>0,'mod>0')); return a%b
        if isinstance(e.op,ast.Pow):
            assert z3.is_int_value(a) and a.as_long()==2; return pow2(b)
    if isinstance(e,ast.UnaryOp) and isinstance(e.op,ast.USub): return -ev(e.operand,env,pc,obl)
    if isinstance(e,ast.Compare):
        a=ev(e.left,env,pc,obl); b=ev(e.comparators[0],env,pc,obl); op=e.ops[0]
        return {ast.Eq:lambda:a==b,ast.NotEq:lambda:a!=b,ast.Lt:lambda:a<b,ast.LtE:lambda:a<=b,ast.Gt:lambda:a>b,ast.GtE:lambda:a>=b}[type(op)]()
    if isinstance(e,ast.Call):
        fn=e.func.id; args=[ev(a,env,pc,obl) for a in e.args]
        if fn=='abs': return z3.If(args[0]>=0,args[0],-args[0])
        return call(fn,args,pc,obl)
    raise NotImplementedError(ast.dump(e))
def call(fn,args,pc,obl):
    f=SRC[fn]; env={a.arg:v for a,v in zip(f.args.args,args)}
    outs=[]  # (cond list, value)
    run(f.body,env,list(pc),obl,outs)
    # merge returns into ite
    res=None
    for cond,val in reversed(outs):
        c=z3.And(*cond) if cond else z3.BoolVal(True)
        res=val if res is None else z3.If(c,val,res)
    return res
def run(stmts,env,pc,obl,outs):
    for i,s in enumerate(stmts):
        if isinstance(s,ast.Expr): continue
        if isinstance(s,ast.Assign): env[s.targets[0].id]=ev(s.value,env,pc,obl)
        elif isinstance(s,ast.AugAssign):
            env[s.target.id]=ev(ast.BinOp(ast.Name(s.target.id,ast.Load()),s.op,s.value),env,pc,obl)
        elif isinstance(s,ast.Return): outs.append((list(pc),ev(s.value,env,pc,obl))); return True
        elif isinstance(s,ast.If):
            c=ev(s.test,env,pc,obl)
            e1=dict(env); e2=dict(env)
            r1=run(s.body,e1,pc+[c],obl,outs); r2=run(s.orelse,e2,pc+[z3.Not(c)],obl,outs) if s.orelse else False
            if r1 and r2: return True
            if r1: env.update(e2); pc.append(z3.Not(c))
            elif r2: env.update(e1); pc.append(c)
            else:
                for k in set(e1)|set(e2):
                    if k in e1 and k in e2: env[k]=z3.If(c,e1[k],e2[k])
        else: raise NotImplementedError(ast.dump(s))
    return False
k=z3.Int('k')
AX=[pow2(0)==1, z3.ForAll([k], z3.Implies(k>=0, z3.And(pow2(k)>=1, pow2(k+1)==2*pow2(k))), patterns=[pow2(k)])]
def prove(name,hyps,goal):
    s=z3.Solver(); s.set('timeout',20000); s.add(*AX); s.add(*hyps); s.add(z3.Not(goal))
    t=time.time(); r=s.check(); print(name,'PROVED' if r==z3.unsat else r,'%.2fs'%(time.time()-t))
    if r==z3.sat: print(s.model())
c,i=z3.Ints('c i'); obl=[]
q=call('forward_quant',[c,i],[],obl); r=call('inverse_quant',[q,i],[],obl); F=call('quant_factor',[i],[],obl)
absd=z3.If(r-c>=0,r-c,c-r)
pre=[i>=0]
for n,(pcs,g,what) in enumerate(obl): prove('safety#%d %s'%(n,what),pre+pcs,g)
prove('Q2 bound',pre,4*absd<F)
prove('Q2 sign',pre,z3.Or(r==0,z3.And(r>0,c>0),z3.And(r<0,c<0)))
prove('Q2 lossless0',pre+[i==0],r==c)
F1=call('quant_factor',[i+1],[],obl)
prove('Q1 mono',pre,z3.And(F>=4,F1>F))
