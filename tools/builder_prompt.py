#!/usr/bin/env python3
"""Prints the prompt given to a *builder* sub-agent that writes the bounded stand-in (native contract check) of one property.
usage: builder_prompt.py <PID> <module-file-name> [extra guidance...]"""
import json, sys, os
pid, modname = sys.argv[1], sys.argv[2]
extra = " ".join(sys.argv[3:])
for l in open('/verif/properties.jsonl'):
    p = json.loads(l)
    if p['id'] == pid:
        break
seeds = sorted(d for d in os.listdir('/verif/seeded') if d.startswith(pid + '-'))
print(f"""You are extending a verification framework that lives in /verif and checks semantic properties of the Python project bbc/vc2_conformance checked out at /repo (BBC's VC-2 / SMPTE ST 2042-1 conformance toolkit).

The framework's primary technique is contract-based deductive verification (a self-built verifier "pyvc": Python ast of the real functions -> verification conditions against sidecar contracts -> z3).  Functions that the verifier cannot reach get a *bounded stand-in*: the SAME kind of contract (precondition / postcondition written from the property statement) is checked natively, by calling the real function on every element of a stated finite domain (exhaustive small scope where possible, seeded sampling otherwise), and is always labelled "bounded", never "proved".  Your job is to write that bounded stand-in for ONE property.  Someone else works on the deductive part of the same property at the same time, so keep strictly to the files named below.

PROPERTY {pid}
  Title: {p['title']}
  Statement: {p['statement']}
  Quantified over: {p['quantifier']['text']}
  Why the project's tests cannot settle it: {p['why_tests_cant']}
  Anchors: {json.dumps(p['anchors'])}

WHAT TO BUILD
  One new module /verif/bounded/{modname} following /verif/bounded/README.md EXACTLY (read it first; then read /verif/bounded/c27_fixeddict.py and /verif/bounded/c20_bitarray_bytes.py as short examples and skim /verif/pyvc/runner.py class Report for the rep.* interface).  It must define REGISTER = {{"{pid}": dict(extra=[...hooks...], level="other", assumptions=[...], manifest=dict(category="other", technique=..., text=..., note=...))}}.
  - Split the property statement into its clauses; for every clause write an oracle/contract FROM THE STATEMENT (never by copying the code under check; an independent reference implementation written by you from the statement/the standard's pseudocode is fine) and check it by executing the real code over a stated domain.  Prefer exhaustive enumeration of a small scope; where you sample, derive all randomness from the `seed` argument and state the sample size.  Cover the unusual corners the statement's "Quantified over" text lists (they are where defects hide), not just typical inputs.
  - Each clause/domain => one rep.add_bounded(...) call with the MEASURED number of executions; ground facts over finite live tables => rep.add_eval_fact.  A failing case => rep.violation(name, payload) with inputs that make it reproducible (JSON-able).  Report at most ~3 violations per clause (then stop that clause).
  - Import the code under check only via `from pyvc import frontend; frontend.ensure_repo_on_path()` inside the hook, then normal imports of vc2_conformance (this lets VERIF_REPO=<scratch copy> redirect the check to a modified tree).
  - Never catch-and-ignore an exception from the code under check: an unexpected exception is a violation (if the statement forbids it) and otherwise a checker error; an expected, documented exception must be matched by class.
  - Budget: quick tier (tier == "quick") at most ~60 s wall on 16 cores (you may use multiprocessing with at most 8 workers; fork-safe, results aggregated in the parent), thorough tier at most ~10 min with a visibly larger domain.  Deterministic for a fixed seed.
  - The check MUST report nothing on the unchanged /repo (run it: cd /verif && VERIF_OUT=/var/tmp/out_{pid} ./verif check {pid} --tier quick ; exit code 0 and a HELD line).  If it does report something on the unchanged tree, work out which it is: (a) your oracle demands more than the statement says or misrepresents the code -> fix your oracle; (b) the real code genuinely violates the statement -> DO NOT hide, special-case or loosen it: keep the check as it is and tell me in your final report with the smallest failing input you can find and a 5-line standalone reproduction (I decide whether it is repaired in /repo or recorded as a known finding).
  ALWAYS pass VERIF_OUT=/var/tmp/out_{pid} (a scratch directory) when you run ./verif, so that you never write into /verif/evidence or /verif/replays.

HOW IT IS JUDGED
  The check must (1) hold on the unchanged tree, (2) detect realistic small changes to /repo that break the property while all of the project's own tests still pass, (3) never raise an alarm on code for which the property holds (no brittle assertions about incidental details such as exact error messages, object identity or internal attribute names unless the statement is about them).
  Known examples of such breaking changes for this property are kept in /verif/seeded/: {', '.join(seeds) if seeds else '(none yet)'} (patch.diff + demo.py + notes.md each).  Use them as test cases for your check, NOT as its specification: the real evaluation uses other, unseen changes of the same kind, so aim for broad coverage of the statement rather than for these particular patches.  To try one:  python3 /verif/tools/sweep_seeds.py --force <seed-id>   (it applies the patch to a scratch git worktree of /repo, runs ./verif check {pid} against it with VERIF_REPO, prints CAUGHT or not, and cleans up; it never touches /repo).  Also invent 3-5 small mutations of your own in a scratch worktree (git -C /repo worktree add --detach /var/tmp/wt_{pid}_b HEAD; edit there; cd /verif && VERIF_REPO=/var/tmp/wt_{pid}_b VERIF_OUT=/var/tmp/out_{pid} ./verif check {pid} --tier quick; afterwards git -C /repo worktree remove --force /var/tmp/wt_{pid}_b) and report which are caught.

RULES
  - Write ONLY /verif/bounded/{modname} (plus scratch files under /var/tmp, which you delete at the end).  Do not edit anything else under /verif (not pyvc/, props.py, MANIFEST.json, DESIGN.md, other bounded modules, evidence/, seeded/), do not run git commit anywhere, and never modify /repo (no edits, no `git apply` there).
  - The interpreter is /verif/.venv/bin/python (./verif wraps it); vc2_conformance and its dependencies (numpy, bitarray, ...) import there.  No network.  Other jobs share this 16-core machine: do not use more than 8 processes.
  - Keep the module readable: a docstring at the top listing clause -> oracle -> domain, and the bounds.
{extra}

FINAL REPORT (brief): clauses covered and their domains with measured counts and quick/thorough wall time; which seeded changes and which of your own mutations are caught / missed and why; anything on the unchanged tree that looks like a genuine defect (with reproduction); anything in the statement you could NOT cover.""")
