"""C14, bounded stand-in at the level where the overrides enter: make_picture_data_units (pictures and fragmented pictures).

The proofs in contracts/c14_encoder.py start at the coefficient arrays; what passes the requested minimum qindex, the minimum
slice_size_scaler and picture_bytes down to them (make_picture_data_units -> make_picture_parse_data_unit /
make_fragment_parse_data_units -> make_picture_parse -> make_transform_data_*) is outside the verified subset.  Here the real
make_picture_data_units is called on small configurations; the slices of the resulting data units are collected in raster order
and judged by the SAME whole-picture postconditions as the native part of the proofs (hq_lossy_picture_ok / ld_lossy_picture_ok of
contracts/c14_encoder.py, written from the statement): smallest fitting qindex not below the requested minimum, 8-bit length
fields, every slice's share of picture_bytes, HQ total within slice_size_scaler of picture_bytes, slice_size_scaler not below the
requested minimum.  The coefficient arrays the oracle works from come from the real transform_and_slice_picture (C04/C11's subject)."""
import random


def _cases(rng, tier):
    import vc2_data_tables as T

    n = 70 if tier == "quick" else 600
    # transform shapes for which a default quantisation matrix exists (the encoder needs one), small depths only
    shapes = sorted((int(a), int(b), c, e) for (a, b, c, e) in T.QUANTISATION_MATRICES if c <= 2 and e <= 2 and c + e <= 3)
    out = []
    for i in range(n):
        profile = rng.choice(["ld", "hq"])
        wi_, wih_, d, dh = rng.choice(shapes)
        sx, sy = rng.choice([(1, 1), (2, 1), (2, 2), (3, 2), (4, 1)])
        nsl = sx * sy
        out.append(dict(
            profile=profile, d=d, dh=dh, sx=sx, sy=sy, w=rng.choice([8, 12, 16]), h=rng.choice([4, 8]),
            wi=wi_, wih=wih_,
            frag=rng.choice([0, 0, 1, 2, nsl, nsl + 1]),
            minq=rng.choice([0, 0, 3, 13, 40]), mins=rng.choice([1, 1, 2, 3]),
            pb=rng.choice([nsl * k for k in (2, 5, 9, 24, 60)] + [nsl * 33 + 1, nsl * 700 + 3]),
            content=rng.choice(["noise", "flat", "extreme"]), seed=rng.randrange(1 << 30)))
    return out


def _picture(case):
    rng = random.Random(case["seed"])
    w, h = case["w"], case["h"]

    def plane(ww, hh):
        if case["content"] == "flat":
            return [[128] * ww for _ in range(hh)]
        if case["content"] == "extreme":
            return [[rng.choice([0, 255]) for _ in range(ww)] for _ in range(hh)]
        return [[rng.randrange(256) for _ in range(ww)] for _ in range(hh)]

    return {"Y": plane(w, h), "C1": plane(w // 2, h), "C2": plane(w // 2, h), "pic_num": 7}


def _features(case):
    import vc2_data_tables as T
    from vc2_conformance.codec_features import CodecFeatures
    from vc2_conformance.pseudocode.video_parameters import VideoParameters

    vp = VideoParameters(
        frame_width=case["w"], frame_height=case["h"], color_diff_format_index=T.ColorDifferenceSamplingFormats.color_4_2_2,
        source_sampling=T.SourceSamplingModes.progressive, top_field_first=True, frame_rate_numer=25, frame_rate_denom=1,
        pixel_aspect_ratio_numer=1, pixel_aspect_ratio_denom=1, clean_width=case["w"], clean_height=case["h"], left_offset=0, top_offset=0,
        luma_offset=0, luma_excursion=255, color_diff_offset=128, color_diff_excursion=255,
        color_primaries_index=T.PresetColorPrimaries.hdtv, color_matrix_index=T.PresetColorMatrices.hdtv, transfer_function_index=T.PresetTransferFunctions.tv_gamma)
    return CodecFeatures(
        name="c14", level=T.Levels.unconstrained, profile=T.Profiles.low_delay if case["profile"] == "ld" else T.Profiles.high_quality,
        picture_coding_mode=T.PictureCodingModes.pictures_are_frames, video_parameters=vp,
        wavelet_index=T.WaveletFilters(case["wi"]), wavelet_index_ho=T.WaveletFilters(case["wih"]), dwt_depth=case["d"], dwt_depth_ho=case["dh"],
        slices_x=case["sx"], slices_y=case["sy"], fragment_slice_count=case["frag"], lossless=False, picture_bytes=case["pb"], quantization_matrix=None)


def _collect(units, key):
    """(slices in stream order, slice parameters) of the picture carried by these data units."""
    slices, sp = [], None
    for u in units:
        if "picture_parse" in u:
            wt = u["picture_parse"]["wavelet_transform"]
            sp = wt["transform_parameters"]["slice_parameters"]
            slices.extend(wt["transform_data"][key])
        elif "fragment_parse" in u:
            fp = u["fragment_parse"]
            if "transform_parameters" in fp:
                sp = fp["transform_parameters"]["slice_parameters"]
            if "fragment_data" in fp:
                slices.extend(fp["fragment_data"][key])
    return slices, sp


def _one(case):
    from vc2_conformance.encoder import pictures as P
    from vc2_conformance.encoder.exceptions import InsufficientHQPictureBytesError, InsufficientLDPictureBytesError, MissingQuantizationMatrixError
    from contracts import c14_encoder as K

    try:
        cf = _features(case)
        pic = _picture(case)
        tc = P.transform_and_slice_picture(cf, pic)
    except MissingQuantizationMatrixError:
        return ("skip", "no default quantisation matrix")
    try:
        units = P.make_picture_data_units(cf, pic, minimum_qindex=case["minq"], minimum_slice_size_scaler=case["mins"])
    except (InsufficientHQPictureBytesError, InsufficientLDPictureBytesError):
        return ("skip", "picture_bytes too small")
    except Exception as e:  # the only documented refusal is 'picture_bytes too small': anything else means no slices were produced at all
        return ("fail", {"exception": "%s: %s" % (type(e).__name__, str(e)[:200])})
    if case["profile"] == "hq":
        slices, sp = _collect(units, "hq_slices")
        s = sp["slice_size_scaler"]
        ok = K.hq_lossy_picture_ok(case["pb"], tc, case["minq"], case["mins"], (s, {"hq_slices": slices}))
        return ("ok",) if ok else ("fail", {"scaler": s, "slices": [{k: (list(v) if isinstance(v, (list, tuple)) else v) for k, v in dict(x).items()} for x in slices[:4]]})
    slices, sp = _collect(units, "ld_slices")
    ok = K.ld_lossy_picture_ok(case["pb"], tc, case["minq"], {"ld_slices": slices})
    if ok and (sp["slice_bytes_numerator"] * 1.0 / sp["slice_bytes_denominator"]) * case["sx"] * case["sy"] != case["pb"]:
        ok = False  # the signalled slice size is the picture's share
    return ("ok",) if ok else ("fail", {"slice_parameters": dict(sp), "slices": [{k: (list(v) if isinstance(v, (list, tuple)) else v) for k, v in dict(x).items()} for x in slices[:4]]})


def check(rep, tier, seed):
    from pyvc import frontend

    frontend.ensure_repo_on_path()
    rng = random.Random(seed * 7919 + 11)
    cases = _cases(rng, tier)
    import multiprocessing as mp

    pool = mp.get_context("fork").Pool(6)
    try:
        # normally a few seconds; a change that makes the encoder loop forever (the qindex search has no upper bound) must not hang the check
        outs = pool.map_async(_one, cases, chunksize=4).get(timeout=300 if tier == "quick" else 1500)
    except mp.TimeoutError:
        pool.terminate()
        rep.extra_assumptions.append("NOT bounded-checked on this tree: make_picture_data_units did not return within the time limit on the seeded configurations "
                                     "(abandoned: undecided, not a verdict)")
        rep.add_bounded("make_picture_data_units on small configurations", "abandoned after the time limit: no result", 0, False)
        return
    finally:
        pool.terminate()
    ran = sum(1 for o in outs if o[0] != "skip")
    frag = sum(1 for c, o in zip(cases, outs) if o[0] != "skip" and c["frag"])
    over = sum(1 for c, o in zip(cases, outs) if o[0] != "skip" and (c["minq"] or c["mins"] > 1))
    nfail = 0
    for c, o in zip(cases, outs):
        if o[0] == "fail" and nfail < 3:
            nfail += 1
            rep.violation("data-units-%d" % nfail, {
                "what": "make_picture_data_units: the slices of the produced data units violate the lossy-coding clauses (smallest qindex not below the "
                        "requested minimum / 8-bit length fields / slice budgets / total size / minimum slice_size_scaler)",
                "inputs": {k: v for k, v in c.items()}, "observed": o[1],
                "reproduce": "bounded/c14_data_units.py: _one(case) with this case dictionary"})
    rep.add_bounded("make_picture_data_units on small configurations (both profiles, 5 depth shapes, 5 slice grids, fragmented or not, minimum qindex / scaler overrides, "
                    "picture_bytes from starved to generous)", "%d seeded configurations, %d encoded (%d fragmented, %d with an override)" % (len(cases), ran, frag, over), ran, False,
                    distinct=ran, samples=[cases[0]])
    if ran < len(cases) // 3:
        raise RuntimeError("C14 data-unit check: only %d of %d configurations could be encoded" % (ran, len(cases)))


REGISTER = {"C14": dict(extra=[check], assumptions=[
    "BOUNDED: the path from make_picture_data_units (where minimum_qindex / minimum_slice_size_scaler / picture_bytes enter) down to the verified packers is checked on "
    "seeded small configurations only, pictures and fragmented pictures (bounded/c14_data_units.py)"])}
