#!/bin/sh
# try_seed.sh <patch.diff> <PID>... : applies the patch to /repo, runs the quick checks, undoes it.
P="$1"; shift
[ -z "$(git -C /repo status --porcelain)" ] || { echo "/repo has uncommitted changes; refusing"; exit 2; }
git -C /repo apply "$P" || { echo "patch does not apply"; exit 2; }
for pid in "$@"; do
  (cd /verif && ./verif check "$pid" --tier quick 2>&1 | grep -E "VIOLATION|HELD|KNOWN|UNPROVED|CHECKER|obligation" | head -8; echo "exit=$?")
done
git -C /repo checkout -- . 
git -C /repo status --short | head -3
