import z3, time
z3.set_param("smt.mbqi", False)
I=z3.IntSort(); B=z3.BoolSort()
def check(name, hyps, goal, timeout=30000):
    s=z3.Solver(); s.set("timeout",timeout)
    for h in hyps: s.add(h)
    s.add(z3.Not(goal)); t=time.time(); r=s.check()
    print(name, "PROVED" if r==z3.unsat else r, "%.2fs"%(time.time()-t))
bit=z3.Function('bit',I,I)          # tape bit at absolute position
iv=z3.Function('iv',I,I,I)          # iv(p0,j): value after j (0,x) pairs starting at p0
p0,j,k=z3.Ints('p0 j k')
ax=[z3.ForAll([k], z3.And(bit(k)>=0,bit(k)<=1), patterns=[bit(k)]),
    z3.ForAll([p0], iv(p0,0)==1),
    z3.ForAll([p0,j], z3.Implies(j>=0, iv(p0,j+1)==2*iv(p0,j)+bit(p0+2*j+1)), patterns=[iv(p0,j+1)])]
# reader loop (decoder.read_uint): value=1; while read_bit()==0: value<<=1; if read_bit()==1: value+=1
P0,J,pos,value=z3.Ints('P0 J pos value')
def Inv(J,pos,value): return z3.And(J>=0,pos==P0+2*J,value==iv(P0,J), z3.ForAll([k], z3.Implies(z3.And(0<=k,k<J), bit(P0+2*k)==0), patterns=[bit(P0+2*k)]))
check("init", ax, Inv(0,P0,1))
# iteration: read bit at pos is 0 -> read next bit b -> value' = 2*value + b
check("step", ax+[Inv(J,pos,value), bit(pos)==0], Inv(J+1,pos+2,2*value+bit(pos+1)))
# exit: bit(pos)==1 -> result=value-1, pos'=pos+1 ; post: exists J characterisation
res=value-1
check("exit", ax+[Inv(J,pos,value), bit(pos)==1], z3.And(bit(P0+2*J)==1, res==iv(P0,J)-1, pos+1==P0+2*J+1))
# uniqueness of J: two characterisations agree
J1,J2=z3.Ints('J1 J2')
def Char(J): return z3.And(J>=0, bit(P0+2*J)==1, z3.ForAll([k], z3.Implies(z3.And(0<=k,k<J), bit(P0+2*k)==0), patterns=[bit(P0+2*k)]))
check("unique", ax+[Char(J1),Char(J2)], J1==J2)
# writer: for i in range(n-2,-1,-1): write 0; write bit_i(v+1). then write 1.   with n = bit_length(v+1)
shr=z3.Function('shr',I,I,I); bl=z3.Function('bl',I,I)
x,i=z3.Ints('x i')
axw=[z3.ForAll([x], z3.Implies(x>=1, z3.And(bl(x)>=1, shr(x,bl(x)-1)==1)), patterns=[bl(x)]),
     z3.ForAll([x], shr(x,0)==x, patterns=[shr(x,0)])]
# writer invariant after m pairs written (i = n-2-m+... ) : tape[P0+2k]=0, tape[P0+2k+1]=(shr(v1,n-2-k))%2 for k<m ; and iv(P0,m)==shr(v1,n-1-m)
v1,n,m=z3.Ints('v1 n m')
Wpost=z3.And(v1>=1,n==bl(v1), z3.ForAll([k], z3.Implies(z3.And(0<=k,k<n-1), z3.And(bit(P0+2*k)==0, bit(P0+2*k+1)==shr(v1,n-2-k)%2)), patterns=[bit(P0+2*k)]), bit(P0+2*(n-1))==1)
# lemma by induction on m: iv(P0,m)==shr(v1,n-1-m) for 0<=m<=n-1
check("rt-base", ax+axw+[Wpost], iv(P0,0)==shr(v1,n-1))
def shr_step(x,i): return z3.Implies(z3.And(x>=0,i>=0), z3.And(shr(x,i)>=0, shr(x,i)==2*shr(x,i+1)+(shr(x,i)%2)))
check("rt-step", ax+axw+[shr_step(v1,n-2-m), Wpost, 0<=m, m<n-1, iv(P0,m)==shr(v1,n-1-m)], iv(P0,m+1)==shr(v1,n-1-(m+1)))
# conclusion: reader char with J=n-1 gives result iv(P0,n-1)-1 == v1-1
check("rt-final", ax+axw+[Wpost, iv(P0,n-1)==shr(v1,0)], z3.And(Char(n-1), iv(P0,n-1)-1==v1-1))
