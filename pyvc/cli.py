import argparse
import json
import os
import sys
import time
import traceback

VERIF = os.path.dirname(os.path.dirname(os.path.abspath(__file__)))
sys.path.insert(0, VERIF)


def main():
    ap = argparse.ArgumentParser(prog="verif")
    sub = ap.add_subparsers(dest="cmd")
    c = sub.add_parser("check")
    c.add_argument("pid")
    c.add_argument("--tier", default=os.environ.get("VERIF_TIER", "quick"))
    r = sub.add_parser("replay")
    r.add_argument("path")
    s = sub.add_parser("selftest")
    s.add_argument("--only", default=None)
    a = ap.parse_args()
    if a.cmd == "check":
        sys.exit(check(a.pid, a.tier))
    if a.cmd == "replay":
        from pyvc import replay

        sys.exit(replay.main(a.path))
    if a.cmd == "selftest":
        from pyvc import selftest

        sys.exit(selftest.main(a.only))
    ap.print_help()
    sys.exit(3)


def check(pid, tier):
    t0 = time.time()
    seed = int(os.environ.get("VERIF_SEED", "0") or 0)
    if tier not in ("quick", "thorough"):
        tier = "quick"
    try:
        import props
        from pyvc import runner

        if pid in props.BROKEN:
            print("CHECKER-ERROR %s: %s" % (pid, props.BROKEN[pid]), file=sys.stderr)
            return 3
        if pid not in props.PROPS:
            print("CHECKER-ERROR unknown or unclaimed property %s" % pid, file=sys.stderr)
            return 3
        P = props.PROPS[pid]
        rep = runner.Report(pid, tier, seed)
        ulist = []
        if P.get("modules"):
            ulist = runner.run_deductive(rep, P["modules"], only=P.get("only_units"))
            runner.vacuity_checks(rep, ulist)
        for hook in P.get("extra", []):
            hook(rep, tier, seed)
        cmd = "./verif check %s --tier %s  (pyvc: ast of /repo source -> VCs -> z3 5.1 in a %d-process pool, cvc5 on unknown)" % (pid, tier, os.cpu_count() or 1)
        return runner.finish(rep, ulist, P.get("level", "proof"), P.get("coverage", {}), P.get("assumptions", []), cmd, t0)
    except Exception as e:
        traceback.print_exc()
        print("CHECKER-ERROR %s: %r" % (pid, e), file=sys.stderr)
        return 3


if __name__ == "__main__":
    main()
