"""C02 / C01: contracts for decoder/sequence_header.py, pseudocode/video_parameters.py and the
bitstream-recording helpers of decoder/io.py."""
from pyvc.api import *
from contracts.c02_common import *
from contracts.c02_stream import lcv_ok, FRAME_IO, IO_POST, is_parse_code  # noqa: F401
from vc2_conformance.decoder.exceptions import *  # noqa: F401,F403
from vc2_conformance.pseudocode.video_parameters import VideoParameters

SH = "vc2_conformance.decoder.sequence_header."
VPM = "vc2_conformance.pseudocode.video_parameters."
IO = "vc2_conformance.decoder.io."

VP_KEYS = list(VideoParameters.entry_objs.keys())


@inline
def vp_full(vp):
    return (has(vp, "frame_width") and has(vp, "frame_height") and has(vp, "color_diff_format_index") and has(vp, "source_sampling")
            and has(vp, "top_field_first") and has(vp, "frame_rate_numer") and has(vp, "frame_rate_denom")
            and has(vp, "pixel_aspect_ratio_numer") and has(vp, "pixel_aspect_ratio_denom") and has(vp, "clean_width")
            and has(vp, "clean_height") and has(vp, "left_offset") and has(vp, "top_offset") and has(vp, "luma_offset")
            and has(vp, "luma_excursion") and has(vp, "color_diff_offset") and has(vp, "color_diff_excursion")
            and has(vp, "color_primaries_index") and has(vp, "color_matrix_index") and has(vp, "transfer_function_index")
            and vp["luma_excursion"] >= 1 and vp["color_diff_excursion"] >= 1 and vp["frame_width"] >= 0 and vp["frame_height"] >= 0)


# what the explain() methods of these exceptions need of their constructor arguments (C02, second sentence): each converts the
# stored index with the preset enumeration (or looks it up in the preset table), which fails for a value outside it - so the
# index must have passed the 'defined preset' check before a version check may report it


def _members(enum_or_table):
    return " or ".join("a0 == %d" % int(m) for m in sorted(int(x) for x in enum_or_table))


from vc2_data_tables import (PRESET_FRAME_RATES, PresetSignalRanges, PresetColorSpecs, PresetColorPrimaries,  # noqa: E402
                             PresetColorMatrices, PresetTransferFunctions)

raise_requires(PresetFrameRateNotSupportedByVersion, _members(PRESET_FRAME_RATES), "explain() looks the index up in PRESET_FRAME_RATES")
raise_requires(PresetSignalRangeNotSupportedByVersion, _members(PresetSignalRanges), "explain() calls PresetSignalRanges(index)")
raise_requires(PresetColorSpecNotSupportedByVersion, _members(PresetColorSpecs), "explain() calls PresetColorSpecs(index)")
raise_requires(PresetColorPrimariesNotSupportedByVersion, _members(PresetColorPrimaries), "explain() calls PresetColorPrimaries(index)")
raise_requires(PresetColorMatrixNotSupportedByVersion, _members(PresetColorMatrices), "explain() calls PresetColorMatrices(index)")
raise_requires(PresetTransferFunctionNotSupportedByVersion, _members(PresetTransferFunctions), "explain() calls PresetTransferFunctions(index)")


# (record_bitstream_start / record_bitstream_finish: contracts in contracts/c20_decoder_io.py, with the rest of decoder/io.py)


# ---- video_parameters.py --------------------------------------------------------------------------------

transparent(VPM + "preset_color_primaries", VPM + "preset_color_matrix", VPM + "preset_transfer_function")


@spec(VPM + "set_source_defaults")
class _ssd:
    args = {"base_video_format": "int"}
    result = VP
    requires = ["0 <= base_video_format and base_video_format <= 22"]
    modifies = []
    raises = {}
    ensures = ["vp_full(result)", "is_fresh(result)"]


def _preset(name, keys, lo, hi):
    cls = type("_p_" + name, (), dict(
        args={"video_parameters": VP, "index": "int"},
        requires=["%d <= index and index <= %d" % (lo, hi), "vp_full(video_parameters)"],
        modifies=['video_parameters["%s"]' % k for k in keys],
        raises={},
        ensures=["vp_full(video_parameters)"],
    ))
    cls.__module__ = __name__
    spec(VPM + name)(cls)


_preset("preset_frame_rate", ["frame_rate_numer", "frame_rate_denom"], 1, 16)
_preset("preset_pixel_aspect_ratio", ["pixel_aspect_ratio_numer", "pixel_aspect_ratio_denom"], 1, 6)
_preset("preset_signal_range", ["luma_offset", "luma_excursion", "color_diff_offset", "color_diff_excursion"], 1, 8)
_preset("preset_color_spec", ["color_primaries_index", "color_matrix_index", "transfer_function_index"], 0, 7)

CODING_KEYS = ["luma_width", "luma_height", "color_diff_width", "color_diff_height", "luma_depth", "color_diff_depth"]


@inline
def coding_params_known(state):
    return (has(state, "luma_width") and has(state, "luma_height") and has(state, "color_diff_width") and has(state, "color_diff_height")
            and has(state, "luma_depth") and has(state, "color_diff_depth")
            and state["luma_width"] >= 0 and state["luma_height"] >= 0 and state["color_diff_width"] >= 0 and state["color_diff_height"] >= 0
            and state["luma_depth"] >= 1 and state["color_diff_depth"] >= 1)


@spec(VPM + "picture_dimensions")
class _pd:
    args = {"state": STATE, "video_parameters": VP}
    requires = ["vp_full(video_parameters)", 'has(state, "picture_coding_mode")']
    modifies = ['state["%s"]' % k for k in CODING_KEYS[:4]]
    raises = {}
    ensures = ['has(state, "luma_width") and has(state, "luma_height") and has(state, "color_diff_width") and has(state, "color_diff_height")',
               'state["luma_width"] >= 0 and state["luma_height"] >= 0 and state["color_diff_width"] >= 0 and state["color_diff_height"] >= 0']


@spec(VPM + "video_depth")
class _vd:
    args = {"state": STATE, "video_parameters": VP}
    requires = ["vp_full(video_parameters)"]
    modifies = ['state["luma_depth"]', 'state["color_diff_depth"]']
    raises = {}
    ensures = ['has(state, "luma_depth") and has(state, "color_diff_depth") and state["luma_depth"] >= 1 and state["color_diff_depth"] >= 1']
    ghost = {"entry": ['use("blen_def", video_parameters["luma_excursion"])', 'use("blen_def", video_parameters["color_diff_excursion"])']}


@spec(VPM + "set_coding_parameters")
class _scp:
    args = {"state": STATE, "video_parameters": VP}
    requires = ["vp_full(video_parameters)", 'has(state, "picture_coding_mode")']
    modifies = ['state["%s"]' % k for k in CODING_KEYS]
    raises = {}
    ensures = ["coding_params_known(state)"]


# ---- sequence_header.py ------------------------------------------------------------------------------------

HDR_MOD = FRAME_IO + ['state["_level_constrained_values"]', "state.g_lcv_level", 'state["_expected_major_version"]']
HDR_PRE = ["dinv(state)", 'has(state, "major_version")', "vp_full(video_parameters)", "lcv_ok(state)"]
HDR_POST = IO_POST + ["vp_full(video_parameters)", 'has(state, "_expected_major_version") == (old(has(state, "_expected_major_version")) or has(state, "_expected_major_version"))']


def _hdr(name, keys):
    cls = type("_h_" + name, (), dict(
        args={"state": STATE, "video_parameters": VP},
        requires=list(HDR_PRE),
        modifies=HDR_MOD + ['video_parameters["%s"]' % k for k in keys],
        raises={"ConformanceError": None},
        ensures=IO_POST + ["vp_full(video_parameters)", "lcv_ok(state)", 'implies(old(has(state, "_expected_major_version")), has(state, "_expected_major_version"))'],
    ))
    cls.__module__ = __name__
    spec(SH + name)(cls)


_hdr("frame_size", ["frame_width", "frame_height"])
_hdr("color_diff_sampling_format", ["color_diff_format_index"])
_hdr("scan_format", ["source_sampling"])
_hdr("frame_rate", ["frame_rate_numer", "frame_rate_denom"])
_hdr("pixel_aspect_ratio", ["pixel_aspect_ratio_numer", "pixel_aspect_ratio_denom"])
_hdr("clean_area", ["clean_width", "clean_height", "left_offset", "top_offset"])
_hdr("signal_range", ["luma_offset", "luma_excursion", "color_diff_offset", "color_diff_excursion"])
_hdr("color_primaries", ["color_primaries_index"])
_hdr("color_matrix", ["color_matrix_index"])
_hdr("transfer_function", ["transfer_function_index"])
_hdr("color_spec", ["color_primaries_index", "color_matrix_index", "transfer_function_index"])


@spec(SH + "source_parameters")
class _sp:
    args = {"state": STATE, "base_video_format": "int"}
    result = VP
    requires = ["dinv(state)", 'has(state, "major_version")', "0 <= base_video_format and base_video_format <= 22", "lcv_ok(state)"]
    modifies = HDR_MOD
    raises = {"ConformanceError": None}
    ensures = IO_POST + ["vp_full(result)", "is_fresh(result)", "lcv_ok(state)", 'implies(old(has(state, "_expected_major_version")), has(state, "_expected_major_version"))']


@spec(SH + "parse_parameters")
class _pp:
    args = {"state": STATE}
    requires = ["dinv(state)", 'has(state, "_generic_sequence_matcher")',
                'implies(has(state, "_level_sequence_matcher"), state["_level_sequence_matcher"] != state["_generic_sequence_matcher"])']
    modifies = HDR_MOD + ['state["major_version"]', 'state["minor_version"]', 'state["profile"]', 'state["level"]',
                          'state["_level_sequence_matcher"]']
    raises = {"ConformanceError": None}
    ensures = IO_POST + [
        'has(state, "major_version") and has(state, "minor_version") and has(state, "profile") and has(state, "level")',
        'has(state, "_level_sequence_matcher") and lcv_ok(state) and has(state, "_expected_major_version")',
        'state["major_version"] >= 1 and state["minor_version"] == 0 and (state["profile"] == 0 or state["profile"] == 3)',
        'state["_level_sequence_matcher"] != state["_generic_sequence_matcher"]',
        'implies(old(has(state, "_level_sequence_matcher")), state["_level_sequence_matcher"] == old(state["_level_sequence_matcher"]))',
        'implies(not old(has(state, "_level_sequence_matcher")), is_fresh(state["_level_sequence_matcher"]))',
    ]


@inline
def hdr_known(state):
    """A sequence header has been parsed in this sequence (everything later data units rely on)."""
    return (has(state, "major_version") and has(state, "minor_version") and has(state, "profile") and has(state, "level")
            and has(state, "_level_sequence_matcher") and lcv_ok(state) and has(state, "_expected_major_version")
            and state["major_version"] >= 1 and (state["profile"] == 0 or state["profile"] == 3)
            and has(state, "picture_coding_mode") and (state["picture_coding_mode"] == 0 or state["picture_coding_mode"] == 1)
            and coding_params_known(state)
            and state["luma_width"] >= 1 and state["luma_height"] >= 1 and state["color_diff_width"] >= 1 and state["color_diff_height"] >= 1
            and has(state, "_last_sequence_header_bytes") and has(state, "_last_sequence_header_offset"))


@spec(SH + "sequence_header")
class _seq_hdr:
    args = {"state": STATE}
    result = VP
    requires = ["dinv(state)", 'state["next_bit"] == 7', 'not has(state, "_recorded_bytes")', 'has(state, "_generic_sequence_matcher")',
                'implies(has(state, "_level_sequence_matcher"), state["_level_sequence_matcher"] != state["_generic_sequence_matcher"])',
                'has(state, "_last_sequence_header_bytes") == has(state, "_last_sequence_header_offset")']
    modifies = HDR_MOD + ['state["major_version"]', 'state["minor_version"]', 'state["profile"]', 'state["level"]',
                          'state["_level_sequence_matcher"]', 'state["picture_coding_mode"]', 'state["_recorded_bytes"]',
                          'state["_last_sequence_header_bytes"]', 'state["_last_sequence_header_offset"]'] + ['state["%s"]' % k for k in CODING_KEYS]
    raises = {"ConformanceError": None}
    ensures = ["dinv(state)", 'not has(state, "_recorded_bytes")', "hdr_known(state)", "vp_full(result)",
               'state["_level_sequence_matcher"] != state["_generic_sequence_matcher"]',
               'implies(old(has(state, "_level_sequence_matcher")), state["_level_sequence_matcher"] == old(state["_level_sequence_matcher"]))',
               'implies(not old(has(state, "_level_sequence_matcher")), is_fresh(state["_level_sequence_matcher"]))']
    SAME_BYTES = ("a repeated sequence header returns normally only if its recorded bytes equal the previous header's bytes "
                  "(SequenceHeaderChangedMidSequence otherwise); parsing is a deterministic function of those bytes, so every value read "
                  "is the same as before.  This is a relational (two-run) fact that a per-call contract cannot prove.")
    assumed_ensures = [
        ('implies(old(has(state, "_last_sequence_header_bytes")) and old(has(state, "profile")), state["profile"] == old(state["profile"]) '
         'and state["major_version"] == old(state["major_version"]) and state["level"] == old(state["level"]))', SAME_BYTES),
        ('implies(old(has(state, "_last_sequence_header_bytes")) and old(has(state, "luma_width")), state["luma_width"] == old(state["luma_width"]) '
         'and state["luma_height"] == old(state["luma_height"]) and state["color_diff_width"] == old(state["color_diff_width"]) '
         'and state["color_diff_height"] == old(state["color_diff_height"]) and state["luma_depth"] == old(state["luma_depth"]) '
         'and state["color_diff_depth"] == old(state["color_diff_depth"]) and state["picture_coding_mode"] == old(state["picture_coding_mode"]))', SAME_BYTES),
    ]


from contracts.c02_corpus import MONITOR_DRIVER  # noqa: E402,F401  (native fallback: run-time monitoring over corpus streams)
