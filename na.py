"""Reasons for properties not claimed (kept current by hand; see DESIGN.md section 6)."""
REASONS = {
    "C05": "same pipeline plus ~20 test-case generators mutating description trees; equality of decoded pictures across two pipeline runs is relational over whole programs, not a per-call contract",
    "C16": "quantifies over arbitrary level tables swapped into module globals and relates the encoder's search through them to the validator's incremental checks; both programs are outside the subset and no function-level contract relates the two",
    "C24": "schedules, processes and hash seeds: concurrency and environment, not call contracts; this family has no handle on it",
}
