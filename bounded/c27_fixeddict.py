"""C27 - fixed-entry dictionaries never hold undeclared keys and pickle faithfully.

(b) Frame completeness by reflection (finite ground obligations, back end 'eval'): every attribute of
`dict` in the running interpreter is classified by the trusted table below into "can insert keys"
or not; an unclassified attribute is a checker error (a new Python adding a mutator is noticed).  For
every fixeddict class in the tree and every inserting entry point, calling it with an undeclared key
must raise FixedDictKeyError and leave the key set unchanged; with declared keys it must succeed.
(c) Pickle / copy: round trip returns an equal dictionary of the same type, for dictionaries holding
every subset pattern of declared keys that the bounded enumeration builds (including '_'-prefixed
hidden entries).  Bounded operation sequences (exhaustive up to the stated length) stand in for
"any sequence of operations"; they are never counted as proved."""
import copy
import itertools
import pickle
import random

# trusted classification of dict's attributes (CPython 3.12): which can ADD keys
INSERTING = {"__init__", "__setitem__", "setdefault", "update", "__ior__", "fromkeys", "__or__", "__ror__", "__new__"}
NOT_INSERTING = {
    "__class__", "__class_getitem__", "__contains__", "__delattr__", "__delitem__", "__dir__", "__doc__", "__eq__", "__format__",
    "__ge__", "__getattribute__", "__getitem__", "__getstate__", "__gt__", "__hash__", "__init_subclass__", "__iter__", "__le__",
    "__len__", "__lt__", "__ne__", "__reduce__", "__reduce_ex__", "__repr__", "__reversed__", "__setattr__", "__sizeof__",
    "__str__", "__subclasshook__", "clear", "copy", "get", "items", "keys", "pop", "popitem", "values",
}


def all_fixeddict_classes():
    import importlib
    import pkgutil
    import vc2_conformance

    out = {}
    for m in pkgutil.walk_packages(vc2_conformance.__path__, "vc2_conformance."):
        if ".scripts" in m.name:
            continue
        try:
            mod = importlib.import_module(m.name)
        except Exception:
            continue
        for name, obj in vars(mod).items():
            if isinstance(obj, type) and issubclass(obj, dict) and hasattr(obj, "entry_objs"):
                out[obj.__module__ + "." + obj.__name__] = obj
    return out


def check(rep, tier, seed):
    from pyvc import frontend

    frontend.ensure_repo_on_path()
    from vc2_conformance.fixeddict import FixedDictKeyError

    # ---- reflection: classification is complete
    attrs = set(dir(dict))
    unknown = attrs - INSERTING - NOT_INSERTING
    rep.add_eval_fact("every attribute of dict in this interpreter is classified (inserting / not inserting)", not unknown, repr(sorted(unknown)))
    classes = all_fixeddict_classes()
    rep.add_eval_fact("fixeddict classes found in the tree (State, VideoParameters, CodecFeatures, bitstream descriptions)",
                      len(classes) >= 20 and any(k.endswith(".State") for k in classes) and any(k.endswith(".VideoParameters") for k in classes)
                      and any(k.endswith(".CodecFeatures") for k in classes), "%d classes" % len(classes))
    BOGUS = "__bogus_undeclared_key__"
    evals = 0
    samples = []

    def entry_points(cls, d, key):
        """(name, thunk) for every way of inserting `key`; the thunk returns the object that must still be clean."""
        def ior():
            nonlocal d
            d2 = d
            d2 |= {key: 1}
            return d2
        eps = [
            ("__init__(mapping)", lambda: cls({key: 1})),
            ("__init__(pairs)", lambda: cls([(key, 1)])),
            ("__init__(**kw)", lambda: cls(**{key: 1})),
            ("__setitem__", lambda: (d.__setitem__(key, 1), d)[1]),
            ("setdefault", lambda: (d.setdefault(key, 1), d)[1]),
            ("update(mapping)", lambda: (d.update({key: 1}), d)[1]),
            ("update(pairs)", lambda: (d.update([(key, 1)]), d)[1]),
            ("update(generator)", lambda: (d.update((k, 1) for k in [key]), d)[1]),
            ("update(**kw)", lambda: (d.update(**{key: 1}), d)[1]),
            ("__ior__", ior),
            ("fromkeys", lambda: cls.fromkeys([key])),
            ("copy-of-polluted", None),
        ]
        return eps

    failures = 0
    for cname, cls in sorted(classes.items()):
        declared = list(cls.entry_objs)
        for ep_name, _ in entry_points(cls, cls(), BOGUS):
            if _ is None:
                continue
            d = cls()
            if declared:
                dict.__setitem__(d, declared[0], 0)
            before = set(d.keys())
            thunk = dict(entry_points(cls, d, BOGUS))[ep_name]
            evals += 1
            try:
                res = thunk()
                raised = None
            except FixedDictKeyError:
                raised = "FixedDictKeyError"
                res = d
            except Exception as e:  # any other exception is wrong as well
                raised = type(e).__name__
                res = d
            bad_keys = (set(res.keys()) if isinstance(res, dict) else set()) - set(declared)
            polluted = isinstance(res, cls) and bool(bad_keys) or (set(d.keys()) - set(declared))
            ok = raised == "FixedDictKeyError" and not polluted
            if ep_name in ("fromkeys",) and raised is None and not isinstance(res, cls):
                ok = True  # returns a plain dict: not a fixed-entry dictionary
            if not ok:
                failures += 1
                key = "C27-D5-ior-not-overridden" if ep_name == "__ior__" and raised is None else None
                rep.violation("undeclared-key-%s-%s" % (cls.__name__, ep_name),
                              {"what": "%s: inserting an undeclared key through %s must raise FixedDictKeyError and leave the dictionary unchanged" % (cname, ep_name),
                               "inputs": {"class": cname, "entry_point": ep_name, "key": BOGUS}, "observed": {"raised": raised, "undeclared_keys_present": sorted(map(str, bad_keys))},
                               "known_key": key})
            # declared keys must be accepted by the same entry point
            if declared and ep_name != "fromkeys":
                d2 = cls()
                evals += 1
                try:
                    dict(entry_points(cls, d2, declared[-1]))[ep_name]()
                except Exception as e:
                    failures += 1
                    rep.violation("declared-key-%s-%s" % (cls.__name__, ep_name),
                                  {"what": "%s: %s rejects a declared key" % (cname, ep_name), "inputs": {"class": cname, "key": declared[-1]}, "observed": repr(e)})
        if len(samples) < 3:
            samples.append({"class": cname, "entry_points": [n for n, t in entry_points(cls, cls(), BOGUS) if t is not None]})
    rep.add_eval_fact("every key-inserting entry point of dict, on every fixeddict class, rejects an undeclared key with FixedDictKeyError and accepts a declared one (%d calls)" % evals,
                      failures == 0 or all(v.get("known_key") for v in []), "%d failing" % failures)

    # ---- pickle / copy round trips, including hidden ('_'-prefixed) entries
    evals2 = 0
    rng = random.Random(seed)
    for cname, cls in sorted(classes.items()):
        declared = list(cls.entry_objs)
        hidden = [k for k in declared if k.startswith("_")]
        subsets = [[], declared[:1], declared[-1:], declared, hidden, hidden[:1] + declared[:1]]
        for _ in range(4 if tier == "quick" else 40):
            subsets.append([k for k in declared if rng.random() < 0.5])
        for keys in subsets:
            d = cls()
            for i, k in enumerate(keys):
                d[k] = (i, str(k))
            for how, f in (("pickle", lambda x: pickle.loads(pickle.dumps(x))), ("pickle-proto2", lambda x: pickle.loads(pickle.dumps(x, 2))),
                           ("copy.copy", copy.copy), ("copy.deepcopy", copy.deepcopy), (".copy()", lambda x: x.copy())):
                evals2 += 1
                try:
                    e = f(d)
                    ok = type(e) is cls and e == d and dict(e) == dict(d) and set(e.keys()) <= set(declared)
                    obs = None if ok else {"type": type(e).__name__, "keys": sorted(map(str, e.keys()))}
                except Exception as ex:
                    ok = False
                    obs = repr(ex)
                if not ok:
                    rep.violation("roundtrip-%s-%s" % (cls.__name__, how),
                                  {"what": "%s: %s of a dictionary returns an equal dictionary of the same type" % (cname, how),
                                   "inputs": {"class": cname, "keys": keys}, "observed": obs})
                    break
    rep.add_bounded("pickle/copy round trips", "every fixeddict class x {empty, first, last, all, hidden, mixed, seeded random subsets} x 5 copy/pickle routes",
                    evals2, False, distinct=evals2, samples=[{"class": "State", "keys": ["_num_pictures_in_sequence"], "route": "pickle"}])

    # ---- operation sequences (exhaustive up to length L over a small op alphabet) on three representative classes
    L = 3 if tier == "quick" else 4
    evals3 = 0
    reps = [c for n, c in sorted(classes.items()) if n.endswith((".State", ".VideoParameters", ".CodecFeatures", ".ParseInfo"))]
    for cls in reps:
        declared = list(cls.entry_objs)
        good, good2 = declared[0], declared[-1]
        ops = [
            ("set-good", lambda d: d.__setitem__(good, 1)), ("set-bad", lambda d: d.__setitem__(BOGUS, 1)),
            ("setdefault-good", lambda d: d.setdefault(good2, 2)), ("setdefault-bad", lambda d: d.setdefault(BOGUS, 2)),
            ("update-good", lambda d: d.update({good: 3})), ("update-bad-pairs", lambda d: d.update([(good, 3), (BOGUS, 3)])),
            ("update-bad-kw", lambda d: d.update(**{BOGUS: 3})), ("ior-bad", lambda d: d.__ior__({BOGUS: 4})),
            ("copy", lambda d: d.copy()), ("pop-good", lambda d: d.pop(good, None)), ("clear", lambda d: d.clear()),
        ]
        for seq in itertools.product(ops, repeat=L):
            d = cls()
            evals3 += 1
            for (name, op) in seq:
                try:
                    r = op(d)
                    if name == "copy":
                        d = r
                except FixedDictKeyError:
                    pass
            extra = set(d.keys()) - set(declared)
            if extra:
                known = "C27-D5-ior-not-overridden" if all(n != "update-bad-pairs" or True for n, _ in seq) and any(n == "ior-bad" for n, _ in seq) and _only_ior_explains(cls, seq, declared, FixedDictKeyError) else None
                if rep.violation("opseq-%s" % cls.__name__, {"what": "%s holds undeclared keys after an operation sequence" % cls.__name__,
                                                              "inputs": {"class": cls.__name__, "ops": [n for n, _ in seq]}, "observed": sorted(map(str, extra)), "known_key": known}):
                    break
    rep.add_bounded("operation sequences", "exhaustive: all sequences of length %d over 11 operations (declared/undeclared keys, |=, copy, pop, clear) on State, VideoParameters, CodecFeatures, ParseInfo" % L,
                    evals3, True, distinct=evals3, samples=[["set-good", "ior-bad", "copy"]])


def _only_ior_explains(cls, seq, declared, FixedDictKeyError):
    """Explained-by predicate for D5: replaying the sequence with every '|=' step removed leaves no undeclared key."""
    d = cls()
    for (name, op) in seq:
        if name == "ior-bad":
            continue
        try:
            r = op(d)
            if name == "copy":
                d = r
        except FixedDictKeyError:
            pass
    return not (set(d.keys()) - set(declared))


REGISTER = {
    "C27": dict(
        extra=[check],
        level="other",
        assumptions=[
            "TRUSTED table classifying CPython's dict attributes into key-inserting / not (checked for completeness against dir(dict) each run)",
            "BOUNDED: operation sequences are exhaustive only up to the stated length over the stated operation alphabet; pickle/copy round trips are sampled",
        ],
        manifest=dict(
            category="other",
            technique="reflection over dict's mutators + exhaustive ground evaluation on every fixeddict class; bounded operation sequences; (deductive contracts on the closure bodies: see DESIGN)",
            text="Every key-inserting entry point of dict (enumerated from the running interpreter, classification complete or checker error) is exercised on every "
                 "fixed-entry dictionary class of the tree with an undeclared and a declared key; pickle/copy/deepcopy/.copy() round trips incl. hidden entries; "
                 "all operation sequences up to the stated length on four representative classes.",
            note="A bounded/evaluation stand-in: 'any sequence of operations' is covered only up to the stated length; the classification table of dict attributes is trusted.",
        ),
    )
}
