"""Runs the check of one property: generate obligations from /repo's current source, discharge,
triage failures (replay on the real code / bounded search), write evidence, print the verdict."""
import importlib
import json
import os
import sys
import time
import traceback

import z3

from . import api, frontend, native, solve, units
from .symexec import LEMMAS, selfcheck_lemmas

VERIF = os.path.dirname(os.path.dirname(os.path.abspath(__file__)))

ENGINE_ASSUMPTIONS = [
    "Python semantics assumed by the encoding: parameters have the types the contract declares (no TypeError from ill-typed arguments); "
    "left-to-right evaluation; int is unbounded (mathematical integers, exact); // and % are floor division/modulo; "
    "objects are mutated only by the verified code during a call",
    "pyvc's VC generator itself (guarded by the mutation self-test and by replaying every counter-model on the real code)",
    "z3 5.1 / cvc5 1.0.3 soundness for 'unsat' answers",
    "termination is not proved (partial correctness); recursion depth, time and memory are not modelled",
    "extraction drops docstrings/comments, the identity decorator @ref_pseudocode (checked natively each run to return its argument unchanged) "
    "and the values of exception-constructor arguments (their sub-expressions are still checked for safety)",
]


class Report(object):
    def __init__(self, pid, tier, seed):
        self.pid = pid
        self.tier = tier
        self.seed = seed
        self.lines = []
        self.violations = []  # dicts
        self.known = []
        self.unproved = []
        self.units = []
        self.results = {}
        self.bounded = []
        self.extra_assumptions = []
        self.extra_coverage = {}
        self.eval_facts = []  # ground facts discharged by evaluation

    def say(self, s):
        print(s)
        sys.stdout.flush()
        self.lines.append(s)

    # ---- interface for bounded / evaluation checks (props.PROPS[pid]["extra"] hooks) -------------
    def add_bounded(self, name, domain, evaluations, exhaustive, distinct=None, samples=None, note=None):
        """Record a bounded stand-in check (never counted as proved)."""
        self.bounded.append({"check": name, "domain": domain, "evaluations": int(evaluations), "exhaustive": bool(exhaustive),
                             "distinct_nontrivial": distinct, "samples": samples or [], "note": note})

    def add_eval_fact(self, name, ok, detail=""):
        """A ground fact over a finite live table, discharged by evaluation in CPython (back end 'eval')."""
        self.eval_facts.append({"fact": name, "ok": bool(ok), "detail": detail})

    def violation(self, name, payload, replayed=True):
        """Report a violation found by a bounded/evaluation check unless a committed known finding explains it.
        payload: JSON-able dict with at least 'what' and 'inputs'; it may carry 'known_key' (string) which is
        matched against known_findings.json entries {"property","kind":"known","id","key","what"}."""
        for k in load_known():
            if k.get("property") == self.pid and k.get("kind") == "known" and k.get("key") and k.get("key") == payload.get("known_key"):
                if k["id"] not in self.known:
                    self.known.append(k["id"])
                    self.say("KNOWN-FINDING: property=%s %s" % (self.pid, k["what"]))
                return False
        path = write_replay(self, name, payload)
        v = dict(payload)
        v["replay"] = path
        v["replayed"] = replayed
        self.violations.append(v)
        self.say("VIOLATION property=%s replay=%s%s" % (self.pid, path, "" if replayed else " no-failing-input-found"))
        return True


def load_known():
    p = os.path.join(VERIF, "known_findings.json")
    if not os.path.exists(p):
        return []
    with open(p) as f:
        return json.load(f).get("findings", [])


def tree_identity():
    import subprocess

    try:
        head = subprocess.run(["git", "-C", frontend.REPO, "rev-parse", "HEAD"], capture_output=True, text=True).stdout.strip()
        dirty = subprocess.run(["git", "-C", frontend.REPO, "status", "--porcelain"], capture_output=True, text=True).stdout.strip().split("\n")
        return {"head": head, "dirty": [d for d in dirty if d]}
    except Exception:
        return {"head": "?", "dirty": []}


def out_root():
    """Where evidence/ and replays/ are written: /verif, unless VERIF_OUT names a scratch directory (used by
    tools/try_seed.sh so that experiments on a deliberately broken tree never overwrite the committed evidence)."""
    return os.environ.get("VERIF_OUT") or VERIF


def write_replay(rep, name, payload):
    d = os.path.join(out_root(), "replays")
    os.makedirs(d, exist_ok=True)
    safe = "".join(c if c.isalnum() or c in "._-" else "_" for c in name)[:120]
    path = os.path.join(d, "%s-%s.json" % (rep.pid, safe))
    payload = dict(payload)
    payload["property"] = rep.pid
    payload["tree"] = tree_identity()
    with open(path, "w") as f:
        json.dump(payload, f, indent=1, default=str)
    return path


def model_values(model, unit):
    """Concrete values of the unit's symbolic inputs under a z3 model."""
    out = {}
    for (pn, sv) in unit.params:
        out[pn] = decode_sv(model, sv, unit)
    return out


def decode_sv(model, sv, unit, depth=0):
    ev = lambda t: model.eval(t, model_completion=True)
    if sv.k == "int":
        return ev(sv.z).as_long()
    if sv.k == "bool":
        return z3.is_true(ev(sv.z))
    if sv.k == "none":
        return None
    if sv.k == "optint":
        return None if z3.is_true(ev(sv.z[0])) else ev(sv.z[1]).as_long()
    if sv.k == "str":
        sid = ev(sv.z).as_long()
        for s, i in unit.ctx.strs.items():
            if 1000 + list(unit.ctx.strs).index(s) == sid:
                return s
        return "<str#%d>" % sid
    if sv.k == "tuple":
        return tuple(decode_sv(model, x, unit, depth) for x in sv.z)
    if sv.k == "ref":
        from .heapdecode import decode_ref

        return decode_ref(model, sv, unit, depth)
    return "<%s>" % sv.k


def triage_failure(rep, unit, obl, res):
    """An obligation with a sat answer.  Returns a violation dict (or None if it turns out undecided)."""
    # re-solve in-process to get a model object over the original terms
    s = z3.Solver()
    s.set("timeout", 30000)
    for h in obl.hyps:
        s.add(h)
    s.add(z3.Not(obl.goal))
    inputs = None
    model_text = res.get("model_text", "")
    try:
        if s.check() == z3.sat:
            m = s.model()
            # apply the same ground refinement quickly
            inputs = model_values(m, unit)
            model_text = str(m)[:6000]
    except Exception as e:
        model_text += "\n(model decoding failed: %r)" % (e,)
    replayed = None
    if inputs is not None:
        replayed = replay_inputs(unit, inputs)
    v = {
        "obligation": obl.id,
        "unit": unit.unit,
        "kind": obl.kind,
        "clause": obl.text,
        "line": obl.lineno,
        "solver": res.get("solver"),
        "model": model_text,
        "inputs": inputs,
    }
    if replayed is not None and replayed.get("fail"):
        v["replayed"] = True
        v["native"] = replayed["fail"]
        return v
    # the counter-model does not reproduce natively: search the unit's native contract
    found = bounded_unit(unit, rep.seed, seconds=15.0)
    if found and found.get("fail"):
        v["replayed"] = True
        v["native"] = found["fail"]
        v["inputs"] = found["fail"].get("inputs")
        v["note"] = "solver's model did not replay; failing input found by bounded search of the same contract"
        return v
    v["replayed"] = False
    v["bounded_search"] = {k: found.get(k) for k in ("ran", "evaluations", "domain", "reason")} if found else None
    return v


def replay_inputs(unit, inputs):
    if unit.kind == "lemma":
        lem = unit.lemma
        args = [inputs[p] for (p, _) in lem.params]
        if any(isinstance(a, str) and a.startswith("<") for a in args):
            return None
        f = native.run_lemma(lem, args)
        return {"fail": f.as_dict() if f else None}
    if unit.kind == "function":
        from .nativefn import run_contract

        try:
            f = run_contract(unit.contract, inputs)
        except Exception as e:
            return {"fail": None, "error": repr(e)}
        return {"fail": f.as_dict() if f else None}
    return None


def bounded_unit(unit, seed, seconds=15.0):
    """Native stand-in for a unit whose obligations are undecided; runs in a guarded child process (time and memory limits)."""
    if unit.kind == "lemma":
        return native.guarded(_bl, (unit.lemma, seed, seconds), seconds)
    if unit.kind == "function":
        return native.guarded(_bc, (unit.contract, seed, seconds), seconds)
    return None


def _bl(lem, seed, seconds):
    return native.bounded_lemma(lem, seed, seconds=seconds)


def _bc(contract, seed, seconds):
    from .nativefn import bounded_contract

    try:
        return bounded_contract(contract, seed, seconds=seconds)
    except Exception as e:
        return {"ran": False, "reason": "bounded runner error %r" % (e,), "evaluations": 0, "fail": None}


def matches_known(known, pid, v):
    for k in known:
        if k.get("property") != pid or k.get("kind") != "known":
            continue
        if k.get("obligation_prefix") and not v["obligation"].startswith(k["obligation_prefix"]):
            continue
        if k.get("unit") and k["unit"] != v["unit"]:
            continue
        if k.get("clause_contains") and k["clause_contains"] not in v["clause"]:
            continue
        if k.get("line_text"):
            # the source line the obligation sits on must contain this text (robust to line shifts)
            if k["line_text"] not in v.get("source_line", ""):
                continue
        return k
    return None


def source_line(unit, lineno):
    try:
        if unit.kind == "function" and unit.src is not None:
            with open(unit.src.path) as f:
                return f.read().split("\n")[lineno - 1].strip()
        if unit.kind == "lemma":
            with open(unit.lemma.path) as f:
                return f.read().split("\n")[lineno - 1].strip()
    except Exception:
        pass
    return ""


class LightObl(object):
    """What the parent process keeps of an obligation discharged in a worker."""

    def __init__(self, oid, kind, text, lineno, tail):
        self.id, self.kind, self.text, self.lineno, self._tail = oid, kind, text, lineno, tail

    def to_smt2(self):
        return self._tail


class LightUnit(object):
    pass


def _build_unit(reg, pid, desc):
    kind, name, fixed = desc[:3]
    if kind == "lemma":
        lem = reg.lemmas[name]
        u = units.verify_lemma(reg, lem, pid + "/")
        u.lemma = lem
    else:
        c = reg.contracts[name]
        u = units.verify_function(reg, c, pid + "/", fixed)
        u.contract = c
    return u


def _unit_worker(args):
    """Runs in a forked worker: generate the unit's VCs from the real source, discharge them, check vacuity."""
    pid, desc = args
    t0 = time.time()
    reg = api.REG
    reg.used_transparent = set()
    reg.used_contracts = set()
    try:
        u = _build_unit(reg, pid, desc)
    except Exception as e:  # engine crash on this unit: reported as a checker error by the parent
        return {"desc": desc, "crash": "%r\n%s" % (e, traceback.format_exc()[-1500:])}
    gen_s = time.time() - t0
    from .symexec import is_nonlinear

    # phase 1: trivially true goals are closed by simplification; the others are first tried on ONE incremental
    # solver per unit (hypotheses of an obligation are a prefix of the unit's fact list plus its path condition, so
    # the facts are asserted once, in order, and each obligation is a push/check/pop).  Whatever that does not
    # prove within a short budget is written out as SMT-LIB text for the fresh-solver portfolio of phase 2.
    results = {}
    pending = []
    scratch = os.environ["PYVC_SCRATCH"]
    part, nparts = desc[3] if len(desc) > 3 else (0, 1)
    inc = z3.Solver()
    inc.set("timeout", 1500)
    inc.set("smt.mbqi", False)
    nfacts = 0
    facts = u.ctx.facts if u.ctx is not None else []
    for n, o in enumerate(u.obls):
        if n % nparts != part:
            continue
        g = z3.simplify(o.goal)
        if z3.is_true(g):
            results[o.id] = {"id": o.id, "status": "unsat", "solver": "simplify", "seconds": 0.0, "model": {}, "rounds": 0, "reason": ""}
            continue
        k = o.nfacts
        t1 = time.time()
        r = z3.unknown
        prefix_ok = k <= len(facts) and (k == 0 or o.hyps[k - 1].eq(facts[k - 1])) and (k < 2 or o.hyps[k // 2].eq(facts[k // 2]))
        if k >= nfacts and prefix_ok:
            for h in facts[nfacts:k]:
                inc.add(h)
            nfacts = k
            inc.push()
            for h in o.hyps[k:]:
                inc.add(h)
            inc.add(z3.Not(o.goal))
            try:
                r = inc.check()
            except z3.Z3Exception:
                r = z3.unknown
            inc.pop()
        if r == z3.unsat:
            results[o.id] = {"id": o.id, "status": "unsat", "solver": "z3-" + z3.get_version_string() + " (incremental)", "seconds": time.time() - t1,
                             "model": {}, "rounds": 0, "reason": ""}
            continue
        base = os.path.join(scratch, "%d_%d" % (os.getpid(), abs(hash(o.id)) % (10 ** 12)))
        with open(base + ".full.smt2", "w") as f:
            f.write(o.to_smt2())
        lin = None
        if any(is_nonlinear(h) for h in o.hyps) and not is_nonlinear(o.goal):
            lin = base + ".lin.smt2"
            with open(lin, "w") as f:
                f.write(o.to_smt2(linear_only=True))
        pending.append((o.id, lin, base + ".full.smt2"))
    vac = None
    finals = [o for o in u.obls if o.kind in ("ensures", "post", "assert")]
    if finals and not u.error:
        o = finals[-1]
        s = z3.Solver()
        s.set("timeout", 5000)
        for h in o.hyps:
            s.add(h)
        vac = (o.id, str(s.check()))
    sample = None
    if u.obls:
        o = u.obls[len(u.obls) // 2]
        sample = (o.id, o.to_smt2()[-700:])
    return {
        "desc": desc, "unit": u.unit, "kind": u.kind, "error": u.error, "notes": list(u.notes), "used_lemmas": sorted(u.used_lemmas),
        "src": (list(u.src.lines), u.src.sha, u.src.path) if getattr(u, "src", None) is not None else None,
        "obls": [(o.id, o.kind, o.text, o.lineno) for o in u.obls], "results": results, "pending": pending, "vacuity": vac, "sample": sample,
        "used_transparent": sorted(reg.used_transparent), "used_contracts": sorted(reg.used_contracts), "gen_s": gen_s, "phase1_s": time.time() - t0,
    }


def _pool_init(modules, scratch, verif_repo):
    """Worker initialiser (spawned interpreters): import the tree under check and the sidecar modules."""
    os.environ["PYVC_SCRATCH"] = scratch
    if verif_repo:
        os.environ["VERIF_REPO"] = verif_repo
    import pyvc  # noqa: F401  (installs the engine extensions)

    frontend.ensure_repo_on_path()
    for m in modules:
        importlib.import_module("contracts." + m)


def _obl_worker(args):
    oid, lin, full = args
    def rd(p):
        with open(p) as f:
            return f.read()
    r = solve._job((oid, (rd(lin) if lin else None, rd(full)), (), None))
    return r


RACE_MAX = int(os.environ.get("PYVC_RACE_MAX", "24"))
SPLIT_HINT = ("ld_slice", "hq_slice", "parse_sequence", "fragment_parse", "fragment_data", "transform_data", "wavelet_transform", "picture_parse")
COST_HINT = ("ld_slice", "hq_slice", "parse_sequence", "slice_band", "color_diff_slice_band", "fragment_parse", "fragment_data", "transform_data",
             "slice_quantizers", "quant_matrix", "S1_", "S3_")


def run_deductive(rep, modules, only=None):
    """Generates and discharges all obligations of the lemmas/contracts defined in the sidecar modules.
    One worker process per unit (VC generation, SMT, vacuity check); failing units are rebuilt in the parent for triage."""
    import multiprocessing as mp

    t0 = time.time()
    frontend.ensure_repo_on_path()
    frontend.check_identity_decorators()
    ngrid = selfcheck_lemmas()
    mods = [importlib.import_module("contracts." + m) for m in modules]
    modnames = set(m.__name__ for m in mods)
    reg = api.REG
    descs = []
    for name, lem in reg.lemmas.items():
        if lem.modname in modnames and (only is None or name in only):
            descs.append(("lemma", name, None))
    for fq, c in reg.contracts.items():
        if c.sidecar in modnames and not c.trusted and not getattr(c, "bounded_only", None) and (only is None or c.short in only):
            if getattr(c, "arg_cases", None):
                for i in range(len(c.arg_cases)):
                    descs.append(("function", fq, {"__case__": i}))
            elif c.split_on:
                import itertools

                for combo in itertools.product(*[c.str_domains[p] for p in c.split_on]):
                    descs.append(("function", fq, dict(zip(c.split_on, combo))))
            else:
                descs.append(("function", fq, None))
    if not descs:
        raise CheckerError("no verification units selected")
    order = sorted(range(len(descs)), key=lambda i: (0 if any(h in descs[i][1] for h in COST_HINT) else 1, i))
    jobs = int(os.environ.get("PYVC_JOBS", str(os.cpu_count() or 4)))
    work = []
    for i in order:
        nparts = 1
        for part in range(nparts):
            work.append((rep.pid, descs[i] + ((part, nparts),)))
    import shutil
    import tempfile

    scratch = tempfile.mkdtemp(prefix="pyvc_")
    os.environ["PYVC_SCRATCH"] = scratch
    try:
        ctxmp = mp.get_context(os.environ.get("PYVC_MP", "fork"))
        with ctxmp.Pool(max(1, min(jobs, len(work))), initializer=_pool_init, initargs=(list(modules), scratch, os.environ.get("VERIF_REPO"))) as pool:
            outs = pool.map(_unit_worker, work, chunksize=1)
        pend = [p for o in outs if "crash" not in o for p in o["pending"]]
        rep.gen_wall = time.time() - t0
        if os.environ.get("PYVC_PROFILE"):
            for o in sorted([o for o in outs if "crash" not in o], key=lambda o: -o["phase1_s"])[:12]:
                print("PROFILE phase1 %.1fs gen %.1fs obls %d pending %d %s" % (o["phase1_s"], o["gen_s"], len(o["obls"]), len(o["pending"]), o["unit"]))
            print("PROFILE phase1 wall %.1fs, pending %d" % (rep.gen_wall, len(pend)))
        solved = {}
        if pend:
            with ctxmp.Pool(max(1, min(jobs, len(pend)))) as pool:
                for r in pool.imap_unordered(_obl_worker, pend, chunksize=4):
                    solved[r["id"]] = r
        # phase 3: obligations the sequential portfolio left undecided are raced on further seeds with a longer budget,
        # all cores in parallel (instantiation order is seed-sensitive; this keeps verdicts from flipping under load).
        und = [p for p in pend if solved[p[0]]["status"] == "unknown"][:RACE_MAX]
        if und:
            races = [(oid, full, seed) for (oid, lin, full) in und for seed in solve.RACE_SEEDS]
            with ctxmp.Pool(max(1, min(jobs, len(races)))) as pool:
                for r in pool.imap_unordered(solve.race_job, races, chunksize=1):
                    if r["status"] == "unsat" and solved[r["id"]]["status"] == "unknown":
                        r["seconds"] += solved[r["id"]].get("seconds", 0.0)
                        solved[r["id"]] = r
        for o in outs:
            if "crash" not in o:
                for (oid, lin, full) in o["pending"]:
                    o["results"][oid] = solved[oid]
    finally:
        shutil.rmtree(scratch, ignore_errors=True)
    by_desc = {}
    for o in outs:
        key = repr(tuple(o["desc"][:3]))
        if "crash" in o or key not in by_desc:
            by_desc[key] = o
        elif "crash" not in by_desc[key]:
            by_desc[key]["results"].update(o["results"])
            by_desc[key]["gen_s"] += o["gen_s"]
    ulist = []
    gen_total = 0.0
    for d in descs:
        o = by_desc[repr(tuple(d))]
        if "crash" in o:
            raise CheckerError("engine crash on %r: %s" % (d, o["crash"]))
        gen_total += o["gen_s"]
        failing = [oid for oid, r in o["results"].items() if r["status"] != "unsat"]
        if failing or o["error"]:
            # rebuild in the parent: triage needs the z3 terms (ids and names are deterministic)
            u = _build_unit(reg, rep.pid, d)
            ids = set(x.id for x in u.obls)
            if ids != set(o["results"]):
                raise CheckerError("non-deterministic obligation ids for %r" % (d,))
        else:
            u = LightUnit()
            u.unit, u.kind, u.error, u.notes, u.used_lemmas = o["unit"], o["kind"], o["error"], o["notes"], set(o["used_lemmas"])
            u.obls = [LightObl(oid, k, t, ln, (o["sample"][1] if o["sample"] and o["sample"][0] == oid else "")) for (oid, k, t, ln) in o["obls"]]
            if d[0] == "lemma":
                u.lemma = reg.lemmas[d[1]]
            else:
                u.contract = reg.contracts[d[1]]
                fs = LightUnit()
                if o["src"]:
                    fs.lines, fs.sha, fs.path = tuple(o["src"][0]), o["src"][1], o["src"][2]
                    u.src = fs
                else:
                    u.src = None
        u.vac = o["vacuity"]
        rep.results.update(o["results"])
        reg.used_transparent |= set(o["used_transparent"])
        reg.used_contracts |= set(o["used_contracts"])
        if not u.error and not u.obls:
            raise CheckerError("unit %s generated zero obligations" % u.unit)
        ulist.append(u)
    rep.units.extend(ulist)
    rep.gen_s = gen_total
    rep.ngrid = ngrid
    rep.pool_wall = time.time() - t0
    return ulist


class CheckerError(Exception):
    pass


def vacuity_checks(rep, ulist):
    """requires satisfiable + canary: the hypotheses reaching an exit of each unit must not be contradictory
    (computed in the workers; 'unknown' is tolerated and recorded)."""
    notes = []
    for u in ulist:
        v = getattr(u, "vac", None)
        if v is None:
            continue
        if v[1] == "unsat":
            # contradictory hypotheses at an exit.  If every obligation of the unit is discharged this would be a vacuous 'proof' (a contract or
            # axiom problem: checker error).  If the unit has undischarged obligations anyway (e.g. an invariant that no longer holds on entry
            # because the code changed) the contradiction is a consequence of that failure and the unit is simply not proved.
            failing = [o.id for o in u.obls if rep.results.get(o.id, {}).get("status") != "unsat"]
            if not failing and not u.error:
                raise CheckerError("vacuity: hypotheses of %s are contradictory (precondition/axioms/invariants unsatisfiable)" % v[0])
            notes.append((u.unit, "contradictory hypotheses at an exit, explained by %d undischarged obligation(s) of the same unit" % len(failing)))
            continue
        notes.append((u.unit, v[1]))
    rep.vacuity = notes


def finish(rep, ulist, level_if_all, coverage_extra, assumptions, checker_cmd, t_start):
    known = load_known()
    obls = [(u, o) for u in ulist for o in u.obls]
    n_obl = len(obls)
    discharged = 0
    by_backend = {}
    solver_s = 0.0
    max_s = 0.0
    failures = []
    for (u, o) in obls:
        r = rep.results[o.id]
        solver_s += r.get("seconds", 0.0)
        max_s = max(max_s, r.get("seconds", 0.0))
        if r["status"] == "unsat":
            discharged += 1
            by_backend[r["solver"]] = by_backend.get(r["solver"], 0) + 1
        else:
            failures.append((u, o, r))
    exit_code = 1 if rep.violations else 0
    for f in rep.eval_facts:
        if not f["ok"]:
            rep.violation("eval-" + f["fact"], {"what": "ground fact false: " + f["fact"], "inputs": f["detail"]})
            exit_code = 1
    # units outside the subset: undecided -> bounded stand-in
    for u in ulist:
        if u.error:
            b = bounded_unit(u, rep.seed)
            rep.unproved.append({"unit": u.unit, "reason": "out of subset: " + u.error, "bounded": _strip(b)})
            if b and b.get("fail"):
                path = write_replay(rep, u.unit, {"unit": u.unit, "reason": "unit outside the verified subset; bounded native check of its contract fails", "native": b["fail"]})
                rep.violations.append({"unit": u.unit, "replay": path, "replayed": True})
                rep.say("VIOLATION property=%s replay=%s" % (rep.pid, path))
                exit_code = 1
            else:
                rep.say("UNPROVED unit=%s reason=%s bounded-check=%s" % (u.unit, u.error, "passed" if b and b.get("ran") else "not-run"))
    seen_known = set()
    for (u, o, r) in failures:
        if r["status"] == "sat":
            v = triage_failure(rep, u, o, r)
            v["source_line"] = source_line(u, o.lineno)
            k = matches_known(known, rep.pid, v)
            if k is not None:
                if k["id"] not in seen_known:
                    seen_known.add(k["id"])
                    rep.known.append(k["id"])
                    rep.say("KNOWN-FINDING: property=%s %s" % (rep.pid, k["what"]))
                continue
            is_inv = o.kind.startswith("loop") and o.kind.endswith((".init", ".preserve"))
            broken_structure = any(x.kind.startswith("loop") and x.kind.endswith((".init", ".preserve")) and rep.results[x.id]["status"] != "unsat" for x in u.obls)
            if not v.get("replayed") and (is_inv or broken_structure):
                # A loop invariant is a proof artifact, not a clause of the property: a counter-model for its initialisation or preservation
                # that neither replays on the real code nor is confirmed by the native search of the function's contract says that THIS
                # invariant does not fit THIS loop any more (e.g. a for loop rewritten as a while loop with another counter convention) -
                # the proof is lost, nothing is shown to be wrong.  Undecided, like a solver 'unknown'.
                # The same holds for the other obligations of a unit one of whose loop invariants is not established: what is derived after that
                # loop rests on an invariant that no longer describes it, so their counter-models are artefacts of the lost proof.
                why = ("loop invariant no longer established" if is_inv else "a loop invariant of this function is no longer established, so this counter-model "
                       "is an artefact of the lost proof")
                rep.unproved.append({"obligation": o.id, "clause": o.text, "reason": why + "; the counter-model does not replay on the real code and the native search "
                                     "of the contract found no failing input", "bounded": _strip(v.get("bounded_search"))})
                rep.say("UNPROVED obligation=%s reason=%s (counter-model does not replay) bounded-check=%s"
                        % (o.id, why[:60], "passed" if (v.get("bounded_search") or {}).get("ran") else "not-run"))
                continue
            path = write_replay(rep, o.id, v)
            v["replay"] = path
            rep.violations.append(v)
            if v.get("replayed"):
                rep.say("VIOLATION property=%s replay=%s" % (rep.pid, path))
            else:
                rep.say("VIOLATION property=%s replay=%s no-failing-input-found" % (rep.pid, path))
            rep.say("  obligation %s: %s" % (o.id, o.text))
            exit_code = 1
        else:
            b = bounded_unit(u, rep.seed, seconds=10.0)
            rep.unproved.append({"obligation": o.id, "clause": o.text, "reason": r.get("reason", r["status"]), "bounded": _strip(b)})
            if b and b.get("fail"):
                path = write_replay(rep, o.id, {"obligation": o.id, "clause": o.text, "solver": "undecided: " + str(r.get("reason")), "native": b["fail"]})
                rep.violations.append({"obligation": o.id, "replay": path, "replayed": True})
                rep.say("VIOLATION property=%s replay=%s" % (rep.pid, path))
                exit_code = 1
            else:
                rep.say("UNPROVED obligation=%s reason=%s bounded-check=%s" % (o.id, str(r.get("reason"))[:80], "passed" if b and b.get("ran") else "not-run"))
    all_proved = discharged == n_obl and not any(u.error for u in ulist)
    level = level_if_all if (all_proved or rep.known and not rep.unproved) else "other"
    if level == "proof" and n_obl + len(rep.eval_facts) == 0:
        level = "other"
    samples = []
    for (u, o) in obls[:: max(1, n_obl // 6)][:6]:
        samples.append({"obligation": o.id, "clause": o.text, "kind": o.kind, "source_line": o.lineno,
                        "answer": rep.results[o.id]["status"], "solver": rep.results[o.id]["solver"],
                        "smt2_head": o.to_smt2()[-700:]})
    fn_units = [u for u in ulist if u.kind == "function"]
    cov = {
        "obligations": n_obl + len(rep.eval_facts),
        "discharged": discharged + sum(1 for f in rep.eval_facts if f["ok"]),
        "checker_cmd": checker_cmd,
        "trusted_base": ["CPython 3.12", "z3 5.1.0", "cvc5 1.0.3 (fallback on unknown)", "pyvc VC generator (/verif/pyvc)"],
        "by_backend": dict(by_backend, **({"eval": sum(1 for f in rep.eval_facts if f["ok"])} if rep.eval_facts else {})),
        "solver_seconds_total": round(solver_s, 3),
        "solver_seconds_max": round(max_s, 3),
        "vc_generation_seconds": round(getattr(rep, "gen_s", 0.0), 3),
        "slowest_obligations": [{"obligation": o.id, "seconds": round(rep.results[o.id].get("seconds", 0.0), 2), "solver": rep.results[o.id].get("solver")}
                                for (u, o) in sorted(obls, key=lambda uo: -rep.results[uo[1].id].get("seconds", 0.0))[:10]],
        "functions_under_contract": [
            {"function": u.contract.fq, "lines": list(u.src.lines) if u.src else None, "sha": u.src.sha if u.src else None,
             "obligations": len(u.obls), "error": u.error} for u in fn_units],
        "lemmas": [{"lemma": u.lemma.name, "obligations": len(u.obls), "error": u.error, "ground_lemmas_used": sorted(u.used_lemmas)} for u in ulist if u.kind == "lemma"],
        "transparent_functions_inlined_from_real_source": sorted(api.REG.used_transparent),
        "callee_contracts_used": sorted(api.REG.used_contracts),
        "ground_lemma_grid_points_checked_natively": getattr(rep, "ngrid", 0),
        "vacuity": getattr(rep, "vacuity", []),
        "unproved": rep.unproved,
        "known_findings_matched": rep.known,
        "bounded_checks": rep.bounded,
        "evaluations": sum(b["evaluations"] for b in rep.bounded) or None,
        "distinct_nontrivial": sum((b.get("distinct_nontrivial") or 0) for b in rep.bounded) or None,
        "exhaustive": bool(rep.bounded) and all(b["exhaustive"] for b in rep.bounded) and n_obl == 0,
        "eval_facts": rep.eval_facts,
        "samples": samples,
        "explanation": "deductive verification of the real source: each listed function/lemma was turned into verification conditions from "
                       "/repo's current working tree and every condition was sent to an SMT solver; 'discharged' counts unsat answers",
    }
    cov = {k: v for k, v in cov.items() if v is not None}
    if n_obl == 0:
        cov["samples"] = [x for b in rep.bounded for x in (b.get("samples") or [])][:8] or [b["check"] for b in rep.bounded]
    cov.update(coverage_extra or {})
    cov.update(rep.extra_coverage)
    trusted = [c for c in api.REG.contracts.values() if c.trusted and c.fq in api.REG.used_contracts]
    ass = list(ENGINE_ASSUMPTIONS) + list(assumptions or []) + list(rep.extra_assumptions)
    for c in trusted:
        ass.append("TRUSTED contract (body not verified): %s - %s" % (c.fq, c.trusted))
    for u in ulist:
        for n in u.notes:
            ass.append("%s: %s" % (u.unit, n))
    used = sorted(set(l for u in ulist for l in u.used_lemmas))
    if used:
        ass.append("ground lemmas about pow2/div/mod/bit_length used as axioms (each evaluated natively on a grid every run): " + ", ".join(used))
    ev = {
        "property_id": rep.pid,
        "tier": rep.tier,
        "seed": rep.seed,
        "level": level,
        "coverage": cov,
        "assumptions": ass,
        "wall_s": round(time.time() - t_start, 2),
        "violations": len(rep.violations),
    }
    os.makedirs(os.path.join(out_root(), "evidence"), exist_ok=True)
    with open(os.path.join(out_root(), "evidence", rep.pid + ".json"), "w") as f:
        json.dump(ev, f, indent=1, default=str)
    if exit_code == 0:
        rep.say("HELD property=%s obligations=%d discharged=%d unproved=%d known-findings=%d level=%s wall=%.1fs" % (
            rep.pid, cov["obligations"], cov["discharged"], len(rep.unproved), len(rep.known), level, time.time() - t_start))
    return exit_code


def _strip(b):
    if not b:
        return None
    return {k: v for k, v in b.items() if k in ("ran", "evaluations", "domain", "reason", "fail")}
