"""C06 - deserialise -> serialise reproduces the bytes: stability of the fixed-width primitives, as lemmas over the
*verified* contracts of the real reader and writer (C20: BitstreamReader.read_nbits returns bitsval(tape, pos, n);
BitstreamWriter.write_nbits(n, v) raises OutOfRangeError iff v < 0 or v.bit_length() > n and otherwise leaves a view with
bitsval(view, pos, n) == v).  read_uint_lit / read_bool / read_bytes / read_bitarray are the same primitive at other widths.

  no_out_of_range   the value a reader returns for n >= 0 bits is never rejected by the writer for the same n
  bits_reproduced   a writer view whose n bits at p have the value the reader returned holds exactly the bits that were read
  negative_width    for n < 0 the reader returns 0 and consumes nothing - and the writer REJECTS (0, n): the two only agree
                    if no negative width ever reaches them (this is the defect class D3; see known_findings.json)
"""
from pyvc.api import *
from contracts.c20_common import *  # noqa: F401,F403
from contracts import c20_lemmas  # noqa: F401

PROPERTY = "C06"


@inline
def are_bits(c, p, n):
    return forall(p, p + n, lambda q: 0 <= tbit(c, q) and tbit(c, q) <= 1, trigger=lambda q: tbit(c, q))


@lemma
def bitsval_range(c: "array", p: int, n: int):
    """n bits make a value in [0, 2**n)."""
    requires(n >= 0 and are_bits(c, p, n))
    ensures(0 <= bitsval(c, p, n) and bitsval(c, p, n) < pow2(n))
    decreases(n)
    unfold(bitsval, c, p, n)
    use("pow2_small", n)
    if n > 0:
        bitsval_range(c, p, n - 1)
        use("pow2_step", n - 1)


@lemma
def no_out_of_range(c: "array", p: int, n: int):
    """What read_nbits(n) returns is accepted by write_nbits(n, .): it is >= 0 and has at most n bits (n >= 0)."""
    requires(n >= 0 and are_bits(c, p, n))
    bitsval_range(c, p, n)
    use("blen_bound", bitsval(c, p, n), n)
    assert bitsval(c, p, n) >= 0 and blen(bitsval(c, p, n)) <= n, "C06.no-out-of-range"


@lemma
def bits_reproduced(c: "array", w: "array", p: int, n: int):
    """Equal n-bit values at the same position mean equal bits: writing back the value read reproduces the bits read."""
    requires(n >= 0 and are_bits(c, p, n) and are_bits(w, p, n))
    requires(bitsval(w, p, n) == bitsval(c, p, n))
    ensures(forall(p, p + n, lambda q: tbit(w, q) == tbit(c, q), trigger=lambda q: tbit(w, q)))
    decreases(n)
    unfold(bitsval, c, p, n)
    unfold(bitsval, w, p, n)
    if n > 0:
        bits_reproduced(c, w, p, n - 1)


@lemma
def negative_width_reads_nothing(c: "array", p: int, n: int):
    """For a negative width the reader's value is 0 (and, by read_nbits's contract, the position does not move)."""
    requires(n < 0)
    unfold(bitsval, c, p, n)
    assert bitsval(c, p, n) == 0 and imax0(n) == 0, "C06.negative-width-reads-nothing"
    use("blen_def", 0)
    # ... while write_nbits(n, 0) raises OutOfRangeError, because blen(0) == 0 > n: the primitives disagree for n < 0
    assert blen(0) > n, "C06.writer-rejects-negative-width"


# ---- unsigned exp-Golomb: a terminating code is determined by the value it decodes to ----------------------------------
# iscode(c, p, k) == 1: at p the tape holds k (0, x) pairs followed by a 1 - a complete code.  dv: the value of its k data bits.


@specfun
def iscode(c: "array", p, k):
    return ((1 if tbit(c, p) == 1 else 0) if k <= 0
            else (1 if (tbit(c, p) == 0 and 0 <= tbit(c, p + 1) and tbit(c, p + 1) <= 1 and iscode(c, p + 2, k - 1) == 1) else 0))


@specfun
def dv(c: "array", p, k):
    """Value of the k data bits of the code at p (first data bit most significant)."""
    return 0 if k <= 0 else tbit(c, p + 1) * pow2(k - 1) + dv(c, p + 2, k - 1)


@lemma
def dv_range(c: "array", p: int, k: int):
    requires(k >= 0 and iscode(c, p, k) == 1)
    ensures(0 <= dv(c, p, k) and dv(c, p, k) < pow2(k))
    decreases(k)
    unfold(dv, c, p, k)
    unfold(iscode, c, p, k)
    use("pow2_small", k)
    if k > 0:
        dv_range(c, p + 2, k - 1)
        use("pow2_step", k - 1)


@lemma
def ue_closed_form(c: "array", p: int, k: int, acc: int):
    """Decoding a code with k pairs from accumulator acc gives acc * 2**k + data - 1 and ends right after the final 1."""
    requires(k >= 0 and iscode(c, p, k) == 1)
    ensures(ue_val(c, p, acc) == acc * pow2(k) + dv(c, p, k) - 1)
    ensures(ue_end(c, p) == p + 2 * k + 1)
    decreases(k)
    unfold(ue_val, c, p, acc)
    unfold(ue_end, c, p)
    unfold(dv, c, p, k)
    unfold(iscode, c, p, k)
    use("pow2_small", k)
    if k > 0:
        ue_closed_form(c, p + 2, k - 1, 2 * acc + tbit(c, p + 1))
        use("pow2_step", k - 1)


@lemma
def ue_pairs_from_value(c: "array", p: int, k: int):
    """The number of pairs of a code is fixed by its value: k == bit_length(value + 1) - 1, so write_uint emits as many bits
    as were read (exp_golomb_length(value) == 2*k + 1)."""
    requires(k >= 0 and iscode(c, p, k) == 1)
    ensures(ue_val(c, p, 1) >= 0 and blen(ue_val(c, p, 1) + 1) == k + 1)
    ue_closed_form(c, p, k, 1)
    dv_range(c, p, k)
    use("pow2_small", k)
    use("pow2_step", k)
    use("blen_bound", ue_val(c, p, 1) + 1, k + 1)
    use("blen_bound", ue_val(c, p, 1) + 1, k)


@lemma
def code_bits_from_data(c: "array", w: "array", p: int, k: int):
    """Two complete codes with the same number of pairs and the same data value are the same bits."""
    requires(k >= 0 and iscode(c, p, k) == 1 and iscode(w, p, k) == 1 and dv(c, p, k) == dv(w, p, k))
    ensures(forall(p, p + 2 * k + 1, lambda q: tbit(w, q) == tbit(c, q), trigger=lambda q: tbit(w, q)))
    decreases(k)
    unfold(iscode, c, p, k)
    unfold(iscode, w, p, k)
    unfold(dv, c, p, k)
    unfold(dv, w, p, k)
    if k > 0:
        dv_range(c, p + 2, k - 1)
        dv_range(w, p + 2, k - 1)
        use("pow2_small", k - 1)
        code_bits_from_data(c, w, p + 2, k - 1)


@lemma
def uint_bits_reproduced(c: "array", w: "array", p: int, kc: int, kw: int):
    """read_uint then write_uint: if the tape holds a complete code at p and the writer's view holds a complete code at p
    that decodes to the same value (which is what write_uint's contract says of the value read_uint returned), then the view
    holds exactly the bits that were read, and both codes end at the same position."""
    requires(kc >= 0 and iscode(c, p, kc) == 1 and kw >= 0 and iscode(w, p, kw) == 1)
    requires(ue_val(w, p, 1) == ue_val(c, p, 1))
    ensures(kc == kw and ue_end(c, p) == ue_end(w, p))
    ensures(forall(p, p + 2 * kc + 1, lambda q: tbit(w, q) == tbit(c, q), trigger=lambda q: tbit(w, q)))
    ue_pairs_from_value(c, p, kc)
    ue_pairs_from_value(w, p, kw)
    ue_closed_form(c, p, kc, 1)
    ue_closed_form(w, p, kw, 1)
    code_bits_from_data(c, w, p, kc)


@lemma
def pairs_then_code(c: "array", p: int, V: int, n: int, k: int, m: int):
    """k leading (0, x) pairs (as write_uint's contract describes them) followed by a complete code of m pairs form a complete code."""
    requires(V >= 1 and n == blen(V) and 0 <= k and k <= n - 1 and m >= 0)
    requires(pairs_ok(c, p, V, n, k) == 1 and iscode(c, p + 2 * k, m) == 1)
    ensures(iscode(c, p, k + m) == 1)
    decreases(k)
    unfold(pairs_ok, c, p, V, n, k)
    if k > 0:
        use("bitof_def", V, n - 1 - k)
        unfold(iscode, c, p + 2 * (k - 1), m + 1)
        pairs_then_code(c, p, V, n, k - 1, m + 1)


@lemma
def written_uint_is_a_code(w: "array", p: int, v: int):
    """What write_uint(v) leaves in the writer's view (its postcondition ue_pattern) is a complete code with bit_length(v+1)-1 pairs."""
    requires(v >= 0 and ue_pattern(w, p, v))
    ensures(iscode(w, p, blen(v + 1) - 1) == 1)
    use("blen_def", v + 1)
    unfold(iscode, w, p + 2 * (blen(v + 1) - 1), 0)
    pairs_then_code(w, p, v + 1, blen(v + 1), blen(v + 1) - 1, 0)


@lemma
def stability_uint(c: "array", w: "array", p: int, k: int):
    """C06 for unsigned exp-Golomb fields (outside bounded blocks): the tape holds a complete code at p; read_uint returns
    v = ue_val(tape, p, 1) (its contract); write_uint(v) at p leaves ue_pattern(view, p, v) (its contract).  Then v >= 0 (no
    OutOfRangeError), the view holds exactly the bits read, and the writer advances to where the reader stopped."""
    requires(k >= 0 and iscode(c, p, k) == 1)
    requires(ue_val(c, p, 1) >= 0 and ue_pattern(w, p, ue_val(c, p, 1)))
    ensures(ue_end(c, p) == p + 2 * k + 1 and 2 * k + 1 == (blen(ue_val(c, p, 1) + 1) - 1) * 2 + 1)
    ensures(forall(p, p + 2 * k + 1, lambda q: tbit(w, q) == tbit(c, q), trigger=lambda q: tbit(w, q)))
    v = ue_val(c, p, 1)
    ue_pairs_from_value(c, p, k)
    ue_closed_form(c, p, k, 1)
    written_uint_is_a_code(w, p, v)
    ue_pattern_decodes(w, p, v)
    uint_bits_reproduced(c, w, p, k, blen(v + 1) - 1)


@lemma
def stability_sint(c: "array", w: "array", p: int, k: int):
    """C06 for signed exp-Golomb fields (outside bounded blocks).  The tape holds a complete code of magnitude m at p, followed
    (if m != 0) by a sign bit s; read_sint returns v = (1 - 2*s) * m (its contract).  write_sint(v) at p leaves
    ue_pattern(view, p, abs(v)) and, if v != 0, the sign bit (1 iff v < 0) right after it (its contract).  Then the view holds
    exactly the bits read - magnitude code and sign bit - and nothing more."""
    requires(k >= 0 and iscode(c, p, k) == 1)
    requires(ue_val(c, p, 1) >= 0)
    requires(0 <= tbit(c, p + 2 * k + 1) and tbit(c, p + 2 * k + 1) <= 1)
    # v as read_sint's contract defines it, and the writer's postcondition for that v
    requires(ue_pattern(w, p, abs((1 - 2 * tbit(c, p + 2 * k + 1)) * ue_val(c, p, 1)) if ue_val(c, p, 1) != 0 else 0))
    requires(implies(ue_val(c, p, 1) != 0,
                     tbit(w, p + (blen(ue_val(c, p, 1) + 1) - 1) * 2 + 1) == (1 if (1 - 2 * tbit(c, p + 2 * k + 1)) * ue_val(c, p, 1) < 0 else 0)))
    ensures(forall(p, p + 2 * k + 1, lambda q: tbit(w, q) == tbit(c, q), trigger=lambda q: tbit(w, q)))
    ensures(implies(ue_val(c, p, 1) != 0, tbit(w, p + 2 * k + 1) == tbit(c, p + 2 * k + 1)))
    m = ue_val(c, p, 1)
    s = tbit(c, p + 2 * k + 1)
    check(implies(m != 0, abs((1 - 2 * s) * m) == m))
    ue_pairs_from_value(c, p, k)
    stability_uint(c, w, p, k)
