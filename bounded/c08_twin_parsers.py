"""C08 - the bitstream deserialiser and the validator read identical content (bounded stand-in, never 'proved').

Contract (written from the property statement; executed natively on the real code of the tree under check):

  requires  x is a byte string and the validator accepts it:  init_io(state, BytesIO(x)); decoder.parse_stream(state)
            returns normally (a ConformanceError = x is outside the domain, counted per class)
  ensures A the deserialiser reads x to completion: Deserialiser(BitstreamReader(BytesIO(x))) / parse_stream returns normally
  ensures B it reads the same sequence of data units: same number of sequences, same number of data units in each, the
            same parse codes, a body of the kind the standard's parse-code predicates (10.5.2) give for that code, and
            (where the description carries them) the same data-unit boundaries
  ensures C every header / parameter value agrees: parse_info (prefix, next / previous parse offset), auxiliary and
            padding payload (length and bytes), sequence header (parse parameters, base video format and overrides
            resolved to the 20 video parameters by 11.4 against vc2_data_tables, picture coding mode), picture numbers,
            transform parameters incl. the extended ones and their defaults (12.4.1), slice parameters, quantisation
            matrix (custom values laid out by 12.4.5.3, or the default table of vc2_data_tables), fragment headers
  ensures D for every picture the validator decodes (whole or assembled from fragments, 14.4): the deserialiser's slices,
            laid out by 13.5.6.2-4, dequantised by 13.3 / 13.5.5 with the slice's qindex and the quantisation matrix and
            DC-predicted by 13.4 (low delay only), equal the validator's y/c1/c2_transform arrays as they stand when
            picture_decode (15.2) is entered; same number of pictures, same picture numbers

Observation points.  Validator: a State subclass that notes which standard-named state variables are assigned inside
each data unit (a data unit starts when parse_code is assigned; the values are copied when the unit ends), and the
decoder.stream module's picture_decode reference wrapped in-process to copy the transform arrays before the inverse
transform.  Deserialiser: Deserialiser.context only.  No '_'-prefixed entry is needed; where the description carries
them they are compared as well: parse_info '_offset' (data-unit boundaries), the slices' '_sx' / '_sy', and the per-picture
copy of the parser state '_state' of transform_data / fragment_data, which must hold that data unit's values of every
variable above after the whole stream has been parsed (the default quantisation matrix excepted: the deserialiser never loads it).
Everything on the comparison path - slice geometry, band order, inverse quantisation, DC prediction, video-parameter
resolution, parse-code predicates - is an INDEPENDENT implementation written here from SMPTE ST 2042-1; no function of
the tree under check is called for it.

Inputs come from (i) the project's encoder + serialiser and (ii) an independent bit packer / conformant-stream generator
written from the standard's syntax whose slice payloads are arbitrary bit patterns or re-packed random coefficients.

clause/domain -> families (E = exhaustive over the stated small scope, R = seeded sample; sizes quick / thorough)
  ENC  R encoder output   project encoder on a grid of codec features (LD/HQ, lossless/lossy, 7 wavelets, depths 0..3,
                          horizontal-only depths 0..2, slice grids, fragments, fields, 4:4:4/4:2:2/4:2:0, odd sizes) with
                          noise pictures, plain and with padding/auxiliary units, repeated headers and HQ prefix bytes
                          patched into the description before serialising (60 / 420 streams)
  (in X2-X4 and X6-X8 the stated grid is enumerated completely, slice payloads are seeded: recorded as not exhaustive)
  X1   E LD slice bits    one-slice low-delay picture, 2-byte slice: every content (65536 thorough / stride 4096 quick) x
                          2 shapes; 1-byte slice: all 256 contents x 2 shapes (only valid slice_y_length is in the domain)
  X2   E HQ lengths       slice_{y,c1,c2}_length in {0,1,2,3}^3 x slice_size_scaler {1,2,3} x slice_prefix_bytes {0,1,2}
  X3   E large values     exp-Golomb magnitudes 2^k-1, 2^k, 2^k+1 (k up to 1024), both signs, as first HQ / LD coefficient,
                          whole or cut off by the end of the bounded block
  X4   E header values    every base video format, every preset index of every sequence-header field, custom values,
                          both picture coding modes x the three colour-difference formats (minimal major version chosen)
  X5   E padding bits     sequence-header end and transform-parameter end at every bit alignment x all padding patterns
  X6   E aux / padding    auxiliary and padding units with payloads 0..40 and 255..257 bytes, before / between / after
                          pictures and between fragments; next_parse_offset 0 on pictures and fragments
  X7   E LD sizes+frags   slice_bytes numerator/denominator grid (1-byte slices, uneven sizes) x slice grids x every
                          fragment split {whole picture, 1, 2, 3, all slices per fragment}, LD and HQ
  X8   E transform grid   wavelet 0..6 x dwt_depth 0..3 x dwt_depth_ho 0..2 x {default, custom} quantisation matrix x
                          {LD, HQ} x asymmetric wavelet index flag variants
  R1   R structured       seeded multi-sequence conformant streams mixing all of the above (4000 / 40000 streams)
Bounds: frames at most 16x8 samples, at most 12 slices per picture, dwt_depth + dwt_depth_ho <= 4, exp-Golomb magnitudes
up to 2^1024, at most 3 sequences of at most 5 pictures per stream, level 0 only; at most 6 worker processes.  Guards of
the check itself: the deserialiser gets CASE_SECONDS CPU-seconds per accepted stream (exceeding it = it did not read the
stream: clause A) and each worker an address-space cap WORKER_EXTRA_BYTES above its start size (MemoryError = clause A).
"""
import copy
import io
import multiprocessing
import random
import signal
import time

WORKERS = 6
CHUNK = 24
CASE_SECONDS = 20.0  # CPU seconds (ITIMER_PROF) the deserialiser may spend on one stream that the validator accepted (typically < 0.05 s)
WORKER_EXTRA_BYTES = 3 << 30  # address-space head room of a worker process
MAX_REPORTS = 3  # violations reported per clause

CLAUSE_A = "A: the deserialiser reads every stream the validator accepts to completion"
CLAUSE_B = "B: both parsers read the same sequence of data units"
CLAUSE_C = "C: both parsers read the same header and parameter values"
CLAUSE_D = "D: dequantised, DC-predicted deserialised coefficients equal the validator's transform data"
CLAUSES = (CLAUSE_A, CLAUSE_B, CLAUSE_C, CLAUSE_D)

PARSE_INFO_PREFIX = 0x42424344  # 10.5.1


# ======================================================================================================================
# 1. independent bit packer (A.3 / A.4 of the standard)
# ======================================================================================================================
class Bits(object):
    __slots__ = ("b",)

    def __init__(self):
        self.b = []

    def bit(self, v):
        self.b.append(1 if v else 0)
        return self

    def nbits(self, n, v):  # A.3.3: n-bit unsigned, most significant bit first
        assert n >= 0 and 0 <= v < (1 << n) or (n == 0 and v == 0), (n, v)
        self.b.extend((v >> i) & 1 for i in range(n - 1, -1, -1))
        return self

    def uint(self, v):  # A.4.3: bits of v+1 below its leading 1, each preceded by a 0 'follow' bit, then a 1
        assert v >= 0
        n = v + 1
        for i in range(n.bit_length() - 2, -1, -1):
            self.b.append(0)
            self.b.append((n >> i) & 1)
        self.b.append(1)
        return self

    def sint(self, v):  # A.4.4: magnitude, then a sign bit (1 = negative) if non-zero
        self.uint(abs(v))
        if v != 0:
            self.b.append(1 if v < 0 else 0)
        return self

    def raw(self, bits):
        self.b.extend(bits)
        return self

    def align(self, rng, style="rand"):  # up to the next byte boundary with arbitrary bits
        return self.raw(fill(rng, (-len(self.b)) % 8, style))

    def tobytes(self):
        assert len(self.b) % 8 == 0
        return int("1" + "".join(map(str, self.b)), 2).to_bytes(len(self.b) // 8 + 1, "big")[1:] if self.b else b""


STYLES = ("rand", "rand", "rand", "ones-heavy", "zeros-heavy", "zeros", "ones", "0101", "zero-run")


def fill(rng, k, style):
    """k arbitrary bits in one of several textures (any texture is a valid slice payload / padding)."""
    if k <= 0:
        return []
    if style == "rand":
        v = rng.getrandbits(k)
    elif style == "ones-heavy":
        v = rng.getrandbits(k) | rng.getrandbits(k) | rng.getrandbits(k)
    elif style == "zeros-heavy":
        v = rng.getrandbits(k) & rng.getrandbits(k) & rng.getrandbits(k)
    elif style == "zeros":
        v = 0
    elif style == "ones":
        v = (1 << k) - 1
    elif style == "0101":
        v = int(("01" * k)[:k], 2)
    else:  # zero-run: random with one long run of zeros (a very long exp-Golomb code)
        v = rng.getrandbits(k)
        a = rng.randrange(k)
        n = rng.randrange(1, k - a + 1)
        v &= ~(((1 << n) - 1) << (k - a - n))
    return [int(c) for c in format(v, "0%db" % k)]


def intlog2(n):  # 5.5.3: ceil(log2(n)) for n >= 1
    return (n - 1).bit_length()


# ======================================================================================================================
# 2. reference semantics written from the standard (used by the oracle; nothing here calls the tree under check)
# ======================================================================================================================
def classify(code):
    """(kind, mode) of a parse code from the predicates of 10.5.2."""
    mode = "ld" if (code & 0xF8) == 0xC8 else "hq" if (code & 0xF8) == 0xE8 else None
    if code == 0x00:
        return "sequence_header", None
    if code == 0x10:
        return "end_of_sequence", None
    if (code & 0xF8) == 0x20:
        return "auxiliary_data", None
    if code == 0x30:
        return "padding", None
    if (code & 0x8C) == 0x88:
        return "picture", mode
    if (code & 0x0C) == 0x0C:
        return "fragment", mode
    return "none", None


def picture_dims(frame_width, frame_height, cdf, pcm):
    """11.6.2: (luma_width, luma_height, color_diff_width, color_diff_height)."""
    lw, lh = frame_width, frame_height
    cw, ch = lw, lh
    if cdf == 1:  # 4:2:2
        cw //= 2
    if cdf == 2:  # 4:2:0
        cw //= 2
        ch //= 2
    if pcm == 1:  # pictures are fields
        lh //= 2
        ch //= 2
    return lw, lh, cw, ch


def subband_dims(w, h, level, depth, depth_ho):
    """13.2.3: (width, height) of the subbands of `level` for a component of w x h samples."""
    sw = 1 << (depth_ho + depth)
    pw = sw * ((w + sw - 1) // sw)
    sh = 1 << depth
    ph = sh * ((h + sh - 1) // sh)
    if level == 0:
        return pw >> (depth_ho + depth), ph >> depth
    if level <= depth_ho:
        return pw >> (depth_ho + depth - level + 1), ph >> depth
    return pw >> (depth_ho + depth - level + 1), ph >> (depth_ho + depth - level + 1)


def band_list(depth, depth_ho):
    """Order of the subbands inside a slice (13.5.3.1, 13.5.4) and inside a custom quantisation matrix (12.4.5.3)."""
    out = [(0, "LL" if depth_ho == 0 else "L")]
    out += [(lv, "H") for lv in range(1, depth_ho + 1)]
    for lv in range(depth_ho + 1, depth_ho + depth + 1):
        out += [(lv, "HL"), (lv, "LH"), (lv, "HH")]
    return out


def slice_region(bw, bh, sx, sy, slices_x, slices_y):
    """13.5.6.2: (left, right, top, bottom) of slice (sx, sy) in a subband of bw x bh."""
    return (bw * sx) // slices_x, (bw * (sx + 1)) // slices_x, (bh * sy) // slices_y, (bh * (sy + 1)) // slices_y


def ld_slice_bytes(n, num, den):  # 13.5.3.2, n = sy * slices_x + sx
    return ((n + 1) * num) // den - (n * num) // den


def quant_factor(index):  # 13.3.2
    base = 1 << (index // 4)
    r = index % 4
    if r == 0:
        return 4 * base
    if r == 1:
        return (503829 * base + 52958) // 105917
    if r == 2:
        return (665857 * base + 58854) // 117708
    return (440253 * base + 32722) // 65444


def quant_offset(index):  # 13.3.2
    if index == 0:
        return 1
    if index == 1:
        return 2
    return (quant_factor(index) + 1) // 2


def inverse_quant(q, index):  # 13.3.1
    if q == 0:
        return 0
    m = (abs(q) * quant_factor(index) + quant_offset(index) + 2) // 4
    return -m if q < 0 else m


def dc_predict(band):  # 13.4, in place; mean of three = (a + b + c + 1) // 3 (5.5.3)
    for y in range(len(band)):
        row = band[y]
        for x in range(len(row)):
            if x > 0 and y > 0:
                p = (row[x - 1] + band[y - 1][x - 1] + band[y - 1][x] + 1) // 3
            elif x > 0:
                p = row[x - 1]
            elif y > 0:
                p = band[y - 1][0]
            else:
                p = 0
            row[x] += p


VP_KEYS = ("frame_width", "frame_height", "color_diff_format_index", "source_sampling", "top_field_first", "frame_rate_numer", "frame_rate_denom",
           "pixel_aspect_ratio_numer", "pixel_aspect_ratio_denom", "clean_width", "clean_height", "left_offset", "top_offset", "luma_offset",
           "luma_excursion", "color_diff_offset", "color_diff_excursion", "color_primaries_index", "color_matrix_index", "transfer_function_index")


def base_video_parameters(T, base):
    """11.4.2: the video parameters of a base video format (tables of vc2_data_tables = Annex B / Table 11.x)."""
    b = T.BASE_VIDEO_FORMAT_PARAMETERS[T.BaseVideoFormats(base)]
    fr, par = T.PRESET_FRAME_RATES[b.frame_rate_index], T.PRESET_PIXEL_ASPECT_RATIOS[b.pixel_aspect_ratio_index]
    sr, cs = T.PRESET_SIGNAL_RANGES[b.signal_range_index], T.PRESET_COLOR_SPECS[b.color_spec_index]
    return {
        "frame_width": b.frame_width, "frame_height": b.frame_height, "color_diff_format_index": int(b.color_diff_format_index),
        "source_sampling": int(b.source_sampling), "top_field_first": bool(b.top_field_first), "frame_rate_numer": fr.numerator, "frame_rate_denom": fr.denominator,
        "pixel_aspect_ratio_numer": par.numerator, "pixel_aspect_ratio_denom": par.denominator, "clean_width": b.clean_width, "clean_height": b.clean_height,
        "left_offset": b.left_offset, "top_offset": b.top_offset, "luma_offset": sr.luma_offset, "luma_excursion": sr.luma_excursion,
        "color_diff_offset": sr.color_diff_offset, "color_diff_excursion": sr.color_diff_excursion, "color_primaries_index": int(cs.color_primaries_index),
        "color_matrix_index": int(cs.color_matrix_index), "transfer_function_index": int(cs.transfer_function_index),
    }


class Unread(Exception):
    """The deserialised description lacks (or mis-shapes) a value that the syntax of the standard puts there."""


class UnreadSlice(Unread):
    """... the same for slice contents (reported under the coefficient clause)."""


def need(d, key, path):
    try:
        return d[key]
    except (KeyError, IndexError, TypeError):
        raise Unread("%s[%r] is absent from the deserialised description" % (path, key))


def resolve_video_parameters(T, sh, path):
    """11.4.1-11.4.10: video parameters from the deserialised sequence header (base format + the overrides present)."""
    vp = base_video_parameters(T, int(need(sh, "base_video_format", path)))
    src = need(sh, "video_parameters", path)
    p = path + ".video_parameters"

    def sub(name, flag):
        d = need(src, name, p)
        return d if need(d, flag, p + "." + name) else None

    d = sub("frame_size", "custom_dimensions_flag")
    if d is not None:
        vp["frame_width"], vp["frame_height"] = int(need(d, "frame_width", p)), int(need(d, "frame_height", p))
    d = sub("color_diff_sampling_format", "custom_color_diff_format_flag")
    if d is not None:
        vp["color_diff_format_index"] = int(need(d, "color_diff_format_index", p))
    d = sub("scan_format", "custom_scan_format_flag")
    if d is not None:
        vp["source_sampling"] = int(need(d, "source_sampling", p))
    d = sub("frame_rate", "custom_frame_rate_flag")
    if d is not None:
        i = int(need(d, "index", p))
        if i == 0:
            vp["frame_rate_numer"], vp["frame_rate_denom"] = int(need(d, "frame_rate_numer", p)), int(need(d, "frame_rate_denom", p))
        else:
            fr = T.PRESET_FRAME_RATES[T.PresetFrameRates(i)]
            vp["frame_rate_numer"], vp["frame_rate_denom"] = fr.numerator, fr.denominator
    d = sub("pixel_aspect_ratio", "custom_pixel_aspect_ratio_flag")
    if d is not None:
        i = int(need(d, "index", p))
        if i == 0:
            vp["pixel_aspect_ratio_numer"], vp["pixel_aspect_ratio_denom"] = int(need(d, "pixel_aspect_ratio_numer", p)), int(need(d, "pixel_aspect_ratio_denom", p))
        else:
            r = T.PRESET_PIXEL_ASPECT_RATIOS[T.PresetPixelAspectRatios(i)]
            vp["pixel_aspect_ratio_numer"], vp["pixel_aspect_ratio_denom"] = r.numerator, r.denominator
    d = sub("clean_area", "custom_clean_area_flag")
    if d is not None:
        for k in ("clean_width", "clean_height", "left_offset", "top_offset"):
            vp[k] = int(need(d, k, p))
    d = sub("signal_range", "custom_signal_range_flag")
    if d is not None:
        i = int(need(d, "index", p))
        if i == 0:
            for k in ("luma_offset", "luma_excursion", "color_diff_offset", "color_diff_excursion"):
                vp[k] = int(need(d, k, p))
        else:
            sr = T.PRESET_SIGNAL_RANGES[T.PresetSignalRanges(i)]
            vp["luma_offset"], vp["luma_excursion"], vp["color_diff_offset"], vp["color_diff_excursion"] = sr.luma_offset, sr.luma_excursion, sr.color_diff_offset, sr.color_diff_excursion
    d = sub("color_spec", "custom_color_spec_flag")
    if d is not None:
        i = int(need(d, "index", p))
        cs = T.PRESET_COLOR_SPECS[T.PresetColorSpecs(i)]
        vp["color_primaries_index"], vp["color_matrix_index"], vp["transfer_function_index"] = int(cs.color_primaries_index), int(cs.color_matrix_index), int(cs.transfer_function_index)
        if i == 0:
            for name, flag, key in (("color_primaries", "custom_color_primaries_flag", "color_primaries_index"), ("color_matrix", "custom_color_matrix_flag", "color_matrix_index"),
                                    ("transfer_function", "custom_transfer_function_flag", "transfer_function_index")):
                e = need(d, name, p + ".color_spec")
                if need(e, flag, p + ".color_spec." + name):
                    vp[key] = int(need(e, "index", p + ".color_spec." + name))
    return vp


# ======================================================================================================================
# 3. conformant-stream generator written from the standard's syntax (produces inputs only)
# ======================================================================================================================
def sh_spec(profile, w=4, h=2, base=0, cdf=None, scan=None, frame_rate=None, par=None, clean=None, sig=None, color_spec=None, pcm=0, level=0):
    """Field values of a sequence header (11.1-11.4); None = 'custom flag clear'.  Frame size and clean area are always
    custom (tiny frames); the major version is filled in by min_version()."""
    return {"profile": profile, "level": level, "base": base, "frame_size": (w, h), "cdf": cdf, "scan": scan, "frame_rate": frame_rate, "par": par,
            "clean": clean if clean is not None else (w, h, 0, 0), "sig": sig, "color_spec": color_spec, "pcm": pcm}


def sh_min_version(s):
    """11.2.2: the smallest major version the header's own values allow."""
    v = 2 if s["profile"] == 3 else 1
    if s["frame_rate"] is not None and s["frame_rate"][0] > 11:
        v = 3
    if s["sig"] is not None and s["sig"][0] > 4:
        v = 3
    cs = s["color_spec"]
    if cs is not None:
        if cs[0] > 4:
            v = 3
        if cs[0] == 0 and any(x is not None and x > 3 for x in cs[1:]):
            v = 3
    return v


def tp_min_version(t, fragments):
    v = 3 if fragments else 1
    if (t["depth_ho"] or 0) != 0 or (t["wavelet_ho"] is not None and t["wavelet_ho"] != t["wavelet"]):
        v = 3
    return v


def sh_effective_cdf(T, s):
    return s["cdf"] if s["cdf"] is not None else int(T.BASE_VIDEO_FORMAT_PARAMETERS[T.BaseVideoFormats(s["base"])].color_diff_format_index)


def encode_sh(s, version):
    b = Bits()
    b.uint(version).uint(0).uint(s["profile"]).uint(s["level"])  # 11.2.1
    b.uint(s["base"])
    b.bit(1).uint(s["frame_size"][0]).uint(s["frame_size"][1])  # 11.4.3
    for key in ("cdf", "scan"):  # 11.4.4, 11.4.5
        b.bit(s[key] is not None)
        if s[key] is not None:
            b.uint(s[key])
    for key in ("frame_rate", "par"):  # 11.4.6, 11.4.7: index 0 is followed by numerator and denominator
        v = s[key]
        b.bit(v is not None)
        if v is not None:
            b.uint(v[0])
            if v[0] == 0:
                b.uint(v[1]).uint(v[2])
    b.bit(1)  # 11.4.8
    for x in s["clean"]:
        b.uint(x)
    v = s["sig"]  # 11.4.9: index 0 is followed by four values
    b.bit(v is not None)
    if v is not None:
        b.uint(v[0])
        if v[0] == 0:
            for x in v[1:]:
                b.uint(x)
    v = s["color_spec"]  # 11.4.10: index 0 is followed by primaries, matrix, transfer function (flag + index each)
    b.bit(v is not None)
    if v is not None:
        b.uint(v[0])
        if v[0] == 0:
            for x in v[1:]:
                b.bit(x is not None)
                if x is not None:
                    b.uint(x)
    b.uint(s["pcm"])
    return b


def tp_spec(mode, wavelet=0, depth=0, wavelet_ho=None, depth_ho=None, sx=1, sy=1, ld=(4, 1), hq=(0, 1), qm=None):
    """Transform parameters (12.4).  wavelet_ho / depth_ho None = the flag of 12.4.4.1 is clear; qm None = default matrix."""
    return {"mode": mode, "wavelet": wavelet, "depth": depth, "wavelet_ho": wavelet_ho, "depth_ho": depth_ho, "sx": sx, "sy": sy, "ld": ld, "hq": hq, "qm": qm}


def tp_has_default_matrix(T, t):
    who = t["wavelet"] if t["wavelet_ho"] is None else t["wavelet_ho"]
    return (t["wavelet"], who, t["depth"], t["depth_ho"] or 0) in _qm()


def encode_tp(t, version):
    b = Bits()
    b.uint(t["wavelet"]).uint(t["depth"])
    if version >= 3:  # 12.4.4.1
        b.bit(t["wavelet_ho"] is not None)
        if t["wavelet_ho"] is not None:
            b.uint(t["wavelet_ho"])
        b.bit(t["depth_ho"] is not None)
        if t["depth_ho"] is not None:
            b.uint(t["depth_ho"])
    else:
        assert t["wavelet_ho"] is None and t["depth_ho"] is None
    b.uint(t["sx"]).uint(t["sy"])  # 12.4.5.2
    if t["mode"] == "ld":
        b.uint(t["ld"][0]).uint(t["ld"][1])
    else:
        b.uint(t["hq"][0]).uint(t["hq"][1])
    b.bit(t["qm"] is not None)  # 12.4.5.3
    if t["qm"] is not None:
        assert len(t["qm"]) == len(band_list(t["depth"], t["depth_ho"] or 0))
        for x in t["qm"]:
            b.uint(x)
    return b


def gen_coef(rng):
    r = rng.random()
    if r < 0.25:
        return 0
    if r < 0.8:
        m = rng.randrange(1, 8)
    elif r < 0.96:
        m = rng.randrange(8, 700)
    elif r < 0.997:
        m = rng.getrandbits(rng.choice((16, 31, 32, 33, 63, 64, 65))) | 1
    else:
        m = 1 << rng.choice((100, 257, 511))
    return -m if rng.random() < 0.5 else m


def gen_qindex(rng, top):
    r = rng.random()
    return 0 if r < 0.15 else rng.randrange(1, 16) if r < 0.7 else rng.randrange(16, 64) if r < 0.9 else rng.randrange(64, top)


def slice_coef_counts(dims, t, sx, sy):
    """(luma, colour-difference) coefficient counts of slice (sx, sy) by 13.5.6.2."""
    lw, lh, cw, ch = dims
    ho = t["depth_ho"] or 0
    ny = nc = 0
    for lv, _ in band_list(t["depth"], ho):
        for (w, h, which) in ((lw, lh, 0), (cw, ch, 1)):
            bw, bh = subband_dims(w, h, lv, t["depth"], ho)
            x1, x2, y1, y2 = slice_region(bw, bh, sx, sy, t["sx"], t["sy"])
            if which == 0:
                ny += (x2 - x1) * (y2 - y1)
            else:
                nc += (x2 - x1) * (y2 - y1)
    return ny, nc


def block_payload(rng, ncoef, style):
    """Bits meant for one bounded block (uncut): `ncoef` exp-Golomb coded values (or fewer / more), or an arbitrary texture."""
    if style == "coefs":
        b = Bits()
        for _ in range(ncoef):
            b.sint(gen_coef(rng))
        return b.b
    if style == "short":  # fewer values than the block has room for: the rest are read past the end of the data
        b = Bits()
        for _ in range(rng.randrange(ncoef + 1)):
            b.sint(gen_coef(rng))
        return b.b
    if style == "zero-coefs":
        return [1] * ncoef
    return fill(rng, rng.choice([0, 1, 3, 8, 13, 24, 40, 8 * (ncoef // 2 + 1), 16 * (ncoef + 1)]), style)


SLICE_STYLES = ("coefs", "coefs", "coefs", "short", "rand", "rand", "ones-heavy", "zeros-heavy", "zero-run", "zeros", "ones", "zero-coefs")


def fit(rng, bits, n):
    """Exactly n bits: `bits` cut off (a value may dangle over the end) or followed by arbitrary unused bits."""
    return bits[:n] if len(bits) >= n else bits + fill(rng, n - len(bits), rng.choice(STYLES))


def ld_slice_bits(rng, dims, t, n, style, tags, qindex=None, y_length=None):
    """13.5.3.1: slice number n occupies slice_bytes(n) whole bytes."""
    nbytes = ld_slice_bytes(n, *t["ld"])
    assert nbytes >= 1
    lbits = intlog2(8 * nbytes - 7)
    left = 8 * nbytes - 7 - lbits
    ny, nc = slice_coef_counts(dims, t, n % t["sx"], n // t["sx"])
    ybits = block_payload(rng, ny, style)
    cbits = block_payload(rng, 2 * nc, style)
    if y_length is None:
        r = rng.random()
        y_length = min(left, len(ybits)) if r < 0.5 else rng.randrange(left + 1) if r < 0.8 else rng.choice([0, left, min(left, max(0, len(ybits) - 2))])
    y_length = min(y_length, (1 << lbits) - 1)  # a 1-byte slice has a 0-bit length field
    assert 0 <= y_length <= left
    if len(ybits) > y_length or len(cbits) > left - y_length:
        tags.add("LD value dangling over the end of a bounded block")
    if nbytes == 1:
        tags.add("1-byte LD slice")
    b = Bits().nbits(7, gen_qindex(rng, 128) if qindex is None else qindex).nbits(lbits, y_length)
    b.raw(fit(rng, ybits, y_length)).raw(fit(rng, cbits, left - y_length))
    assert len(b.b) == 8 * nbytes
    return b.b


def hq_slice_bits(rng, dims, t, n, style, tags, qindex=None, lengths=None):
    """13.5.4: prefix bytes, qindex, then three (length byte, slice_size_scaler * length bytes) blocks."""
    prefix, scaler = t["hq"]
    ny, nc = slice_coef_counts(dims, t, n % t["sx"], n // t["sx"])
    b = Bits().raw(fill(rng, 8 * prefix, "rand")).nbits(8, gen_qindex(rng, 256) if qindex is None else qindex)
    for c in range(3):
        bits = block_payload(rng, ny if c == 0 else nc, style)
        exact = -(-len(bits) // (8 * scaler))
        if lengths is not None:
            ln = lengths[c]
        else:
            r = rng.random()
            ln = exact if r < 0.5 else exact + rng.choice([1, 2, 5]) if r < 0.7 else rng.randrange(exact + 1) if r < 0.9 else 0
        ln = min(ln, 255)
        if len(bits) > 8 * scaler * ln:
            tags.add("HQ value dangling over the end of a bounded block")
        if len(bits) < 8 * scaler * ln:
            tags.add("HQ unused bits in a bounded block")
        if ln == 0:
            tags.add("empty HQ block")
        b.nbits(8, ln).raw(fit(rng, bits, 8 * scaler * ln))
    return b.b


class Builder(object):
    """Concatenates data units into sequences; parse_info offsets are filled in as 10.5.1 requires."""

    def __init__(self, rng):
        self.rng = rng
        self.seqs = [[]]
        self.tags = set()

    def unit(self, code, bits, zero_next=False):
        if len(bits.b) % 8:
            self.tags.add("arbitrary padding bits before a parse_info")
        self.seqs[-1].append((code, Bits().raw(bits.b).align(self.rng, self.rng.choice(STYLES)).tobytes(), zero_next))

    def end_sequence(self):
        self.unit(0x10, Bits())
        self.seqs.append([])

    def aux(self, code=0x20, n=None):
        n = self.rng.choice([0, 1, 2, 7, 30]) if n is None else n
        self.unit(code, Bits().raw(fill(self.rng, 8 * n, self.rng.choice(STYLES))))
        self.tags.add("padding unit" if code == 0x30 else "auxiliary data unit")

    def tobytes(self):
        out = []
        for seq in self.seqs:
            prev = 0
            for code, body, zero_next in seq:
                size = 13 + len(body)
                nxt = 0 if (code == 0x10 or zero_next) else size
                out.append(Bits().nbits(32, PARSE_INFO_PREFIX).nbits(8, code).nbits(32, nxt).nbits(32, prev).tobytes() + body)
                prev = size
        return b"".join(out)


def emit_picture(bld, T, s, version, t, picnum, style, frag=None, between=None, zero_next=False, qindex=None, tp_pad=None, slice_fn=None):
    """One picture: a picture data unit (frag None) or a run of fragment data units carrying `frag` slices each (a list
    of group sizes summing to the slice count, or an int)."""
    rng = bld.rng
    dims = picture_dims(s["frame_size"][0], s["frame_size"][1], sh_effective_cdf(T, s), s["pcm"])
    total = t["sx"] * t["sy"]
    mk = slice_fn or (lambda n: (ld_slice_bits if t["mode"] == "ld" else hq_slice_bits)(rng, dims, t, n, rng.choice(SLICE_STYLES) if style is None else style, bld.tags, qindex=qindex))
    tpb = encode_tp(t, version)
    if frag is None:
        b = Bits().nbits(32, picnum).raw(tpb.b)
        b = b.raw(tp_pad) if tp_pad is not None else b.align(rng, rng.choice(STYLES))
        for n in range(total):
            b.raw(mk(n))
        bld.unit(0xC8 if t["mode"] == "ld" else 0xE8, b, zero_next and rng.random() < 0.5)
        return
    code = 0xCC if t["mode"] == "ld" else 0xEC
    groups = frag if isinstance(frag, list) else [min(frag, total - a) for a in range(0, total, frag)]
    assert sum(groups) == total and all(g > 0 for g in groups)
    b = Bits().nbits(32, picnum).nbits(16, rng.choice([0, rng.getrandbits(16)])).nbits(16, 0).raw(tpb.b)  # 14.2 then 12.4
    if tp_pad is not None:
        b.raw(tp_pad)
    bld.unit(code, b, zero_next and rng.random() < 0.5)
    bld.tags.add("fragmented picture")
    first = 0
    for g in groups:
        if between is not None:
            between()
        b = Bits().nbits(32, picnum).nbits(16, rng.choice([0, rng.getrandbits(16)])).nbits(16, g).nbits(16, first % t["sx"]).nbits(16, first // t["sx"])
        for n in range(first, first + g):
            b.raw(mk(n))
        bld.unit(code, b, zero_next and rng.random() < 0.5)
        first += g


# ======================================================================================================================
# 4. observing the two parsers (real code of the tree under check)
# ======================================================================================================================
PI_KEYS = ("parse_code", "next_parse_offset", "previous_parse_offset")
SH_KEYS = ("major_version", "minor_version", "profile", "level", "picture_coding_mode", "video_parameters")
TP_KEYS = ("wavelet_index", "dwt_depth", "wavelet_index_ho", "dwt_depth_ho", "slices_x", "slices_y", "slice_bytes_numerator", "slice_bytes_denominator",
           "slice_prefix_bytes", "slice_size_scaler", "quant_matrix")
FR_KEYS = ("picture_number", "fragment_data_length", "fragment_slice_count", "fragment_x_offset", "fragment_y_offset")
WATCHED = frozenset(PI_KEYS + SH_KEYS + TP_KEYS + FR_KEYS)
KEYS_OF_KIND = {"sequence_header": SH_KEYS, "picture": ("picture_number",) + TP_KEYS, "fragment": FR_KEYS + TP_KEYS}

_ENV = {}


class CheckerError(Exception):
    pass


def _plain(v):
    """Copy of an observed value as plain ints / bools / dicts / lists."""
    if isinstance(v, dict):
        return {(_plain(k)): _plain(x) for k, x in v.items()}
    if isinstance(v, (list, tuple)):
        return [_plain(x) for x in v]
    if isinstance(v, bool) or v is None or isinstance(v, str):
        return v
    if isinstance(v, int):
        return int(v)
    return repr(v)


_QM0 = {}


def _qm():
    """The default quantisation matrices as they were when this process first imported vc2_data_tables: the oracle must not read the
    live table, which the code under check shares and could (wrongly) modify."""
    if not _QM0:
        import copy
        import vc2_data_tables as T

        _QM0.update(copy.deepcopy(dict(T.QUANTISATION_MATRICES)))
    return _QM0


def _table_corruption():
    """Entries of the live default-matrix table that differ from the pristine copy; the live table is repaired."""
    import copy
    import vc2_data_tables as T

    bad = [k for k, v in _qm().items() if T.QUANTISATION_MATRICES.get(k) != v]
    for k in bad:
        T.QUANTISATION_MATRICES[k] = copy.deepcopy(_qm()[k])
    return bad


def _env():
    """Imports of the tree under check, the observing State subclass and the picture_decode wrapper (once per process)."""
    if _ENV:
        return _ENV
    import vc2_data_tables as T
    _qm()
    from vc2_conformance import decoder
    from vc2_conformance.decoder import stream as vstream
    from vc2_conformance.pseudocode.state import State
    from vc2_conformance.bitstream import BitstreamReader, Deserialiser, parse_stream

    class ObservedState(State):
        """The validator's state; notes which standard-named variables each data unit assigns."""
        sink = None

        def __setitem__(self, key, value):
            s = self.sink
            if s is not None and key in WATCHED:
                if key == "parse_code":
                    s.close_unit()
                    s.assigned = {}
                s.assigned[key] = value  # containers (quant_matrix, video_parameters) are filled in place: copied when the unit ends
            State.__setitem__(self, key, value)

    if not hasattr(vstream, "picture_decode"):
        raise CheckerError("vc2_conformance.decoder.stream has no picture_decode reference to wrap")
    original = vstream.picture_decode

    def observed_picture_decode(state):
        s = getattr(state, "sink", None)
        if s is not None:
            s.pictures.append({"picture_number": _plain(state["picture_number"]), "parse_code": _plain(state["parse_code"]),
                               "Y": _plain(state["y_transform"]), "C1": _plain(state["c1_transform"]), "C2": _plain(state["c2_transform"])})
        return original(state)

    vstream.picture_decode = observed_picture_decode
    _ENV.update(T=T, decoder=decoder, State=State, ObservedState=ObservedState, BitstreamReader=BitstreamReader, Deserialiser=Deserialiser, parse_stream=parse_stream)
    return _ENV


class Sink(object):
    def __init__(self):
        self.units = []
        self.pictures = []
        self.assigned = None

    def close_unit(self):
        if self.assigned is not None:
            self.units.append({k: _plain(v) for k, v in self.assigned.items()})
        self.assigned = None


def run_validator(data):
    """-> ("accepted", units, pictures) | ("rejected", exception class name)"""
    E = _env()
    st = E["ObservedState"]()
    sink = Sink()
    st.sink = sink
    E["decoder"].init_io(st, io.BytesIO(data))
    try:
        E["decoder"].parse_stream(st)
    except E["decoder"].ConformanceError as e:
        return ("rejected", type(e).__name__)
    except Exception as e:  # not a verdict: surfaced by the hook as a failed ground fact (never silently skipped)
        return ("rejected", "UNEXPECTED " + type(e).__name__)
    sink.close_unit()
    return ("accepted", sink.units, sink.pictures)


def run_deserialiser(data):
    E = _env()
    with E["Deserialiser"](E["BitstreamReader"](io.BytesIO(data))) as des:
        E["parse_stream"](des, E["State"]())
    return des.context


# ======================================================================================================================
# 5. the contract: comparison of the two observations
# ======================================================================================================================
class DPicture(object):
    """Transform data rebuilt from deserialised slices by 13.5.6.2-4, 13.5.5, 13.3 and 13.4."""

    def __init__(self, T, vp, pcm, tp, mode, picture_number):
        self.mode, self.tp, self.picture_number = mode, tp, picture_number
        self.depth, self.ho = tp["dwt_depth"], tp["dwt_depth_ho"]
        self.bands = band_list(self.depth, self.ho)
        lw, lh, cw, ch = picture_dims(vp["frame_width"], vp["frame_height"], vp["color_diff_format_index"], pcm)
        self.sub = {}
        self.arr = {}
        for comp, (w, h) in (("Y", (lw, lh)), ("C1", (cw, ch)), ("C2", (cw, ch))):
            self.arr[comp] = {}
            for (lv, o) in self.bands:
                bw, bh = subband_dims(w, h, lv, self.depth, self.ho)
                self.sub[(comp, lv)] = (bw, bh)
                self.arr[comp].setdefault(lv, {})[o] = [[0] * bw for _ in range(bh)]
        self.received = 0
        self.total = tp["slices_x"] * tp["slices_y"]

    def quantiser(self, qindex, lv, o):  # 13.5.5
        return max(qindex - self.tp["quant_matrix"][lv][o], 0)

    def add_slice(self, sx, sy, sl, path):
        tp = self.tp
        qindex = int(need(sl, "qindex", path))
        if (sl.get("_sx"), sl.get("_sy")) not in ((None, None), (sx, sy)):
            raise UnreadSlice("%s: slice coordinates (_sx, _sy) = (%r, %r) in the description, (%d, %d) by 13.5.2 / 14.4" % (path, sl.get("_sx"), sl.get("_sy"), sx, sy))
        if self.mode == "ld":
            lists = {"Y": list(need(sl, "y_transform", path)), "C": list(need(sl, "c_transform", path))}
        else:
            lists = {c: list(need(sl, n, path)) for c, n in (("Y", "y_transform"), ("C1", "c1_transform"), ("C2", "c2_transform"))}
        pos = dict.fromkeys(lists, 0)
        for comp in ("Y", "C1", "C2"):
            if self.mode == "ld" and comp == "C2":
                continue
            for (lv, o) in self.bands:
                bw, bh = self.sub[(comp, lv)]
                x1, x2, y1, y2 = slice_region(bw, bh, sx, sy, tp["slices_x"], tp["slices_y"])
                qi = self.quantiser(qindex, lv, o)
                for y in range(y1, y2):
                    for x in range(x1, x2):
                        if self.mode == "ld" and comp == "C1":  # 13.5.6.4: the two colour-difference values interleaved
                            src, i = lists["C"], pos["C"]
                            if i + 1 >= len(src):
                                raise UnreadSlice("%s.c_transform holds %d values, fewer than the slice's colour-difference coefficients" % (path, len(src)))
                            self.arr["C1"][lv][o][y][x] = inverse_quant(int(src[i]), qi)
                            self.arr["C2"][lv][o][y][x] = inverse_quant(int(src[i + 1]), qi)
                            pos["C"] = i + 2
                        else:
                            src, i = lists[comp], pos[comp]
                            if i >= len(src):
                                raise UnreadSlice("%s: the %s list holds %d values, fewer than the slice's coefficients" % (path, comp, len(src)))
                            self.arr[comp][lv][o][y][x] = inverse_quant(int(src[i]), qi)
                            pos[comp] = i + 1
        for c, src in lists.items():
            if pos[c] != len(src):
                raise UnreadSlice("%s: the %s list holds %d values but the slice has %d coefficients (13.5.6.2)" % (path, c, len(src), pos[c]))
        self.received += 1

    def finish(self):
        if self.mode == "ld":  # 13.5.2 / 14.4: DC prediction for low-delay pictures only
            for comp in ("Y", "C1", "C2"):
                dc_predict(self.arr[comp][0]["LL" if self.ho == 0 else "L"])
        return {"picture_number": self.picture_number, "Y": self.arr["Y"], "C1": self.arr["C1"], "C2": self.arr["C2"]}


def d_transform_parameters(T, tpc, mode, version, path):
    """12.4: the values the deserialiser read, with the defaults 12.4.1 assigns when the extended parameters are absent."""
    out = {"wavelet_index": int(need(tpc, "wavelet_index", path)), "dwt_depth": int(need(tpc, "dwt_depth", path))}
    out["wavelet_index_ho"], out["dwt_depth_ho"] = out["wavelet_index"], 0
    if version >= 3:
        e = need(tpc, "extended_transform_parameters", path)
        if need(e, "asym_transform_index_flag", path):
            out["wavelet_index_ho"] = int(need(e, "wavelet_index_ho", path))
        if need(e, "asym_transform_flag", path):
            out["dwt_depth_ho"] = int(need(e, "dwt_depth_ho", path))
    elif "extended_transform_parameters" in tpc:
        raise Unread("%s: extended transform parameters read although major_version is %d" % (path, version))
    sp = need(tpc, "slice_parameters", path)
    out["slices_x"], out["slices_y"] = int(need(sp, "slices_x", path)), int(need(sp, "slices_y", path))
    for k in (("slice_bytes_numerator", "slice_bytes_denominator") if mode == "ld" else ("slice_prefix_bytes", "slice_size_scaler")):
        out[k] = int(need(sp, k, path + ".slice_parameters"))
    for k in (("slice_prefix_bytes", "slice_size_scaler") if mode == "ld" else ("slice_bytes_numerator", "slice_bytes_denominator")):
        if k in sp:
            raise Unread("%s.slice_parameters: %s read in a %s data unit" % (path, k, mode))
    qm = need(tpc, "quant_matrix", path)
    bands = band_list(out["dwt_depth"], out["dwt_depth_ho"])
    if need(qm, "custom_quant_matrix", path + ".quant_matrix"):
        vals = [int(x) for x in need(qm, "quant_matrix", path + ".quant_matrix")]
        if len(vals) != len(bands):
            raise Unread("%s.quant_matrix holds %d values, 12.4.5.3 reads %d" % (path, len(vals), len(bands)))
        m = {}
        for (lv, o), x in zip(bands, vals):
            m.setdefault(lv, {})[o] = x
    else:
        key = (out["wavelet_index"], out["wavelet_index_ho"], out["dwt_depth"], out["dwt_depth_ho"])
        if key not in _qm():
            raise Unread("%s: no default quantisation matrix for %r although the validator accepted the stream" % (path, key))
        tab = _qm()[key]
        m = {}
        for (lv, o) in bands:
            m.setdefault(lv, {})[o] = int(tab[lv][o])
    out["quant_matrix"] = m
    return out


def first_array_difference(a, b, path="transform"):
    if type(a) is not type(b):
        return "%s: %s vs %s" % (path, type(a).__name__, type(b).__name__)
    if isinstance(a, dict):
        if set(a) != set(b):
            return "%s: keys %s vs %s" % (path, sorted(map(str, a)), sorted(map(str, b)))
        for k in a:
            d = first_array_difference(a[k], b[k], "%s[%r]" % (path, k))
            if d:
                return d
        return None
    if isinstance(a, list):
        if len(a) != len(b):
            return "%s: length %d vs %d" % (path, len(a), len(b))
        for i, (x, y) in enumerate(zip(a, b)):
            d = first_array_difference(x, y, "%s[%d]" % (path, i))
            if d:
                return d
        return None
    return None if a == b else "%s: validator %s, deserialiser %s" % (path, str(a)[:80], str(b)[:80])


def compare(data, v_units, v_pictures, ctx):
    """-> (mismatches [(clause, what, validator value, deserialiser value)], counts {units, values, coefficients, pictures})"""
    T = _env()["T"]
    mism = []
    counts = {"units": 0, "values": 0, "coefficients": 0, "pictures": 0}

    def bad(clause, what, v, d):
        if len(mism) < 12:
            mism.append((clause, what, _plain(v) if not isinstance(v, str) else v, _plain(d) if not isinstance(d, str) else d))

    # ---- B: sequences and data units
    v_seqs = [[]]
    for u in v_units:
        v_seqs[-1].append(u)
        if u.get("parse_code") == 0x10:
            v_seqs.append([])
    if not v_seqs[-1]:
        v_seqs.pop()
    try:
        d_seqs = [list(need(s, "data_units", "sequences[%d]" % i)) for i, s in enumerate(ctx.get("sequences", []))]
    except Unread as e:
        bad(CLAUSE_B, str(e), len(v_seqs), None)
        return mism, counts
    if len(v_seqs) != len(d_seqs):
        bad(CLAUSE_B, "number of sequences", len(v_seqs), len(d_seqs))
    offset = 0  # byte offset of the current data unit, derived from the parse offsets the validator verified
    d_pictures = []
    for si, (vs, ds) in enumerate(zip(v_seqs, d_seqs)):
        if len(vs) != len(ds):
            bad(CLAUSE_B, "number of data units in sequence %d" % si, len(vs), len(ds))
        seq = {"version": None, "vp": None, "pcm": None}  # what the deserialiser's latest sequence header says
        tp = {}  # mode -> the deserialiser's latest transform parameters
        pending = None
        v_run = {}  # the validator's latest value of every watched variable within this sequence

        def snapshot(st, path):
            """The description's per-picture copy of the parser state ('_state', when present) holds this data unit's values."""
            if st is None:
                return
            for k in sorted(v_run):
                if k == "quant_matrix":  # the deserialiser does not load default matrices (custom ones are compared from the description itself)
                    continue
                counts["values"] += 1
                if k not in st:
                    bad(CLAUSE_C, "%s._state lacks %s" % (path, k), v_run[k], "absent")
                elif _plain(st[k]) != v_run[k]:
                    bad(CLAUSE_C, "%s._state[%s] (the description's copy of the parser state for this picture's slices)" % (path, k), v_run[k], _plain(st[k]))

        for ui, (vu, du) in enumerate(zip(vs, ds)):
            path = "sequences[%d].data_units[%d]" % (si, ui)
            counts["units"] += 1
            try:
                pi = need(du, "parse_info", path)
                d_pi = {"parse_code": int(need(pi, "parse_code", path)), "next_parse_offset": int(need(pi, "next_parse_offset", path)),
                        "previous_parse_offset": int(need(pi, "previous_parse_offset", path))}
                if ui > 0:
                    offset += vu.get("previous_parse_offset", 0)
                if d_pi["parse_code"] != vu.get("parse_code"):
                    bad(CLAUSE_B, path + ": parse_code", vu.get("parse_code"), d_pi["parse_code"])
                    break  # the bodies are not comparable from here on
                for k in ("next_parse_offset", "previous_parse_offset"):
                    counts["values"] += 1
                    if vu.get(k) != d_pi[k]:
                        bad(CLAUSE_C, "%s.parse_info: %s" % (path, k), vu.get(k), d_pi[k])
                counts["values"] += 1
                if int(need(pi, "parse_info_prefix", path)) != PARSE_INFO_PREFIX:
                    bad(CLAUSE_C, path + ".parse_info: parse_info_prefix (the validator accepts only 0x42424344)", PARSE_INFO_PREFIX, int(pi["parse_info_prefix"]))
                if pi.get("_offset") is not None and int(pi["_offset"]) != offset:
                    bad(CLAUSE_B, path + ": byte offset of the data unit (from the parse offsets the validator verified vs the description's _offset)", offset, int(pi["_offset"]))
                v_run.update(vu)
                kind, mode = classify(d_pi["parse_code"])
                bodies = sorted(k for k in du if k != "parse_info" and not str(k).startswith("_"))
                want = {"sequence_header": ["sequence_header"], "picture": ["picture_parse"], "fragment": ["fragment_parse"], "auxiliary_data": ["auxiliary_data"],
                        "padding": ["padding"]}.get(kind, [])
                if bodies != want:
                    bad(CLAUSE_B, path + ": body of the data unit for parse code 0x%02X" % d_pi["parse_code"], want, bodies)
                    break
                d_vals = {}
                if kind == "sequence_header":
                    sh = du["sequence_header"]
                    pp = need(sh, "parse_parameters", path)
                    for k in ("major_version", "minor_version", "profile", "level"):
                        d_vals[k] = int(need(pp, k, path + ".parse_parameters"))
                    d_vals["picture_coding_mode"] = int(need(sh, "picture_coding_mode", path))
                    try:
                        d_vals["video_parameters"] = resolve_video_parameters(T, sh, path + ".sequence_header")
                    except (ValueError, KeyError) as e:
                        raise Unread("%s.sequence_header holds an index outside the standard's tables: %s" % (path, e))
                    seq = {"version": d_vals["major_version"], "vp": d_vals["video_parameters"], "pcm": d_vals["picture_coding_mode"]}
                elif kind in ("auxiliary_data", "padding"):
                    body = bytes(need(du[want[0]], "bytes", path))
                    n = d_pi["next_parse_offset"]
                    counts["values"] += 1
                    if body != data[offset + 13:offset + max(n, 13)]:
                        bad(CLAUSE_C, path + ": payload bytes (the stream's bytes between this parse_info and the next)", data[offset + 13:offset + max(n, 13)].hex(), body.hex())
                elif kind == "picture":
                    if seq["vp"] is None:
                        raise Unread(path + ": picture before any sequence header in the deserialised sequence")
                    ppar = du["picture_parse"]
                    d_vals["picture_number"] = int(need(need(ppar, "picture_header", path), "picture_number", path))
                    wt = need(ppar, "wavelet_transform", path)
                    d_tp = d_transform_parameters(T, need(wt, "transform_parameters", path), mode, seq["version"], path + ".transform_parameters")
                    d_vals.update(d_tp)
                    tdat = need(wt, "transform_data", path)
                    slices = list(need(tdat, "ld_slices" if mode == "ld" else "hq_slices", path + ".transform_data"))
                    pic = DPicture(T, seq["vp"], seq["pcm"], d_tp, mode, d_vals["picture_number"])
                    if len(slices) != pic.total:
                        raise UnreadSlice("%s.transform_data holds %d slices, the slice parameters give %d" % (path, len(slices), pic.total))
                    for n, sl in enumerate(slices):
                        pic.add_slice(n % d_tp["slices_x"], n // d_tp["slices_x"], sl, "%s.slices[%d]" % (path, n))
                    d_pictures.append(pic.finish())
                    snapshot(tdat.get("_state"), path + ".transform_data")
                elif kind == "fragment":
                    if seq["vp"] is None:
                        raise Unread(path + ": fragment before any sequence header in the deserialised sequence")
                    fp = du["fragment_parse"]
                    fh = need(fp, "fragment_header", path)
                    for k in ("picture_number", "fragment_data_length", "fragment_slice_count"):
                        d_vals[k] = int(need(fh, k, path + ".fragment_header"))
                    if d_vals["fragment_slice_count"] == 0:
                        for k in ("fragment_x_offset", "fragment_y_offset"):
                            if k in fh:
                                raise Unread("%s.fragment_header: %s read although fragment_slice_count is 0" % (path, k))
                        d_tp = d_transform_parameters(T, need(fp, "transform_parameters", path), mode, seq["version"], path + ".transform_parameters")
                        d_vals.update(d_tp)
                        tp[mode] = d_tp
                        pending = DPicture(T, seq["vp"], seq["pcm"], d_tp, mode, d_vals["picture_number"])
                    else:
                        for k in ("fragment_x_offset", "fragment_y_offset"):
                            d_vals[k] = int(need(fh, k, path + ".fragment_header"))
                        if pending is None or pending.mode != mode:
                            raise Unread(path + ": fragment with slices but no transform parameters for it in the deserialised sequence")
                        fd = need(fp, "fragment_data", path)
                        slices = list(need(fd, "ld_slices" if mode == "ld" else "hq_slices", path + ".fragment_data"))
                        if len(slices) != d_vals["fragment_slice_count"]:
                            raise UnreadSlice("%s.fragment_data holds %d slices, fragment_slice_count is %d" % (path, len(slices), d_vals["fragment_slice_count"]))
                        for s, sl in enumerate(slices):  # 14.4
                            n = d_vals["fragment_y_offset"] * pending.tp["slices_x"] + d_vals["fragment_x_offset"] + s
                            pending.add_slice(n % pending.tp["slices_x"], n // pending.tp["slices_x"], sl, "%s.slices[%d]" % (path, s))
                        if pending.received == pending.total:
                            d_pictures.append(pending.finish())
                            pending = None
                        snapshot(fd.get("_state"), path + ".fragment_data")
                # ---- C: the values of this data unit
                for k in KEYS_OF_KIND.get(kind, ()):
                    if k in vu or k in d_vals:
                        counts["values"] += len(VP_KEYS) if k == "video_parameters" else 1
                        if k not in vu or k not in d_vals:
                            bad(CLAUSE_C, "%s: %s read by only one parser" % (path, k), vu.get(k, "not read"), d_vals.get(k, "not read"))
                        elif vu[k] != d_vals[k]:
                            if isinstance(vu[k], dict) and isinstance(d_vals[k], dict):
                                diff = sorted(str(x) for x in set(vu[k]) | set(d_vals[k]) if vu[k].get(x, "absent") != d_vals[k].get(x, "absent"))
                                bad(CLAUSE_C, "%s: %s differs in %s" % (path, k, diff), {x: vu[k].get(x) for x in vu[k] if str(x) in diff}, {x: d_vals[k].get(x) for x in d_vals[k] if str(x) in diff})
                            else:
                                bad(CLAUSE_C, "%s: %s" % (path, k), vu[k], d_vals[k])
            except Unread as e:
                bad(CLAUSE_D if isinstance(e, UnreadSlice) else CLAUSE_C, str(e), "(accepted by the validator)", None)
                break
        offset += 13  # the end-of-sequence parse_info; the next sequence starts right after it
    # ---- D: transform data of every decoded picture
    if len(v_pictures) != len(d_pictures) and not mism:
        bad(CLAUSE_D, "number of complete pictures", len(v_pictures), len(d_pictures))
    for i, (vp_, dp) in enumerate(zip(v_pictures, d_pictures)):
        counts["pictures"] += 1
        if vp_["picture_number"] != dp["picture_number"]:
            bad(CLAUSE_D, "picture %d: picture number at picture_decode" % i, vp_["picture_number"], dp["picture_number"])
        for comp in ("Y", "C1", "C2"):
            counts["coefficients"] += sum(len(r) for lv in dp[comp].values() for band in lv.values() for r in band)
            d = first_array_difference(vp_[comp], dp[comp], "picture %d (number %d) %s_transform" % (i, dp["picture_number"], comp.lower()))
            if d:
                bad(CLAUSE_D, d, "see 'what'", "see 'what'")
                break
    return mism, counts


class _CaseTimeout(BaseException):
    pass


def _on_alarm(signum, frame):
    raise _CaseTimeout()


def check_stream(data, limit=None):
    """-> ("rejected", class) | ("ok", counts) | ("fail", [(clause, what, validator, deserialiser)], counts)
    `limit`: CPU seconds allowed to the deserialiser (needs the SIGPROF handler installed by the caller)."""
    t0 = time.process_time()
    _qm()
    v = run_validator(data)
    bad = _table_corruption()
    if bad:
        return ("fail", [("D", "the validator changed the shared table of default quantisation matrices while decoding this stream (later pictures that signal "
                          "the default matrix would be dequantised with other values than the deserialised stream implies)", repr(sorted(bad)[:3]), "table unchanged")],
                {"units": 0, "values": 0, "coefficients": 0, "pictures": 0})
    if v[0] == "rejected":
        return v
    tv = time.process_time() - t0
    none = {"units": 0, "values": 0, "coefficients": 0, "pictures": 0}
    try:
        if limit:
            signal.setitimer(signal.ITIMER_PROF, limit)
        try:
            ctx = run_deserialiser(data)
        finally:
            if limit:
                signal.setitimer(signal.ITIMER_PROF, 0)
    except _CaseTimeout:
        return ("fail", [(CLAUSE_A, "the deserialiser did not finish within %.0f CPU-seconds (the validator accepted the stream in %.3f s)" % (limit, tv), "accepted", "abandoned")], none)
    except Exception as e:  # the statement requires the deserialiser to read what the validator accepts (MemoryError: the worker's address-space cap)
        return ("fail", [(CLAUSE_A, "the deserialiser raised %s: %s" % (type(e).__name__, str(e)[:200]), "accepted", type(e).__name__)], none)
    mism, counts = compare(data, v[1], v[2], ctx)
    if v[2] and counts["pictures"] == 0 and not mism:
        raise CheckerError("pictures decoded by the validator were not compared")
    return ("fail", mism, counts) if mism else ("ok", counts)


# ======================================================================================================================
# 6. stream families: each maps (index, rng, tier) -> (stream bytes or None, tags)
# ======================================================================================================================
def normalise_tp(t, version):
    """Below major version 3 there are no extended transform parameters (12.4.1): flags that are set without effect go."""
    if version < 3:
        assert (t["depth_ho"] or 0) == 0 and (t["wavelet_ho"] is None or t["wavelet_ho"] == t["wavelet"])
        t = dict(t, wavelet_ho=None, depth_ho=None)
    return t


def write_sequence(bld, T, s, plan, first_picnum=0):
    """Header, the planned data units, end of sequence.  plan items: ("pic", tp, frag, style, kwargs) | ("aux", code, n) | ("sh",).
    The major version is the smallest one the sequence's features allow (11.2.2)."""
    version = max([sh_min_version(s)] + [tp_min_version(it[1], it[2] is not None) for it in plan if it[0] == "pic"])
    hdr = encode_sh(s, version)
    bld.unit(0x00, hdr)
    n = first_picnum
    for it in plan:
        if it[0] == "pic":
            emit_picture(bld, T, s, version, normalise_tp(it[1], version), n & 0xFFFFFFFF, it[3], frag=it[2], **it[4])
            n += 1
        elif it[0] == "aux":
            bld.aux(it[1], it[2])
        else:
            bld.unit(0x00, hdr)
            bld.tags.add("repeated sequence header")
    bld.end_sequence()
    return version


def custom_qm(rng, t):
    return [rng.choice([0, 0, 1, 2, 3, 4, 7, rng.randrange(12), rng.randrange(130)]) for _ in band_list(t["depth"], t["depth_ho"] or 0)]


def with_matrix(T, rng, t, prefer_custom=False):
    if prefer_custom or not tp_has_default_matrix(T, t):
        t = dict(t, qm=custom_qm(rng, t))
    return t


X1_SHAPES = [(2, 1, 0, 0), (4, 2, 2, 1)]  # (width, height, colour-difference format, dwt_depth)


def fam_x1(i, rng, tier, T):
    per2 = 4096 if tier == "quick" else 65536
    if i < 512:
        shape, nbytes, content = X1_SHAPES[i // 256], 1, i % 256
    else:
        j = i - 512
        step = 65536 // per2
        shape, nbytes, content = X1_SHAPES[j // per2], 2, (j % per2) * step + (j * 7) % step
    w, h, cdf, depth = shape
    bld = Builder(rng)
    t = tp_spec("ld", wavelet=1, depth=depth, ld=(nbytes, 1))
    bits = [int(c) for c in format(content, "0%db" % (8 * nbytes))]
    write_sequence(bld, T, sh_spec(0, w, h, cdf=cdf), [("pic", t, None, None, dict(slice_fn=lambda n: bits))])
    bld.tags.add("%d-byte LD slice, enumerated contents" % nbytes)
    return bld.tobytes(), bld.tags


def fam_x2(i, rng, tier, T):
    i, _draw = divmod(i, 1 if tier == "quick" else 4)
    i, prefix = divmod(i, 3)
    i, sc = divmod(i, 3)
    lengths = (i % 4, (i // 4) % 4, (i // 16) % 4)
    t = tp_spec("hq", wavelet=rng.randrange(7), depth=1, sx=2, sy=1, hq=(prefix, sc + 1))
    t = with_matrix(T, rng, t)
    bld = Builder(rng)
    dims = picture_dims(4, 2, 0, 0)
    fn = lambda n: hq_slice_bits(rng, dims, t, n, rng.choice(("coefs", "rand", "zero-run")), bld.tags, lengths=lengths)
    write_sequence(bld, T, sh_spec(3, 4, 2, cdf=0), [("pic", t, None, None, dict(slice_fn=fn))])
    return bld.tobytes(), bld.tags


X3_K = [1, 2, 7, 8, 15, 16, 30, 31, 32, 33, 62, 63, 64, 65, 126, 127, 128, 129, 254, 255, 256, 257, 511, 512, 1023, 1024]
X3_PLACES = ("hq", "hq-cut", "ld", "ld-cut")


def fam_x3(i, rng, tier, T):
    i, place = divmod(i, 4)
    place = X3_PLACES[place]
    i, neg = divmod(i, 2)
    i, delta = divmod(i, 3)
    k = X3_K[i % len(X3_K)]
    val = ((1 << k) + delta - 1) * (-1 if neg else 1)
    code = Bits().sint(val).b
    cut = place.endswith("cut")
    nbits = len(code) if not cut else rng.choice([len(code) - 1, len(code) - 2, len(code) // 2, len(code) // 2 + 1])
    bld = Builder(rng)
    bld.tags.add("large exp-Golomb value, " + place)
    q = rng.choice([0, 1, 5, 9, 30])
    if place.startswith("hq"):
        nbytes = (nbits + 7) // 8 if not cut else max(1, nbits // 8)
        scaler = (nbytes + 254) // 255
        ln = (nbytes + scaler - 1) // scaler
        t = tp_spec("hq", wavelet=4, depth=0, hq=(0, scaler))
        body = Bits().nbits(8, q).nbits(8, ln).raw(fit(rng, code + fill(rng, 7, "rand"), 8 * scaler * ln))
        body.nbits(8, 1).raw(fill(rng, 8 * scaler, "rand")).nbits(8, 0)
        write_sequence(bld, T, sh_spec(3, 2, 1, cdf=0), [("pic", t, None, None, dict(slice_fn=lambda n: body.b))])
    else:
        nbytes = (7 + 16 + nbits + 7) // 8 + 1
        lbits = intlog2(8 * nbytes - 7)
        left = 8 * nbytes - 7 - lbits
        ylen = min(left, nbits) if cut else left - rng.randrange(3)
        t = tp_spec("ld", wavelet=4, depth=0, ld=(nbytes, 1))
        body = Bits().nbits(7, q).nbits(lbits, ylen).raw(fit(rng, code + fill(rng, 9, "rand"), ylen)).raw(fill(rng, left - ylen, "rand"))
        write_sequence(bld, T, sh_spec(0, 2, 1, cdf=0), [("pic", t, None, None, dict(slice_fn=lambda n: body.b))])
    return bld.tobytes(), bld.tags


def _x4_cases():
    c = [("base", v) for v in range(23)] + [("cdf", v) for v in range(3)] + [("scan", v) for v in range(2)] + [("frame_rate", v) for v in range(17)]
    c += [("par", v) for v in range(7)] + [("sig", v) for v in range(9)] + [("color_spec", v) for v in range(8)] + [("primaries", v) for v in range(5)]
    c += [("matrix", v) for v in range(5)] + [("tf", v) for v in range(6)] + [("pcm_cdf_size", v) for v in range(2 * 3 * 4)] + [("clean", v) for v in range(6)]
    return c


X4_CASES = _x4_cases()
X4_SIZES = [(4, 2), (8, 4), (6, 4), (7, 6)]


def legal_size(w, h, cdf, pcm):
    """Smallest size >= (w, h) whose luma / colour-difference / field dimensions divide the frame (11.6.2 as the validator reads it)."""
    if cdf in (1, 2):
        w += w % 2
    m = (2 if cdf == 2 else 1) * (2 if pcm == 1 else 1)
    return w, -(-h // m) * m


def relegalise(T, s):
    """Grow the frame so that every component keeps whole samples (see legal_size); the clean area stays inside it."""
    w, h = legal_size(s["frame_size"][0], s["frame_size"][1], sh_effective_cdf(T, s), s["pcm"])
    if (w, h) != tuple(s["frame_size"]):
        s["frame_size"] = (w, h)
    cw, ch, lo, to = s["clean"]
    if cw + lo > w or ch + to > h:
        s["clean"] = (w, h, 0, 0)
    return s


def random_sh(T, rng, profile, wild):
    """A valid sequence header; `wild` also draws the optional fields."""
    w, h = rng.choice([(2, 2), (4, 2), (4, 4), (8, 4), (6, 4), (5, 3), (7, 6), (16, 8), (1, 1), (3, 2)])
    s = sh_spec(profile, w, h, base=rng.choice([0, 0, rng.randrange(23)]), cdf=rng.choice([None, 0, 1, 2]), pcm=rng.choice([0, 0, 1]))
    relegalise(T, s)
    s["clean"] = s["frame_size"] + (0, 0)
    w, h = s["frame_size"]
    if wild:
        opt = lambda f: f() if rng.random() < 0.5 else None
        s["scan"] = opt(lambda: rng.randrange(2))
        s["frame_rate"] = opt(lambda: (rng.randrange(17), rng.randrange(1, 70000), rng.randrange(1, 1200)))
        s["par"] = opt(lambda: (rng.randrange(7), rng.randrange(1, 100), rng.randrange(1, 100)))
        cw, ch = rng.randrange(1, w + 1), rng.randrange(1, h + 1)
        s["clean"] = (cw, ch, rng.randrange(w - cw + 1), rng.randrange(h - ch + 1))
        s["sig"] = opt(lambda: (rng.randrange(9), rng.randrange(300), rng.choice([1, 255, 876, 65535, (1 << 33) - 1]), rng.randrange(40000), rng.choice([1, 254, 1023, 65535])))
        s["color_spec"] = opt(lambda: (rng.randrange(8), opt(lambda: rng.randrange(5)), opt(lambda: rng.randrange(5)), opt(lambda: rng.randrange(6))))
    return s


def random_tp(T, rng, mode, allow_v3):
    depth = rng.choice([0, 1, 1, 2, 3])
    ho = rng.choice([0, 0, 0, 1, 2]) if allow_v3 and depth < 3 else 0
    wavelet = rng.randrange(7)
    wavelet_ho = rng.choice([None, None, wavelet, rng.randrange(7)]) if allow_v3 else None
    sx, sy = rng.choice([(1, 1), (2, 1), (1, 2), (2, 2), (3, 1), (3, 2), (4, 2), (4, 3), (5, 1)])
    den = rng.choice([1, 1, 2, 3])
    num = rng.choice([den, den + 1, 2 * den, 3 * den + 1, 5 * den, 8 * den + rng.randrange(den), 21 * den, 40 * den + 1])
    t = tp_spec(mode, wavelet=wavelet, depth=depth, wavelet_ho=wavelet_ho, depth_ho=(ho if ho else rng.choice([None, 0])) if allow_v3 else None, sx=sx, sy=sy,
                ld=(num, den), hq=(rng.choice([0, 0, 0, 1, 2, 5]), rng.choice([1, 1, 1, 2, 3])))
    return with_matrix(T, rng, t, prefer_custom=rng.random() < 0.35)


def fam_x4(i, rng, tier, T):
    field, v = X4_CASES[i % len(X4_CASES)]
    wild = i >= len(X4_CASES)
    profile = 3 if (i // len(X4_CASES) + i) % 2 else 0
    s = random_sh(T, rng, profile, wild)
    if field in ("base", "cdf", "scan"):
        s[field] = v
    elif field in ("frame_rate", "par"):
        s[field] = (v, rng.randrange(1, 100), rng.randrange(1, 100))
    elif field == "sig":
        s[field] = (v, 1, 2, 3, 4)
    elif field == "color_spec":
        s[field] = (v, 1, None, 2)
    elif field in ("primaries", "matrix", "tf"):
        s["color_spec"] = (0, v if field == "primaries" else None, v if field == "matrix" else 1, v if field == "tf" else None)
    elif field == "pcm_cdf_size":
        s["pcm"], s["cdf"] = v % 2, (v // 2) % 3
        s["frame_size"] = X4_SIZES[v // 6]
        s["clean"] = s["frame_size"] + (0, 0)
    else:
        w, h = s["frame_size"]
        s["clean"] = [(w, h, 0, 0), (1, 1, 0, 0), (1, 1, w - 1, h - 1), (w, 1, 0, h - 1), (1, h, w - 1, 0), (max(1, w - 1), max(1, h - 1), min(1, w - 1), min(1, h - 1))][v]
    relegalise(T, s)
    mode = "hq" if profile == 3 else "ld"
    t = random_tp(T, rng, mode, allow_v3=False)
    bld = Builder(rng)
    npics = 2 if s["pcm"] == 1 else 1
    write_sequence(bld, T, s, [("pic", t, None, None, {})] * npics, first_picnum=rng.choice([0, 2, 4000]))
    bld.tags.add("header field sweep: " + field)
    return bld.tobytes(), bld.tags


def _x5_table(T):
    """For each bit alignment 0..7 a sequence header / transform parameter set whose encoding ends there (found by search)."""
    sh, tpp, tpf = {}, {}, {}
    for num in range(1, 200):  # every exp-Golomb code has an odd length: the optional scan format supplies the other parity
        for scan in (None, 0):
            s = sh_spec(3, 8, 2, cdf=0, scan=scan, frame_rate=(0, num, 1))
            sh.setdefault(len(encode_sh(s, 2).b) % 8, s)
    for sx in range(1, 40):
        for depth, qm in ((1, None), (1, [0, sx % 3, 1, 2]), (0, [sx % 4]), (0, None)):
            t = tp_spec("hq", wavelet=1, depth=depth, sx=sx, sy=1, qm=qm)
            tpp.setdefault((32 + len(encode_tp(t, 2).b)) % 8, t)
            tpf.setdefault((64 + len(encode_tp(t, 3).b)) % 8, t)  # fragments need major version 3: two more flag bits (12.4.4.1)
    assert len(sh) == 8 and len(tpp) == 8 and len(tpf) == 8
    cases = []
    for where, table in (("sh", sh), ("tp-picture", tpp), ("tp-fragment", tpf)):
        for r in range(8):
            k = (-r) % 8
            cases.extend((where, table[r], k, v) for v in range(1 << k))
    return cases


def fam_x5(i, rng, tier, T):
    if "x5" not in _ENV:
        _ENV["x5"] = _x5_table(T)
    where, spec, k, v = _ENV["x5"][i % len(_ENV["x5"])]
    pad = [int(c) for c in format(v, "0%db" % k)] if k else []
    bld = Builder(rng)
    if where == "sh":
        bld.unit(0x00, Bits().raw(encode_sh(spec, 2).b).raw(pad))
        emit_picture(bld, T, spec, 2, tp_spec("hq", wavelet=1, depth=1, sx=2), 0, None)  # (version 2: HQ profile, nothing newer)
        bld.end_sequence()
    elif where == "tp-picture":
        write_sequence(bld, T, sh_spec(3, 40, 2, cdf=0), [("pic", spec, None, None, dict(tp_pad=pad))])
    else:  # 14.2 + 12.4 of the first fragment: 32 + 16 + 16 bits before the transform parameters, same alignment as after a picture number
        write_sequence(bld, T, sh_spec(3, 40, 2, cdf=0), [("pic", spec, rng.choice([1, 2, spec["sx"]]), None, dict(tp_pad=pad))])
    bld.tags.add("all padding patterns: " + where)
    return bld.tobytes(), bld.tags


X6_N = list(range(41)) + [255, 256, 257]
X6_PLACES = ("after-header", "between-pictures", "before-end", "between-fragments")


def fam_x6(i, rng, tier, T):
    i, place = divmod(i, 4)
    i, code = divmod(i, 2)
    n = X6_N[i % len(X6_N)]
    code = (0x20, 0x30)[code]
    place = X6_PLACES[place]
    profile = rng.choice([0, 3])
    mode = "hq" if profile == 3 else "ld"
    s = random_sh(T, rng, profile, False)
    s["pcm"] = 0
    t = with_matrix(T, rng, tp_spec(mode, wavelet=rng.randrange(7), depth=1, sx=2, sy=2, ld=(7, 2), hq=(1, 1)))
    bld = Builder(rng)
    a = ("aux", code, n)
    kw = dict(zero_next=True)
    if place == "between-fragments":
        version = 3
        bld.unit(0x00, encode_sh(s, version))
        emit_picture(bld, T, s, version, t, 7, None, frag=rng.choice([1, 2, 3]), between=lambda: bld.aux(code, n), zero_next=True)
        bld.end_sequence()
    else:
        plan = {"after-header": [a, ("pic", t, None, None, kw), ("pic", t, None, None, kw)], "between-pictures": [("pic", t, None, None, kw), a, ("pic", t, None, None, kw)],
                "before-end": [("pic", t, None, None, kw), a]}[place]
        write_sequence(bld, T, s, plan, first_picnum=rng.choice([0, 1, (1 << 32) - 1]))
    bld.tags.add("aux/padding payload sweep, " + place)
    return bld.tobytes(), bld.tags


X7_LD = [(num, den) for den in (1, 2, 3) for num in range(den, 13)]
X7_GRIDS = [(1, 1), (2, 1), (3, 2), (4, 3)]
X7_FRAGS = (None, 1, 2, 3, "all")


def fam_x7(i, rng, tier, T):
    nld = len(X7_LD) * 4 * 5
    if i < nld:
        i, f = divmod(i, 5)
        i, g = divmod(i, 4)
        mode, ld, hq = "ld", X7_LD[i % len(X7_LD)], (0, 1)
    else:
        i -= nld
        i, f = divmod(i, 5)
        i, g = divmod(i, 4)
        mode, ld, hq = "hq", (4, 1), [(0, 1), (1, 2), (3, 3)][i % 3]
    sx, sy = X7_GRIDS[g]
    frag = X7_FRAGS[f]
    frag = sx * sy if frag == "all" else frag
    t = with_matrix(T, rng, tp_spec(mode, wavelet=rng.randrange(7), depth=1, sx=sx, sy=sy, ld=ld, hq=hq))
    bld = Builder(rng)
    s = sh_spec(0 if mode == "ld" else 3, 8, 4, cdf=rng.randrange(3))
    write_sequence(bld, T, s, [("pic", t, frag, None, {}), ("pic", t, frag, None, {})], first_picnum=rng.choice([0, 9]))
    return bld.tobytes(), bld.tags


def _x8_cases():
    out = []
    for wavelet in range(7):
        for depth in range(4):
            for ho in range(3):
                if depth + ho > 4:
                    continue
                for custom in (False, True):
                    for mode in ("ld", "hq"):
                        for asym in ("clear", "set-same", "different"):
                            out.append((wavelet, depth, ho, custom, mode, asym))
    return out


X8_CASES = _x8_cases()


def fam_x8(i, rng, tier, T):
    wavelet, depth, ho, custom, mode, asym = X8_CASES[i % len(X8_CASES)]
    wavelet_ho = None if asym == "clear" else wavelet if asym == "set-same" else (wavelet + 1 + rng.randrange(6)) % 7
    t = tp_spec(mode, wavelet=wavelet, depth=depth, wavelet_ho=wavelet_ho, depth_ho=ho if ho else (0 if asym == "set-same" else None), sx=2, sy=2, ld=(rng.choice([9, 17, 40]), 1),
                hq=(rng.randrange(2), rng.choice([1, 2])))
    t = with_matrix(T, rng, t, prefer_custom=custom)
    if not custom and t["qm"] is not None:
        return None, {"no default quantisation matrix for this transform (skipped)"}
    need_v3 = ho != 0 or asym != "clear"
    frag = rng.choice([1, 2, 4]) if need_v3 and tp_min_version(t, False) < 3 else rng.choice([None, None, 2]) if need_v3 else None
    bld = Builder(rng)
    s = sh_spec(0 if mode == "ld" else 3, rng.choice([8, 12, 16]), rng.choice([4, 8]), cdf=rng.randrange(3))
    write_sequence(bld, T, s, [("pic", t, frag, None, {})])
    bld.tags.add("quantisation matrix: " + ("custom" if t["qm"] is not None else "default"))
    return bld.tobytes(), bld.tags


def fam_r1(i, rng, tier, T):
    bld = Builder(rng)
    for _seq in range(rng.choice([1, 1, 1, 2, 3])):
        profile = rng.choice([0, 3])
        mode = "hq" if profile == 3 else "ld"
        s = random_sh(T, rng, profile, rng.random() < 0.6)
        fragments = rng.random() < 0.4
        v3 = fragments or sh_min_version(s) == 3 or rng.random() < 0.3
        npics = rng.choice([0, 1, 1, 2, 3, 4])
        if s["pcm"] == 1:
            npics += npics % 2
        first = rng.choice([0, 2, 10, (1 << 32) - 2, 2 * rng.randrange(1 << 30)])
        plan = []
        t = random_tp(T, rng, mode, v3)
        for _ in range(npics):
            if rng.random() < 0.4:
                t = random_tp(T, rng, mode, v3)
            total = t["sx"] * t["sy"]
            frag = None
            if fragments:
                frag, left = [], total
                while left:
                    g = rng.randrange(1, left + 1) if rng.random() < 0.7 else 1
                    frag.append(g)
                    left -= g
            r = rng.random()
            if r < 0.25:
                plan.append(("aux", rng.choice([0x20, 0x30]), None))
            elif r < 0.35:
                plan.append(("sh",))
            kw = dict(zero_next=rng.random() < 0.3)
            if fragments and rng.random() < 0.3:
                kw["between"] = lambda: bld.aux(rng.choice([0x20, 0x30])) if rng.random() < 0.4 else None
            plan.append(("pic", t, frag, rng.choice([None, None, "coefs", "rand"]), kw))
        if rng.random() < 0.2:
            plan.append(("aux", rng.choice([0x20, 0x30]), None))
        if npics and v3 and not fragments and sh_min_version(s) < 3 and all(tp_min_version(it[1], False) < 3 for it in plan if it[0] == "pic"):
            # nothing requires version 3: make one picture's transform asymmetric so that the extended parameters are legitimate
            k = next(j for j, it in enumerate(plan) if it[0] == "pic")
            t3 = dict(plan[k][1], depth_ho=1 if plan[k][1]["depth"] < 3 else 0, wavelet_ho=(plan[k][1]["wavelet"] + 1) % 7)
            plan[k] = ("pic", with_matrix(T, rng, dict(t3, qm=None), prefer_custom=rng.random() < 0.3),) + plan[k][2:]
        write_sequence(bld, T, s, plan, first_picnum=first)
    return bld.tobytes(), bld.tags


# ---- encoder output ---------------------------------------------------------------------------------------------------
def fam_enc(i, rng, tier, T):
    from vc2_conformance import bitstream as bs
    from vc2_conformance.codec_features import CodecFeatures
    from vc2_conformance.encoder import make_sequence
    from vc2_conformance.pseudocode.video_parameters import VideoParameters

    variant = i % 3
    profile = rng.choice([0, 3])
    lossless = profile == 3 and rng.random() < 0.5
    w, h = rng.choice([(4, 2), (8, 4), (8, 8), (6, 4), (7, 3), (16, 8), (2, 2)])
    pcm = rng.choice([0, 0, 1])
    cdf = rng.randrange(3)
    w, h = legal_size(w, h, cdf, pcm)
    depth = rng.choice([0, 1, 1, 2, 3])
    ho = rng.choice([0, 0, 1, 2]) if depth < 3 else 0
    wavelet = rng.randrange(7)
    wavelet_ho = wavelet if rng.random() < 0.7 else rng.randrange(7)
    sx, sy = rng.choice([(1, 1), (2, 1), (2, 2), (3, 1), (4, 2)])
    frag = rng.choice([0, 0, 1, 2, 3])
    ydepth, cdepth = rng.choice([(8, 8), (10, 10), (8, 8), (12, 9)])
    key = (wavelet, wavelet_ho, depth, ho)
    qm = None
    if key not in _qm() or rng.random() < 0.25:
        qm = {}
        for (lv, o) in band_list(depth, ho):
            qm.setdefault(lv, {})[o] = rng.randrange(6)
    vp = VideoParameters(
        frame_width=w, frame_height=h, color_diff_format_index=T.ColorDifferenceSamplingFormats(cdf), source_sampling=T.SourceSamplingModes(pcm), top_field_first=True,
        frame_rate_numer=25, frame_rate_denom=1, pixel_aspect_ratio_numer=1, pixel_aspect_ratio_denom=1, clean_width=w, clean_height=h, left_offset=0, top_offset=0,
        luma_offset=0, luma_excursion=(1 << ydepth) - 1, color_diff_offset=1 << (cdepth - 1), color_diff_excursion=(1 << cdepth) - 1,
        color_primaries_index=T.PresetColorPrimaries(0), color_matrix_index=T.PresetColorMatrices(0), transfer_function_index=T.PresetTransferFunctions(0))
    cf = CodecFeatures(name="c08", level=T.Levels(0), profile=T.Profiles(profile), picture_coding_mode=T.PictureCodingModes(pcm), video_parameters=vp,
                       wavelet_index=T.WaveletFilters(wavelet), wavelet_index_ho=T.WaveletFilters(wavelet_ho), dwt_depth=depth, dwt_depth_ho=ho, slices_x=sx, slices_y=sy,
                       fragment_slice_count=frag, lossless=lossless, picture_bytes=None if lossless else sx * sy * rng.choice([6, 10, 24, 60]), quantization_matrix=qm)
    lw, lh, cw, ch = picture_dims(w, h, cdf, pcm)
    first = rng.choice([0, 2, (1 << 32) - 2])
    pics = []
    for n in range(2 if pcm else rng.choice([1, 2])):
        style = rng.randrange(3)
        pic = {"pic_num": (first + n) & 0xFFFFFFFF}
        for comp, cw_, ch_, top in (("Y", lw, lh, (1 << ydepth) - 1), ("C1", cw, ch, (1 << cdepth) - 1), ("C2", cw, ch, (1 << cdepth) - 1)):
            pic[comp] = [[(top if style == 0 else (x * 37 + y * 11) % (top + 1) if style == 1 else rng.randrange(top + 1)) for x in range(cw_)] for y in range(ch_)]
        pics.append(pic)
    tags = {"encoder: %s %s" % ("LD" if profile == 0 else "HQ", "lossless" if lossless else "lossy")}
    try:
        seq = make_sequence(cf, pics)
    except Exception as e:  # the encoder declines this combination (input production only; counted, floor on the yield)
        return None, {"encoder declined: " + type(e).__name__}
    units = seq["data_units"]
    if variant == 1:
        out = []
        for du in units:
            if rng.random() < 0.4 and out:
                out.append(bs.DataUnit(parse_info=bs.ParseInfo(parse_code=T.ParseCodes.padding_data), padding=bs.Padding(bytes=bytes(rng.randrange(256) for _ in range(rng.randrange(9))))))
            if rng.random() < 0.3 and out:
                out.append(bs.DataUnit(parse_info=bs.ParseInfo(parse_code=T.ParseCodes.auxiliary_data), auxiliary_data=bs.AuxiliaryData(bytes=bytes(rng.randrange(256) for _ in range(rng.randrange(5))))))
            if rng.random() < 0.2 and out and "fragment_parse" not in du:
                out.append(copy.deepcopy(units[0]))
            out.append(du)
        seq["data_units"] = out
        tags.add("encoder output + padding / auxiliary units / repeated headers")
    elif variant == 2 and profile == 3:
        k = rng.choice([1, 2, 5])
        for du in units:
            slices = []
            tpc = None
            if "picture_parse" in du:
                wt = du["picture_parse"]["wavelet_transform"]
                tpc, slices = wt["transform_parameters"], wt["transform_data"]["hq_slices"]
            elif "fragment_parse" in du:
                fp = du["fragment_parse"]
                tpc = fp.get("transform_parameters")
                slices = fp["fragment_data"]["hq_slices"] if "fragment_data" in fp else []
            if tpc is not None:
                tpc["slice_parameters"]["slice_prefix_bytes"] = k
            for sl in slices:
                sl["prefix_bytes"] = bytes(rng.randrange(256) for _ in range(k))
        tags.add("encoder output + HQ slice prefix bytes")
    f = io.BytesIO()
    try:
        bs.autofill_and_serialise_stream(f, bs.Stream(sequences=[seq]))
    except Exception as e:  # input production only (counted; the floor on the yield keeps the family from silently vanishing)
        return None, {"serialiser declined: " + type(e).__name__}
    return f.getvalue(), tags


FAMILIES = {
    "ENC": (fam_enc, False, "ENC encoder output: project encoder + serialiser on seeded codec features (LD/HQ, lossless/lossy, wavelets 0..6, depth 0..3, ho depth 0..2, slice grids up to 4x2, "
                            "fragments of 1..3 slices, fields, three colour formats, sizes 2x2..16x8) x {plain, + padding/aux/repeated headers, + HQ prefix bytes}"),
    "X1": (fam_x1, True, "X1 one-slice LD picture: every 1-byte slice content x 2 shapes; 2-byte slice contents x 2 shapes (all 65536 thorough / stride sample of 4096 quick)"),
    "X2": (fam_x2, False, "X2 HQ picture of 2 slices: slice_{y,c1,c2}_length in {0..3}^3 x slice_size_scaler {1,2,3} x slice_prefix_bytes {0,1,2}, seeded payloads"),
    "X3": (fam_x3, False, "X3 exp-Golomb magnitudes 2^k-1, 2^k, 2^k+1 for k in %s, both signs, first HQ / LD coefficient, whole and cut by the end of the block" % (X3_K,)),
    "X4": (fam_x4, False, "X4 sequence header: every base video format, every preset index of every field (custom = index 0 too), picture coding mode x colour format x 4 frame sizes, "
                         "6 clean areas; other fields default (first pass) or seeded (further passes); one frame of pictures follows"),
    "X5": (fam_x5, True, "X5 padding bits: sequence-header end, transform-parameter end in a picture and in a first fragment, at each bit alignment 0..7 x all padding patterns"),
    "X6": (fam_x6, False, "X6 auxiliary (0x20) and padding (0x30) units with payloads of 0..40 and 255..257 bytes x {after the header, between pictures, before the end, between fragments}; "
                         "pictures / fragments with next_parse_offset 0 or exact"),
    "X7": (fam_x7, False, "X7 LD slice_bytes numerator/denominator in {n/d: d in 1..3, d <= n <= 12} and HQ (prefix, scaler) in {(0,1),(1,2),(3,3)} x slice grids {1x1,2x1,3x2,4x3} x "
                         "fragments of {none, 1, 2, 3, all} slices; two pictures each"),
    "X8": (fam_x8, False, "X8 wavelet 0..6 x dwt_depth 0..3 x dwt_depth_ho 0..2 (sum <= 4) x {default, custom} quantisation matrix x {LD, HQ} x asymmetric wavelet flag {clear, set to the same, different}"),
    "R1": (fam_r1, False, "R1 seeded conformant streams: 1..3 sequences, random valid headers, 0..4 pictures as pictures or fragment runs with random splits, changing transform parameters, "
                          "padding / auxiliary units, repeated headers, picture numbers wrapping at 2^32"),
}
FLOOR = {"X1": 0.30}  # 2-byte LD slices: only slice_y_length values that fit are in the domain (6 of 16 length codes)


def _sizes(tier):
    q = tier == "quick"
    return {
        "ENC": 60 if q else 420,
        "X1": 512 + 2 * (4096 if q else 65536),
        "X2": 64 * 9 * (1 if q else 4),
        "X3": len(X3_K) * 3 * 2 * 4 * (1 if q else 3),
        "X4": len(X4_CASES) * (2 if q else 8),
        "X5": 765 * (1 if q else 3),
        "X6": len(X6_N) * 2 * 4 * (1 if q else 3),
        "X7": (len(X7_LD) + 3) * 4 * 5 * (1 if q else 3),
        "X8": len(X8_CASES) * (1 if q else 3),
        "R1": 4000 if q else 40000,
    }


# ======================================================================================================================
# 7. workers and the hook
# ======================================================================================================================
def _worker_init():
    """gc.freeze: forked workers inherit every object of the parent; without it each full collection walks (and copies) them all.
    Address-space cap: a parser that misreads a length could otherwise allocate gigabytes in one uninterruptible call."""
    import gc
    import resource

    gc.freeze()
    _env()
    with open("/proc/self/statm") as f:
        now = int(f.read().split()[0]) * resource.getpagesize()
    soft, hard = resource.getrlimit(resource.RLIMIT_AS)
    cap = now + WORKER_EXTRA_BYTES
    if hard == resource.RLIM_INFINITY or cap < hard:
        resource.setrlimit(resource.RLIMIT_AS, (cap, hard))


def run_chunk(task):
    seed, tier, fam, start, stop = task
    T = _env()["T"]
    gen = FAMILIES[fam][0]
    res = {"family": fam, "n": 0, "generated": 0, "accepted": 0, "rejected": {}, "tags": {}, "fails": [], "nfails": 0, "samples": [], "bytes": 0,
           "counts": {"units": 0, "values": 0, "coefficients": 0, "pictures": 0}}
    try:
        signal.signal(signal.SIGPROF, _on_alarm)
        limit = CASE_SECONDS
    except ValueError:  # not in a main thread: no time limit available
        limit = None
    for i in range(start, stop):
        rng = random.Random("C08|%d|%s|%d" % (seed, fam, i))
        data, tags = gen(i, rng, tier, T)
        res["n"] += 1
        if data is None:
            for t in tags:
                res["tags"][t] = res["tags"].get(t, 0) + 1
            continue
        res["generated"] += 1
        r = check_stream(data, limit)
        if r[0] == "rejected":
            res["rejected"][r[1]] = res["rejected"].get(r[1], 0) + 1
            continue
        res["accepted"] += 1
        res["bytes"] += len(data)
        for t in tags:
            res["tags"][t] = res["tags"].get(t, 0) + 1
        counts = r[-1]
        for k in res["counts"]:
            res["counts"][k] += counts[k]
        if r[0] == "fail":
            res["nfails"] += 1
            if len(res["fails"]) < 4:
                res["fails"].append({"family": fam, "index": i, "mismatches": [list(m) for m in r[1][:4]], "stream_hex": data.hex(), "tags": sorted(tags)})
        elif not res["samples"] and i % 17 == 0:
            res["samples"].append({"family": fam, "index": i, "bytes": len(data), "stream_hex": data.hex()[:120] + ("..." if len(data) > 60 else ""), "compared": counts, "tags": sorted(tags)[:4]})
    return res


REPRO = ("cd /verif && VERIF_REPO=<tree> .venv/bin/python -c \"from pyvc import frontend; frontend.ensure_repo_on_path(); from bounded import c08_twin_parsers as m; "
         "print(m.check_stream(bytes.fromhex('STREAM_HEX')))\"")


def canary(T):
    """The comparison itself is not vacuous: differences injected into one observation of a good stream are all noticed."""
    rng = random.Random(8)
    bld = Builder(rng)
    t = with_matrix(T, rng, tp_spec("ld", wavelet=1, depth=1, sx=2, sy=1, ld=(9, 1)))
    write_sequence(bld, T, sh_spec(0, 4, 2, cdf=0), [("pic", t, None, "coefs", dict(qindex=5)), ("aux", 0x20, 3)])
    data = bld.tobytes()
    v = run_validator(data)
    if v[0] != "accepted":
        return False, "canary stream rejected: %r" % (v,)
    r = check_stream(data)
    if r[0] != "ok":  # the two parsers already disagree on this plain stream: that is for the families to report, not a property of the oracle
        return True, "not evaluated: the tree under check does not pass the canary stream itself (%s)" % (r[1][0][1][:120],)
    missed = []

    def mutate(name, f, clause):
        ctx = run_deserialiser(data)
        f(ctx)
        got = compare(data, v[1], v[2], ctx)[0]
        if not any(m[0] == clause for m in got):
            missed.append(name)

    du = lambda ctx, n: ctx["sequences"][0]["data_units"][n]
    sl = lambda ctx: du(ctx, 1)["picture_parse"]["wavelet_transform"]["transform_data"]["ld_slices"][0]
    mutate("coefficient", lambda c: sl(c)["y_transform"].__setitem__(0, sl(c)["y_transform"][0] + 1), CLAUSE_D)
    mutate("qindex", lambda c: sl(c).__setitem__("qindex", 9), CLAUSE_D)
    mutate("chroma order", lambda c: sl(c)["c_transform"].reverse() or sl(c)["c_transform"].__setitem__(0, 77), CLAUSE_D)
    mutate("picture number", lambda c: du(c, 1)["picture_parse"]["picture_header"].__setitem__("picture_number", 1), CLAUSE_C)
    mutate("slices_x", lambda c: du(c, 1)["picture_parse"]["wavelet_transform"]["transform_parameters"]["slice_parameters"].__setitem__("slice_bytes_numerator", 8), CLAUSE_C)
    mutate("frame width", lambda c: du(c, 0)["sequence_header"]["video_parameters"]["frame_size"].__setitem__("frame_width", 5), CLAUSE_C)
    mutate("aux payload", lambda c: du(c, 2)["auxiliary_data"].__setitem__("bytes", b"\x00\x01"), CLAUSE_C)
    mutate("dropped unit", lambda c: c["sequences"][0]["data_units"].pop(2), CLAUSE_B)
    mutate("parse code", lambda c: du(c, 2)["parse_info"].__setitem__("parse_code", 0x30), CLAUSE_B)
    return not missed, "injected differences not noticed: %s" % (missed or "none")


def check(rep, tier, seed):
    from pyvc import frontend

    frontend.ensure_repo_on_path()
    E = _env()  # imported before forking so that the workers share the tree under check
    ok, detail = canary(E["T"])
    rep.add_eval_fact("C08 oracle is sensitive: nine differences injected into the deserialised description of a good stream are each reported under the right clause", ok, detail)

    sizes = _sizes(tier)
    tasks = [(seed, tier, fam, a, min(a + CHUNK, n)) for fam, n in sizes.items() for a in range(0, n, CHUNK)]
    tasks.sort(key=lambda t: (t[2] not in ("ENC", "R1", "X3"), t[3]))  # long families first
    agg = {}
    ctx = multiprocessing.get_context("fork")
    with ctx.Pool(WORKERS, initializer=_worker_init) as pool:
        for r in pool.imap_unordered(run_chunk, tasks):
            a = agg.setdefault(r["family"], {"n": 0, "generated": 0, "accepted": 0, "rejected": {}, "tags": {}, "fails": [], "nfails": 0, "samples": [], "bytes": 0,
                                             "counts": {"units": 0, "values": 0, "coefficients": 0, "pictures": 0}})
            for k in ("n", "generated", "accepted", "nfails", "bytes"):
                a[k] += r[k]
            for k in ("rejected", "tags", "counts"):
                for t, c in r[k].items():
                    a[k][t] = a[k].get(t, 0) + c
            a["fails"].extend(r["fails"])
            a["samples"].extend(r["samples"])

    total = {"streams": 0, "units": 0, "values": 0, "coefficients": 0, "pictures": 0}
    for fam in sizes:
        a = agg[fam]
        total["streams"] += a["accepted"]
        for k in a["counts"]:
            total[k] += a["counts"][k]
        note = ("accepted by the validator %d of %d generated (%d indices produced no stream); rejected by class: %s; compared: %d data units, %d header/parameter values, %d pictures, "
                "%d coefficients; %d input bytes; contract failures: %d; corner counts: %s" % (
                    a["accepted"], a["generated"], a["n"] - a["generated"], a["rejected"] or "none", a["counts"]["units"], a["counts"]["values"], a["counts"]["pictures"],
                    a["counts"]["coefficients"], a["bytes"], a["nfails"], ", ".join("%s=%d" % kv for kv in sorted(a["tags"].items())[:16])))
        rep.add_bounded("C08 twin parsers (clauses A-D) - " + fam, FAMILIES[fam][2] + " [%s tier, %d cases]" % (tier, sizes[fam]), a["generated"],
                        FAMILIES[fam][1] and not (fam == "X1" and tier == "quick"), distinct=a["accepted"], samples=sorted(a["samples"], key=lambda s: s["index"])[:2], note=note)
    low = {fam: "%d/%d" % (agg[fam]["accepted"], agg[fam]["n"]) for fam in sizes if agg[fam]["accepted"] < FLOOR.get(fam, 0.5) * agg[fam]["n"]}
    rep.add_eval_fact("C08 domain is not vacuous: in every family the validator accepts at least the stated share of the cases (0.5; X1: 0.3) and pictures were compared",
                      not low and total["pictures"] > 0 and total["coefficients"] > 0, "families below the floor: %s; pictures compared: %d" % (low or "none", total["pictures"]))
    crashes = {fam: {k: c for k, c in agg[fam]["rejected"].items() if k.startswith("UNEXPECTED")} for fam in sizes}
    crashes = {fam: v for fam, v in crashes.items() if v}
    rep.add_eval_fact("C08 checker precondition: on the generated streams the validator either accepts or raises a ConformanceError (any other exception leaves the stream "
                      "outside the statement's domain and is listed here)", not crashes, "other exceptions by family: %s" % (crashes or "none"))
    rep.extra_coverage["c08_compared"] = total

    fails = sorted((f for a in agg.values() for f in a["fails"]), key=lambda f: (len(f["stream_hex"]), f["family"], f["index"]))
    budget, seen_fam = {}, set()
    for rnd in (0, 1):  # first one per family and clause, then fill up to MAX_REPORTS per clause
        for f in fails:
            clause = f["mismatches"][0][0]
            if f.get("_done") or budget.get(clause, 0) >= MAX_REPORTS or (rnd == 0 and (f["family"], clause) in seen_fam):
                continue
            f["_done"] = True
            seen_fam.add((f["family"], clause))
            budget[clause] = budget.get(clause, 0) + 1
            m = f["mismatches"][0]
            rep.violation("%s-%s-%d" % (clause[0], f["family"], f["index"]), {
                "what": "C08 clause %s - violated for a stream the validator accepts: %s" % (clause, m[1]),
                "inputs": {"stream_hex": f["stream_hex"], "family": f["family"], "case_index": f["index"], "seed": seed, "tier": tier, "corner_tags": f["tags"]},
                "expected": {"validator": m[2]},
                "observed": {"deserialiser": m[3], "further_mismatches": [x[1] for x in f["mismatches"][1:]]},
                "reproduce": REPRO.replace("STREAM_HEX", f["stream_hex"]),
                "failing_cases_in_family": agg[f["family"]]["nfails"],
            })


REGISTER = {
    "C08": dict(
        extra=[check],
        level="other",
        assumptions=[
            "BOUNDED (not proved): the contract is evaluated only on the generated streams listed under bounded_checks (frames at most 16x8, at most 12 slices per picture, "
            "dwt_depth + dwt_depth_ho <= 4, exp-Golomb magnitudes up to 2^1024, at most 3 sequences per stream, level 0 only); exhaustive only within the stated small scopes (X families)",
            "'the validator accepts x' = vc2_conformance.decoder.parse_stream on init_io(State, BytesIO(x)) returns without a ConformanceError; rejected streams are outside the domain "
            "(counted per class); any other exception of the validator or any exception of the deserialiser aborts the check or is reported (clause A), never ignored",
            "observation of the validator: a State subclass recording which standard-named variables (parse_code, next/previous_parse_offset, major_version .. level, picture_coding_mode, "
            "video_parameters, picture_number, wavelet/dwt/slice parameters, quant_matrix, fragment_*) are assigned within each data unit, and the decoder.stream.picture_decode "
            "reference wrapped in-process to copy y/c1/c2_transform before the inverse transform; observation of the deserialiser: Deserialiser.context only",
            "TRUSTED reference written here from SMPTE ST 2042-1 (sections 10.5.2, 11.4, 11.6.2, 12.4, 13.2.3, 13.3, 13.4, 13.5.5, 13.5.6, 14.4) and the tables of the separate package "
            "vc2_data_tables (base video formats, presets, default quantisation matrices); its agreement with the tree on every compared value of the unchanged tree is the only check of it",
            "the input generators (independent bit packer + conformant stream syntax; the project's encoder and serialiser for the ENC family) only produce inputs; a generator error can "
            "only shrink the domain (validator acceptance is measured per family, floor 50%, X1 30%)",
            "aux / padding payloads and data-unit offsets are compared with the stream's own bytes at the positions implied by the parse offsets the validator verified",
        ],
        manifest=dict(
            category="other",
            technique="bounded differential check of the two parsers against an independent reference layout/dequantisation written from the standard: exhaustive small scopes + seeded "
                      "conformant-stream generation + encoder output; real validator and deserialiser code",
            text="For every generated stream the validator accepts: the deserialiser parses it to completion; sequences, data units and parse codes agree; every parse_info, sequence-header "
                 "(resolved to video parameters), picture-header, transform-parameter, slice-parameter, quantisation-matrix and fragment-header value agrees; and for every decoded picture "
                 "the deserialised slice coefficients, laid out, dequantised and DC-predicted by an independent implementation of the standard, equal the validator's transform arrays. "
                 "Domains: encoder output and variants; all 1-byte and all / sampled 2-byte LD slice contents; HQ length grids with prefix bytes and scalers; huge exp-Golomb values whole and "
                 "cut; every header preset; all padding-bit patterns; aux / padding payload lengths; LD slice-size and fragment-split grids; the wavelet x depth x matrix grid; seeded mixtures.",
            note="Bounded stand-in, never counted as proved. Larger frames, levels other than 0 and streams outside the generated families are not exercised; per-slice qindex is compared only "
                 "through the dequantised coefficients.",
        ),
    )
}
