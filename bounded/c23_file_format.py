"""C23 - raw picture files round-trip and comparisons are exact (bounded stand-in, never counted as proved).

Code under check: vc2_conformance/file_format.py (write / read / write_picture / read_picture / write_metadata /
read_metadata), vc2_conformance/dimensions_and_depths.py (compute_dimensions_and_depths) and
vc2_conformance/scripts/vc2_picture_compare.py (compare_pictures / main).

Every oracle below is written from the property statement, the file format description
(docs/source/user_guide/file_format.rst: planar Y,C1,C2; raster order; unsigned little-endian samples in the smallest
power-of-two number of bytes, zero padded; JSON {"picture_number": <string>, "picture_coding_mode": <int>,
"video_parameters": {...}}) and the standard's pseudocode picture_dimensions (11.6.2) / video_depth (11.6.3) - an
independent reference writer/reader (int.to_bytes / int.from_bytes) lives in this file (ref_*).

clause -> oracle -> domain
  dims        compute_dimensions_and_depths == ref_dims (11.6.2 / 11.6.3 + "smallest power-of-two number of bytes")
              exhaustive: frame sizes 0..16 x 0..16, 3 colour formats, 2 coding modes; excursions 2^k-2, 2^k-1, 2^k for
              every k up to 66 (130 thorough) and every excursion 1..1026, luma/colour-difference paired crosswise.
  raw-layout  bytes of the .raw file written by write()/write_picture == ref_encode(picture)         } one generated case
  metadata    .json written by write()/write_metadata has the documented structure; read_metadata     } checks all three;
              of it and of a reference-written .json returns equal values (enum / bool kinds kept)    } cases: every luma
  roundtrip   read(write(p)) == p through real files, read_picture(reference bytes) == p              } depth 1..64 (+ some
              (sample values, picture number, video parameters, coding mode)                          } >64), colour-diff.
              depth crosswise, 3 formats x 2 modes, odd sizes, 7 sample patterns + walking one/zero, picture numbers
              0 .. 2^32-1, list and numpy-object inputs, .raw / .json / dotted file names.
  allvalues   same three checks on one picture per depth d <= 16 (18 thorough) that holds EVERY sample value 0..2^d-1
              in every component (exhaustive in the sample value).
  cmp-identical  compare_pictures of two separately written equal pictures -> exit 0 and says "identical"
  cmp-samples    pictures differing in samples only -> exit != 0, never "Pictures are identical", and for each component
                 the reported pixel count (and percentage, if printed) equals the number of differing positions; a
                 component without differences is reported Identical.  Domain: every depth 1..64 (luma) x crosswise
                 colour-difference depth; EVERY single-bit difference 2^k (k < depth) at one pixel, full-scale, +D/-D
                 pairs, multiples of 2^16 / 2^31 / 2^32, +-1 at full-scale values, one component only, random subsets.
  cmp-metadata   equal samples (where the format allows) but ONE metadata item changed - each of the 20 video parameters
                 (incl. changes that keep size and depth), the coding mode, the picture number (n^1, n^2^31, 0 vs 2^32-1)
                 -> exit != 0 and never "Pictures are identical".
  cmp-padding    files whose samples are equal but whose padding bits differ -> still identical / exit 0; padding
                 garbage plus one real difference -> count 1.
  cli            main([a, b]) and main([dir_a, dir_b]) print/return the same verdicts (exit 0 iff every pair identical;
                 "Summary: i identical, d different" if printed must be right).

Bounds / exclusions (also listed under assumptions): components with zero samples (e.g. frame_width 1 with 4:2:2) are
outside the domain; the comparison tool is exercised for depths 1..64 only (the statement's range); PSNR figures are not
checked; missing-file / wrong-size error paths and --difference-mask are not part of the statement.
At most WORKERS (6) forked worker processes; deterministic for a fixed seed.
"""
import collections
import contextlib
import io
import json
import operator
import os
import random
import re
import shutil
import tempfile

WORKERS = 6
RT_REPS = {"quick": 2, "thorough": 12}  # generated picture sets per luma depth (one set = 6 formats x 7 patterns + a walking-bit picture)
CMP_REPS = {"quick": 2, "thorough": 8}  # base pictures per luma depth for the sample-difference comparisons
CLI_JOBS = {"quick": 30, "thorough": 300}
MAX_VIOLATIONS_PER_CLAUSE = 3
COMPONENTS = ("Y", "C1", "C2")
FORMATS = [(cf, pcm) for cf in (0, 1, 2) for pcm in (0, 1)]  # colour difference format index x picture coding mode
VP_KEYS = [
    "frame_width", "frame_height", "color_diff_format_index", "source_sampling", "top_field_first",
    "frame_rate_numer", "frame_rate_denom", "pixel_aspect_ratio_numer", "pixel_aspect_ratio_denom",
    "clean_width", "clean_height", "left_offset", "top_offset",
    "luma_offset", "luma_excursion", "color_diff_offset", "color_diff_excursion",
    "color_primaries_index", "color_matrix_index", "transfer_function_index",
]
ENUM_FIELDS = {
    "color_diff_format_index": "ColorDifferenceSamplingFormats",
    "source_sampling": "SourceSamplingModes",
    "color_primaries_index": "PresetColorPrimaries",
    "color_matrix_index": "PresetColorMatrices",
    "transfer_function_index": "PresetTransferFunctions",
}
PIC_NUMS = [0, 1, 2 ** 31 - 1, 2 ** 31, 2 ** 32 - 1, 2 ** 32 - 2, 255, 256, 65535, 65536, 2 ** 24, 3000000000]
PATTERNS = ["zero", "max", "bytes", "index", "edge", "random", "walk0"]
NAMES = ["pic_%d.raw", "pic_%d.json", "seq.v2_%d.raw", "take-1.final_%d.json", "p%d.raw"]
EDGE_INTS = [1, 2, 24, 25, 1000, 1001, 30000, 60000, 65535, 65536, 2 ** 31 - 1, 2 ** 31, 2 ** 32 - 1]

CLAUSE_TITLES = collections.OrderedDict([
    ("raw-layout", "the .raw file holds planar Y,C1,C2 samples in raster order, little-endian, zero padded, in the smallest power-of-two number of bytes"),
    ("metadata", "the .json file has the documented structure and reading it back returns identical video parameters, coding mode and picture number"),
    ("roundtrip", "writing a picture and reading it back returns identical values"),
    ("allvalues-raw-layout", "raw layout, picture holding every sample value of its depth"),
    ("allvalues-metadata", "metadata, picture holding every sample value of its depth"),
    ("allvalues-roundtrip", "round trip, picture holding every sample value of its depth"),
    ("cmp-identical", "the comparison tool reports 'identical' (exit 0) when all samples and metadata match"),
    ("cmp-samples", "the comparison tool reports differing pictures as different and counts the differing pixels of each component correctly"),
    ("cmp-metadata", "the comparison tool reports pictures whose metadata differ as different"),
    ("cmp-padding", "padding bits are not samples: pictures with equal samples compare identical"),
    ("cli", "vc2-picture-compare main(): exit 0 exactly when every compared pair is identical"),
])


# ------------------------------------------------------------------------------------------------------------------
# reference model (from the file format description and ST 2042-1 11.6.2 / 11.6.3; shares no code with the tree)
# ------------------------------------------------------------------------------------------------------------------
def ref_depth(excursion):
    """video_depth: intlog2(excursion + 1), intlog2(n) = ceil(log2(n)) = least d with 2^d >= n."""
    d = 0
    while (1 << d) < excursion + 1:
        d += 1
    return d


def ref_bytes_per_sample(depth):
    """'the smallest power-of-two number of bytes in which they fit'"""
    p = 1
    while 8 * p < depth:
        p *= 2
    return p


def ref_dims(vpd, pcm):
    """picture_dimensions + video_depth -> {component: (width, height, depth_bits, bytes_per_sample)}"""
    lw, lh = vpd["frame_width"], vpd["frame_height"]
    cw, ch = lw, lh
    cfi = int(vpd["color_diff_format_index"])
    if cfi == 1:
        cw //= 2
    if cfi == 2:
        cw //= 2
        ch //= 2
    if int(pcm) == 1:
        lh //= 2
        ch //= 2
    dl, dc = ref_depth(vpd["luma_excursion"]), ref_depth(vpd["color_diff_excursion"])
    return collections.OrderedDict([
        ("Y", (lw, lh, dl, ref_bytes_per_sample(dl))),
        ("C1", (cw, ch, dc, ref_bytes_per_sample(dc))),
        ("C2", (cw, ch, dc, ref_bytes_per_sample(dc))),
    ])


def ref_encode(pic, dims, padding=None):
    """Reference .raw writer.  padding: None (zeros, as the format demands) or {component: f(i) -> int} giving garbage
    to put in the bits above the depth (used to build files that differ in padding only)."""
    out = bytearray()
    for c in COMPONENTS:
        w, h, d, bps = dims[c]
        i = 0
        for row in pic[c]:
            for v in row:
                v = int(v)
                if padding and c in padding:
                    v |= (padding[c](i) << d) & ((1 << (8 * bps)) - 1)
                out += v.to_bytes(bps, "little")
                i += 1
    return bytes(out)


def ref_metadata_json(vpd, pcm, pic_num):
    return json.dumps({"picture_number": str(pic_num), "picture_coding_mode": int(pcm),
                       "video_parameters": {k: (v if isinstance(v, bool) else int(v)) for k, v in vpd.items()}}).encode("utf-8")


def ref_write(path_stem, vpd, pcm, pic, padding=None):
    """Reference writer of a .raw/.json pair (used to feed the comparison tool, independent of file_format.write)."""
    with open(path_stem + ".raw", "wb") as f:
        f.write(ref_encode(pic, ref_dims(vpd, pcm), padding))
    with open(path_stem + ".json", "wb") as f:
        f.write(ref_metadata_json(vpd, pcm, pic["pic_num"]))


def excursion_for_depth(d, which, rng):
    """An excursion whose depth (11.6.3) is d: the largest, the smallest, or a random one."""
    lo, hi = (1 << (d - 1)) if d > 1 else 1, (1 << d) - 1
    return [hi, lo, rng.randint(lo, hi)][which % 3]


def min_size(cf, pcm):
    """Smallest frame size for which no component is empty."""
    return (2 if cf else 1), (2 if cf == 2 else 1) * (2 if pcm else 1)


def pick_size(rng, cf, pcm, maxdim):
    mw, mh = min_size(cf, pcm)
    return rng.randint(mw, max(mw, maxdim)), rng.randint(mh, max(mh, maxdim))


def edges(d):
    mx = (1 << d) - 1
    s = {0, 1, mx, mx - 1, 1 << (d - 1), (1 << (d - 1)) - 1}
    for k in (7, 8, 15, 16, 24, 31, 32, 33, 48, 62, 63, 64):
        s.update((1 << k, (1 << k) - 1, (1 << k) + 1))
    return sorted(v for v in s if 0 <= v <= mx)


def gen_plane(rng, pattern, w, h, d, salt=0):
    mx = (1 << d) - 1
    ed = edges(d) if pattern == "edge" else None

    def val(i):
        if pattern == "zero":
            return 0
        if pattern == "max":
            return mx
        if pattern == "walk1":
            return 1 << ((i + salt) % d)
        if pattern == "walk0":
            return mx ^ (1 << ((i + salt) % d))
        if pattern == "bytes":  # every byte of a sample distinct and position dependent (byte order, raster order)
            v = 0
            for j in range((d + 7) // 8):
                v |= ((37 * i + 11 * j + salt + 1) & 0xFF) << (8 * j)
            return v & mx
        if pattern == "index":
            return (i + salt) & mx
        if pattern == "edge":
            return rng.choice(ed)
        if pattern == "random":
            return rng.getrandbits(d)
        if pattern == "high":  # random with the top bit set in half of the samples
            return rng.getrandbits(d) | ((1 << (d - 1)) if rng.random() < 0.5 else 0)
        raise ValueError(pattern)

    return [[val(y * w + x) for x in range(w)] for y in range(h)]


def gen_vpd(rng, w, h, cf, le, ce, enums):
    return collections.OrderedDict([
        ("frame_width", w), ("frame_height", h), ("color_diff_format_index", cf),
        ("source_sampling", rng.choice(enums["source_sampling"])), ("top_field_first", rng.random() < 0.5),
        ("frame_rate_numer", rng.choice(EDGE_INTS)), ("frame_rate_denom", rng.choice(EDGE_INTS)),
        ("pixel_aspect_ratio_numer", rng.choice(EDGE_INTS)), ("pixel_aspect_ratio_denom", rng.choice(EDGE_INTS)),
        ("clean_width", rng.randint(0, w)), ("clean_height", rng.randint(0, h)),
        ("left_offset", rng.randint(0, w)), ("top_offset", rng.randint(0, h)),
        ("luma_offset", rng.randint(0, le)), ("luma_excursion", le),
        ("color_diff_offset", rng.randint(0, ce)), ("color_diff_excursion", ce),
        ("color_primaries_index", rng.choice(enums["color_primaries_index"])),
        ("color_matrix_index", rng.choice(enums["color_matrix_index"])),
        ("transfer_function_index", rng.choice(enums["transfer_function_index"])),
    ])


def gen_picture(rng, vpd, pcm, patterns, pic_num, salt=0):
    dims = ref_dims(vpd, pcm)
    pic = {}
    for ci, c in enumerate(COMPONENTS):
        w, h, d, _ = dims[c]
        pic[c] = gen_plane(rng, patterns[ci], w, h, d, salt + 5 * ci)
    pic["pic_num"] = pic_num
    return pic


def copy_pic(pic):
    return {"Y": [list(r) for r in pic["Y"]], "C1": [list(r) for r in pic["C1"]], "C2": [list(r) for r in pic["C2"]], "pic_num": pic["pic_num"]}


def count_diffs(pa, pb):
    return {c: sum(1 for ra, rb in zip(pa[c], pb[c]) for a, b in zip(ra, rb) if a != b) for c in COMPONENTS}


# ------------------------------------------------------------------------------------------------------------------
# bookkeeping shared by parent and workers
# ------------------------------------------------------------------------------------------------------------------
def _j(x, depth=0):
    """JSON-able rendering of anything (for replay payloads)."""
    if isinstance(x, bool) or x is None or isinstance(x, str):
        return x
    if isinstance(x, int):
        return int(x)
    if isinstance(x, float):
        return x if x == x and abs(x) != float("inf") else repr(x)
    if isinstance(x, bytes):
        return x[:256].hex() + ("..." if len(x) > 256 else "")
    if isinstance(x, dict):
        return {str(k): _j(v, depth + 1) for k, v in list(x.items())[:64]}
    if isinstance(x, (list, tuple)):
        return [_j(v, depth + 1) for v in list(x)[:64]]
    if hasattr(x, "tolist") and depth < 4:
        try:
            return _j(x.tolist(), depth + 1)
        except Exception:
            pass
    try:
        return int(operator.index(x))
    except Exception:
        return repr(x)[:300]


def describe_case(vpd, pcm, pic, **more):
    n = sum(len(r) for c in COMPONENTS for r in pic[c])
    d = {"video_parameters": {k: (v if isinstance(v, bool) else int(v)) for k, v in vpd.items()}, "picture_coding_mode": int(pcm),
         "picture_number": pic["pic_num"]}
    if n <= 300:
        d["picture"] = {c: pic[c] for c in COMPONENTS}
    d.update(more)
    return d


class Acc(object):
    """Counts per clause and (at most MAX_VIOLATIONS_PER_CLAUSE) failing cases per clause."""

    def __init__(self):
        self.n = collections.Counter()
        self.viol = collections.OrderedDict()
        self.samples = {}

    def count(self, clause, k=1):
        self.n[clause] += k

    def full(self, clause):
        return len(self.viol.get(clause, ())) >= MAX_VIOLATIONS_PER_CLAUSE

    def fail(self, clause, what, inputs, expected=None, observed=None):
        lst = self.viol.setdefault(clause, [])
        if len(lst) < MAX_VIOLATIONS_PER_CLAUSE:
            lst.append({"what": what, "inputs": _j(inputs), "expected": _j(expected), "observed": _j(observed)})

    def sample(self, clause, s):
        lst = self.samples.setdefault(clause, [])
        if len(lst) < 2:
            lst.append(_j(s))

    def export(self):
        return {"n": dict(self.n), "viol": self.viol, "samples": self.samples}


class Env(object):
    """The code under check, imported once per process (after frontend.ensure_repo_on_path() in the parent)."""
    _inst = None

    def __init__(self):
        import numpy as np
        import vc2_data_tables as tables
        from vc2_conformance import file_format
        from vc2_conformance.dimensions_and_depths import compute_dimensions_and_depths
        from vc2_conformance.pseudocode.video_parameters import VideoParameters
        from vc2_conformance.scripts import vc2_picture_compare

        self.np, self.tables, self.ff, self.cdd, self.VideoParameters, self.pc = np, tables, file_format, compute_dimensions_and_depths, VideoParameters, vc2_picture_compare
        self.PCM = tables.PictureCodingModes
        self.enum_types = {k: getattr(tables, v) for k, v in ENUM_FIELDS.items()}
        self.enums = {k: sorted(int(m) for m in t) for k, t in self.enum_types.items()}

    @classmethod
    def get(cls):
        if cls._inst is None:
            cls._inst = cls()
        return cls._inst

    def vp(self, vpd):
        return self.VideoParameters({k: (self.enum_types[k](v) if k in self.enum_types else v) for k, v in vpd.items()})


def norm_picture(pic):
    """A returned picture as plain nested lists of Python ints (operator.index: a float sample is not an integer)."""
    out = {}
    for c in COMPONENTS:
        out[c] = [[int(operator.index(v)) for v in row] for row in pic[c]]
    out["pic_num"] = int(operator.index(pic["pic_num"]))
    return out


def first_diff(a, b):
    for i, (x, y) in enumerate(zip(a, b)):
        if x != y:
            return i
    return min(len(a), len(b))


def pic_mismatch(got, want):
    """None if equal, else a short description of the first difference."""
    if got["pic_num"] != want["pic_num"]:
        return {"pic_num": got["pic_num"], "expected_pic_num": want["pic_num"]}
    for c in COMPONENTS:
        if got[c] != want[c]:
            if len(got[c]) != len(want[c]) or any(len(r) != len(s) for r, s in zip(got[c], want[c])):
                return {"component": c, "shape": [len(got[c]), len(got[c][0]) if got[c] else 0], "expected_shape": [len(want[c]), len(want[c][0]) if want[c] else 0]}
            for y, (r, s) in enumerate(zip(got[c], want[c])):
                for x, (a, b) in enumerate(zip(r, s)):
                    if a != b:
                        return {"component": c, "x": x, "y": y, "read_back": a, "written": b}
    return None


# ------------------------------------------------------------------------------------------------------------------
# clause: raw-layout / metadata / roundtrip for one generated case
# ------------------------------------------------------------------------------------------------------------------
def run_rt_case(env, acc, prefix, tmp, vpd, pcm, pic, fname, as_numpy, label):
    ff, np = env.ff, env.np
    C_RAW, C_META, C_RT = prefix + "raw-layout", prefix + "metadata", prefix + "roundtrip"
    dims = ref_dims(vpd, pcm)
    vp, mode, n = env.vp(vpd), env.PCM(pcm), pic["pic_num"]
    want_raw = ref_encode(pic, dims)
    inputs = describe_case(vpd, pcm, pic, filename=fname, input_kind="numpy object arrays" if as_numpy else "lists", case=label)

    def fresh_input():
        p = copy_pic(pic)
        if as_numpy:
            for c in COMPONENTS:
                if p[c] and p[c][0]:
                    p[c] = np.array(p[c], dtype=object)
        return p

    path = os.path.join(tmp, fname)
    stem = path[: path.rindex(".")]
    other = stem + (".json" if fname.endswith(".raw") else ".raw")

    # ---- through real files: write(), files on disk, read()
    wrote = False
    if not (acc.full(C_RAW) and acc.full(C_META) and acc.full(C_RT)):
        try:
            given = fresh_input()
            ff.write(given, vp, mode, path)
            wrote = True
        except Exception as e:
            acc.count(C_RT)
            acc.fail(C_RT, "write() raised on an in-range picture", inputs, "files written", repr(e))
        if wrote:
            # frame condition: writing leaves the caller's picture as it was (else a second write of the same picture, or a
            # comparison of the read-back values with the picture that was handed in, no longer agrees)
            acc.count(C_RT)
            try:
                changed = pic_mismatch(norm_picture(given), pic)
            except Exception as e:
                changed = {"exception": repr(e)}
            if changed:
                acc.fail(C_RT, "write() modified the picture it was given", inputs, "the caller's picture unchanged", changed)
    if wrote:
        if not acc.full(C_RAW):
            acc.count(C_RAW)
            if not os.path.isfile(stem + ".raw"):
                acc.fail(C_RAW, "write() did not create <name>.raw", inputs, stem + ".raw", sorted(os.listdir(tmp)))
            else:
                with open(stem + ".raw", "rb") as f:
                    raw = f.read()
                if raw != want_raw:
                    k = first_diff(raw, want_raw)
                    acc.fail(C_RAW, "bytes of the .raw file differ from the documented layout", inputs,
                             {"length": len(want_raw), "bytes_from_first_difference": want_raw[k:k + 16]},
                             {"length": len(raw), "first_difference_at_byte": k, "bytes_from_first_difference": raw[k:k + 16]})
        if not acc.full(C_META):
            acc.count(C_META)
            try:
                with open(stem + ".json", "rb") as f:
                    meta = json.loads(f.read().decode("utf-8"))
                problem = metadata_json_problem(meta, vpd, pcm, n)
            except (OSError, ValueError) as e:
                meta, problem = None, "the .json file is missing or not UTF-8 JSON: %r" % (e,)
            if problem:
                acc.fail(C_META, "metadata file on disk: " + problem, inputs, json.loads(ref_metadata_json(vpd, pcm, n).decode()), meta)
        if not acc.full(C_RT):
            acc.count(C_RT)
            try:
                got = ff.read(other)
                problem = read_result_problem(env, got, vpd, pcm, pic)
            except Exception as e:
                problem = {"exception": repr(e)}
            if problem:
                acc.fail(C_RT, "read(write(picture)) through files does not return the values written", inputs, "identical values", problem)

    # ---- stream interface: write_picture / read_picture / write_metadata / read_metadata
    if not acc.full(C_RAW):
        acc.count(C_RAW)
        try:
            f = io.BytesIO()
            given = fresh_input()
            ff.write_picture(given, vp, mode, f)
            raw = f.getvalue()
            changed = pic_mismatch(norm_picture(given), pic)
            if changed:
                acc.fail(C_RAW, "write_picture modified the picture it was given", inputs, "the caller's picture unchanged", changed)
            if raw != want_raw:
                k = first_diff(raw, want_raw)
                acc.fail(C_RAW, "bytes written by write_picture differ from the documented layout", inputs,
                         {"length": len(want_raw), "bytes_from_first_difference": want_raw[k:k + 16]},
                         {"length": len(raw), "first_difference_at_byte": k, "bytes_from_first_difference": raw[k:k + 16]})
        except Exception as e:
            acc.fail(C_RAW, "write_picture raised on an in-range picture", inputs, "bytes written", repr(e))
    if not acc.full(C_RT):
        acc.count(C_RT)
        try:  # reads the REFERENCE encoding: independent of the tree's writer
            got = norm_picture(ff.read_picture(vp, mode, n, io.BytesIO(want_raw)))
            problem = pic_mismatch(got, pic)
        except Exception as e:
            problem = {"exception": repr(e)}
        if problem:
            acc.fail(C_RT, "read_picture of a file in the documented layout does not return the samples it encodes", inputs, "identical values", problem)
    if not acc.full(C_META):
        acc.count(C_META)
        try:
            f = io.BytesIO()
            ff.write_metadata(fresh_input(), vp, mode, f)
            a = ff.read_metadata(io.BytesIO(f.getvalue()))
            b = ff.read_metadata(io.BytesIO(ref_metadata_json(vpd, pcm, n)))
            problem = metadata_result_problem(env, a, vpd, pcm, n) or metadata_result_problem(env, b, vpd, pcm, n)
        except Exception as e:
            problem = {"exception": repr(e)}
        if problem:
            acc.fail(C_META, "read_metadata(write_metadata(...)) / read_metadata(documented JSON) does not return the values written", inputs, "identical values", problem)
    for p in (stem + ".raw", stem + ".json"):
        if os.path.exists(p):
            os.unlink(p)


def metadata_json_problem(meta, vpd, pcm, n):
    """The documented structure: picture_number <string>, picture_coding_mode <int>, video_parameters {<int>/<bool>}."""
    if not isinstance(meta, dict):
        return "top level is not an object"
    for k in ("picture_number", "picture_coding_mode", "video_parameters"):
        if k not in meta:
            return "field %r missing" % k
    pn = meta["picture_number"]
    if not isinstance(pn, str):
        return "picture_number is not a string"
    try:
        if int(pn, 10) != n:
            return "picture_number %r is not the picture number" % pn
    except ValueError:
        return "picture_number %r is not a decimal number" % pn
    m = meta["picture_coding_mode"]
    if isinstance(m, bool) or not isinstance(m, int) or m != int(pcm):
        return "picture_coding_mode %r is not the integer %d" % (m, int(pcm))
    v = meta["video_parameters"]
    if not isinstance(v, dict) or set(v) != set(vpd):
        return "video_parameters does not hold exactly the fields written"
    for k, want in vpd.items():
        got = v[k]
        if isinstance(want, bool):
            if got is not want:
                return "video_parameters[%r] is %r, expected the boolean %r" % (k, got, want)
        elif isinstance(got, bool) or not isinstance(got, int) or got != int(want):
            return "video_parameters[%r] is %r, expected the integer %d" % (k, got, int(want))
    return None


def metadata_result_problem(env, res, vpd, pcm, n):
    try:
        vp2, mode2, n2 = res
    except Exception:
        return {"result_is_not_a_triple": repr(res)[:200]}
    want_vp = env.vp(vpd)
    if not isinstance(vp2, dict) or set(vp2.keys()) != set(want_vp.keys()):
        return {"video_parameters_keys": sorted(map(str, getattr(vp2, "keys", lambda: [])()))}
    for k, want in want_vp.items():
        got = vp2[k]
        if got != want:
            return {"video_parameter": k, "read_back": got, "written": want}
        if isinstance(want, bool) != isinstance(got, bool):
            return {"video_parameter": k, "read_back": repr(got), "written": repr(want), "note": "boolean became a number or vice versa"}
        if k in env.enum_types and not isinstance(got, env.enum_types[k]):
            return {"video_parameter": k, "read_back": repr(got), "written": repr(want), "note": "enumerated value not returned as its enumeration member"}
    if mode2 != env.PCM(pcm) or not isinstance(mode2, env.PCM):
        return {"picture_coding_mode": repr(mode2), "written": repr(env.PCM(pcm))}
    try:
        if isinstance(n2, bool) or int(operator.index(n2)) != n:
            return {"picture_number": repr(n2), "written": n}
    except TypeError:
        return {"picture_number": repr(n2), "written": n, "note": "not an integer"}
    return None


def read_result_problem(env, res, vpd, pcm, pic):
    try:
        pic2, vp2, mode2 = res
    except Exception:
        return {"result_is_not_a_triple": repr(res)[:200]}
    try:
        if set(pic2.keys()) != {"Y", "C1", "C2", "pic_num"}:
            return {"picture_keys": sorted(map(str, pic2.keys()))}
        got = norm_picture(pic2)
    except (TypeError, ValueError, AttributeError, KeyError) as e:
        return {"picture_not_lists_of_integers": repr(e)}
    return pic_mismatch(got, pic) or metadata_result_problem(env, (vp2, mode2, pic2["pic_num"]), vpd, pcm, pic["pic_num"])


def job_rt(d_luma, tier, seed, tmp, acc):
    env = Env.get()
    rng = random.Random("%s-c23-rt-%d" % (seed, d_luma))
    reps = RT_REPS[tier]
    chroma_opts = [d_luma, ((d_luma * 5 + 3) % 64) + 1, ((64 - d_luma) % 64) + 1]
    j = 0
    for rep_i in range(reps):
        for fi, (cf, pcm) in enumerate(FORMATS):
            for pi, pattern in enumerate(PATTERNS):
                j += 1
                d_c = (chroma_opts + [rng.randint(1, 64)])[j % 4]
                w, h = min_size(cf, pcm) if (rep_i == 0 and pi == 0) else pick_size(rng, cf, pcm, 7 if tier == "quick" else 9)
                vpd = gen_vpd(rng, w, h, cf, excursion_for_depth(d_luma, j, rng), excursion_for_depth(d_c, j + 1, rng), env.enums)
                n = PIC_NUMS[j % len(PIC_NUMS)] if j % 3 else rng.getrandbits(32)
                pic = gen_picture(rng, vpd, pcm, [pattern, pattern, PATTERNS[(pi + 3) % len(PATTERNS)]], n, salt=j)
                run_rt_case(env, acc, "", tmp, vpd, pcm, pic, NAMES[j % len(NAMES)] % j, j % 4 == 3,
                            "luma depth %d, colour difference depth %d, pattern %s" % (d_luma, d_c, pattern))
                if d_luma in (1, 10, 64) and j == 9:
                    acc.sample("roundtrip", {"luma_depth": d_luma, "color_diff_depth": d_c, "frame": [w, h], "color_diff_format_index": cf,
                                             "picture_coding_mode": pcm, "pattern": pattern, "picture_number": n})
        # walking one / walking zero: every bit position of every depth alone, 4:4:4 frames
        d_c = chroma_opts[(rep_i + 2) % 3]
        w = 8
        h = max(8, (max(d_luma, d_c) + w - 1) // w)
        vpd = gen_vpd(rng, w, h, 0, excursion_for_depth(d_luma, rep_i, rng), excursion_for_depth(d_c, rep_i + 1, rng), env.enums)
        pic = gen_picture(rng, vpd, 0, ["walk1", "walk1", "walk0"], rng.getrandbits(32), salt=rep_i)
        run_rt_case(env, acc, "", tmp, vpd, 0, pic, "walk_%d.raw" % rep_i, False, "walking one/zero, luma depth %d, colour difference depth %d" % (d_luma, d_c))


# (an extension-less base name that itself contains a dot, e.g. "clip.v3_0", is ambiguous - ".v3_0" reads as an extension - and is not exercised)
NAME_SHAPES = ["plain/picture_%d", "run.1/picture_%d", "run.1/picture_%d.raw", "a.b.c/p.q_%d.json", "take.2/clip_%d", "nodots/clip_%d.raw"]


def job_names(idx, tier, seed, tmp, acc):
    """Round trip through files for several shapes of file name (with and without extension, dots in directory and base names):
    two different pictures written under two different names are both read back unchanged."""
    env = Env.get()
    ff = env.ff
    rng = random.Random("%s-c23-names-%d" % (seed, idx))
    shape = NAME_SHAPES[idx % len(NAME_SHAPES)]
    cf, pcm = FORMATS[idx % len(FORMATS)]
    w, h = pick_size(rng, cf, pcm, 6)
    vpd = gen_vpd(rng, w, h, cf, excursion_for_depth(10, idx, rng), excursion_for_depth(9, idx + 1, rng), env.enums)
    vp, mode = env.vp(vpd), env.PCM(pcm)
    pics = [gen_picture(rng, vpd, pcm, ["random", "index", "edge"], n, salt=n) for n in (0, 1)]
    base = os.path.join(tmp, "names_%d" % idx)
    os.makedirs(os.path.join(base, os.path.dirname(shape)))
    names = [os.path.join(base, shape % n) for n in (0, 1)]
    inputs = {"file_names": [shape % 0, shape % 1], "format": describe_case(vpd, pcm, pics[0])}
    acc.count("roundtrip")
    try:
        for name, pic in zip(names, pics):
            ff.write(copy_pic(pic), vp, mode, name)
        for name, pic in zip(names, pics):
            problem = read_result_problem(env, ff.read(name), vpd, pcm, pic)
            if problem:
                acc.fail("roundtrip", "read(name) after write(picture, name) (and a write of another picture under another name) does not return the values written",
                         inputs, "identical values", problem)
                break
    except Exception as e:
        acc.fail("roundtrip", "write()/read() raised for an in-range picture", inputs, "identical values", {"exception": repr(e)})
    shutil.rmtree(base, ignore_errors=True)


def job_allvalues(d, tier, seed, tmp, acc):
    env = Env.get()
    rng = random.Random("%s-c23-all-%d" % (seed, d))
    w, h = 1 << ((d + 1) // 2), 1 << (d // 2)
    size = 1 << d
    mult = (rng.getrandbits(d) | 1) % size if d > 1 else 1
    off = rng.getrandbits(d)
    vpd = gen_vpd(rng, w, h, 0, excursion_for_depth(d, 0, rng), excursion_for_depth(d, 1, rng), env.enums)
    pic = {"Y": [[((y * w + x) * mult + off) % size for x in range(w)] for y in range(h)],
           "C1": [[size - 1 - (y * w + x) for x in range(w)] for y in range(h)],
           "C2": [[(y * w + x) for x in range(w)] for y in range(h)], "pic_num": rng.getrandbits(32)}
    assert all(sorted(v for r in pic[c] for v in r) == list(range(size)) for c in COMPONENTS)
    run_rt_case(env, acc, "allvalues-", tmp, vpd, 0, pic, "all_%d.raw" % d, d % 2 == 0, "every %d-bit sample value in every component" % d)


# ------------------------------------------------------------------------------------------------------------------
# clauses: comparison tool
# ------------------------------------------------------------------------------------------------------------------
LINE_RE = re.compile(r"^\s*(Y|C1|C2)\s*:\s*(.*)$", re.M)
COUNT_RE = re.compile(r"(\d+)\s+pixels?\b")
PCT_RE = re.compile(r"\(\s*([0-9]+(?:\.[0-9]+)?)\s*%\s*\)")
SAYS_IDENTICAL = "pictures are identical"


def call_compare(env, fa, fb):
    """-> ('ok', message, exit_code) | ('abort', exit code of sys.exit) | ('exception', repr)"""
    try:
        with contextlib.redirect_stderr(io.StringIO()):
            r = env.pc.compare_pictures(fa, fb)
    except SystemExit as e:
        return ("abort", e.code, None)
    except Exception as e:
        return ("exception", repr(e), None)
    try:
        msg, code = r
        if not isinstance(msg, str) or isinstance(code, bool) or int(operator.index(code)) != code:
            raise TypeError
    except (TypeError, ValueError):
        return ("exception", "compare_pictures returned %r, not (message, exit code)" % (r,), None)
    return ("ok", msg, int(code))


def verdict_problem(res, expect_identical, counts=None, sizes=None):
    """Check a compare_pictures/main result (status, message, code) against the oracle."""
    st, msg, code = res
    if st != "ok":
        return {"tool_did_not_report": st, "detail": msg}
    low = msg.lower()
    if expect_identical:
        if code != 0 or "identical" not in low or "pictures are different" in low:
            return {"exit": code, "message": msg}
        return None
    if code == 0 or SAYS_IDENTICAL in low:
        return {"exit": code, "message": msg}
    if counts is None:
        return None
    lines = {}
    for m in LINE_RE.finditer(msg):
        lines[m.group(1)] = m.group(2)
    for c in COMPONENTS:
        want = counts[c]
        text = lines.get(c)
        cnt = COUNT_RE.search(text) if text is not None else None
        cnt = int(cnt.group(1)) if cnt else None
        says_same = text is not None and "identical" in text.lower()
        if want == 0:
            if text is None or (says_same and cnt is None) or cnt == 0:
                continue
            return {"component": c, "reported": text, "expected_differing_pixels": 0, "exit": code, "message": msg}
        if text is None or cnt != want or says_same:
            return {"component": c, "reported": text, "expected_differing_pixels": want, "exit": code, "message": msg}
        pct = PCT_RE.search(text)
        if pct is not None and sizes:
            true_pct = 100.0 * want / sizes[c]
            if abs(float(pct.group(1)) - true_pct) > 0.0501:
                return {"component": c, "reported": text, "expected_percentage": round(true_pct, 3), "exit": code, "message": msg}
    return None


def sizes_of(vpd, pcm):
    return {c: v[0] * v[1] for c, v in ref_dims(vpd, pcm).items()}


def compare_case(env, acc, clause, tmp, tag, a, b, expect_identical, label, swap=False, pad_b=None, check_counts=True):
    """a, b = (vpd, pcm, pic).  Writes both with the reference writer, runs the tool, checks the verdict."""
    if acc.full(clause):
        return
    sa, sb = os.path.join(tmp, "a_%s" % tag), os.path.join(tmp, "b_%s" % tag)
    ref_write(sa, *a)
    ref_write(sb, b[0], b[1], b[2], padding=pad_b)
    fa, fb = (sb, sa) if swap else (sa, sb)
    ext = ".raw" if len(tag) % 2 else ".json"
    acc.count(clause)
    res = call_compare(env, fa + ext, fb + ext)
    counts = sizes = None
    if not expect_identical and check_counts and a[0] == b[0] and a[1] == b[1] and a[2]["pic_num"] == b[2]["pic_num"]:
        counts, sizes = count_diffs(a[2], b[2]), sizes_of(a[0], a[1])
    problem = verdict_problem(res, expect_identical, counts, sizes)
    if problem:
        inputs = {"first" if not swap else "second": describe_case(*a), "second" if not swap else "first": describe_case(*b), "case": label,
                  "padding_bits_of_b_set": bool(pad_b)}
        acc.fail(clause, "compare_pictures: " + ("pictures with equal samples and metadata must be reported identical with exit 0" if expect_identical
                                                 else "differing pictures must be reported different (exit != 0) with the correct differing pixel count per component"),
                 inputs, {"identical": expect_identical, "differing_pixels": counts}, problem)
    for s in (sa, sb):
        for e in (".raw", ".json"):
            os.unlink(s + e)


def job_cmp_samples(d, tier, seed, tmp, acc):
    env = Env.get()
    rng = random.Random("%s-c23-cmp-%d" % (seed, d))
    d_c = ((64 - d) % 64) + 1
    for rep_i in range(CMP_REPS[tier]):
        cf, pcm = FORMATS[(d + rep_i) % len(FORMATS)]
        w, h = pick_size(rng, cf, pcm, 6)
        vpd = gen_vpd(rng, w, h, cf, excursion_for_depth(d, rep_i, rng), excursion_for_depth(d_c, rep_i + 1, rng), env.enums)
        dims = ref_dims(vpd, pcm)
        a_pic = gen_picture(rng, vpd, pcm, ["high", "high", "high"], PIC_NUMS[(d + rep_i) % len(PIC_NUMS)])
        A = (vpd, pcm, a_pic)
        depth = {c: dims[c][2] for c in COMPONENTS}
        mx = {c: (1 << depth[c]) - 1 for c in COMPONENTS}
        k_case = [0]

        def run(b_pic, label, clause="cmp-samples", identical=False, pad=None):
            k_case[0] += 1
            compare_case(env, acc, clause, tmp, "%d_%d_%d" % (d, rep_i, k_case[0]), A, (vpd, pcm, b_pic), identical, label, swap=k_case[0] % 2 == 1, pad_b=pad)

        def pos(c):
            return rng.randrange(dims[c][1]), rng.randrange(dims[c][0])

        # identical copy
        run(copy_pic(a_pic), "separately written equal pictures", clause="cmp-identical", identical=True)
        # every single-bit difference at one pixel
        for c in ("Y", ("C1", "C2")[d % 2]):
            for k in range(depth[c]):
                b = copy_pic(a_pic)
                y, x = pos(c)
                b[c][y][x] ^= 1 << k
                run(b, "one pixel of %s differs by 2^%d (depth %d)" % (c, k, depth[c]))
        if d == 40 and rep_i == 0:
            acc.sample("cmp-samples", {"luma_depth": d, "color_diff_depth": d_c, "frame": [w, h], "difference": "one Y sample ^ 2^32", "expected": {"Y": 1, "C1": 0, "C2": 0}})
        # all pixels of all components differ in the top bit / by multiples of 2^16, 2^31, 2^32
        for shift in (None, 16, 31, 32, 48):
            b = copy_pic(a_pic)
            any_change = False
            for c in COMPONENTS:
                s = depth[c] - 1 if shift is None else shift
                if s >= depth[c]:
                    continue
                for row in b[c]:
                    for x in range(len(row)):
                        if shift is None or rng.random() < 0.6:
                            row[x] ^= (rng.getrandbits(depth[c] - s) | 1) << s if shift is not None else 1 << s
                            any_change = True
            if any_change:
                run(b, "many pixels differ by multiples of 2^%s" % ("(depth-1)" if shift is None else shift))
        # full scale, both directions, in one component each
        for c in COMPONENTS:
            a2, b = copy_pic(a_pic), copy_pic(a_pic)
            y, x = pos(c)
            a2[c][y][x], b[c][y][x] = 0, mx[c]
            k_case[0] += 1
            compare_case(env, acc, "cmp-samples", tmp, "%d_%d_%d" % (d, rep_i, k_case[0]), (vpd, pcm, a2), (vpd, pcm, b), False,
                         "one pixel of %s is 0 in one picture and 2^%d-1 in the other" % (c, depth[c]), swap=k_case[0] % 2 == 1)
        # +-1 at full-scale values (exactness of large values)
        for c in COMPONENTS:
            if depth[c] >= 2:
                a2, b = copy_pic(a_pic), copy_pic(a_pic)
                y, x = pos(c)
                a2[c][y][x], b[c][y][x] = mx[c], mx[c] - 1
                k_case[0] += 1
                compare_case(env, acc, "cmp-samples", tmp, "%d_%d_%d" % (d, rep_i, k_case[0]), (vpd, pcm, a2), (vpd, pcm, b), False,
                             "one pixel of %s is 2^%d-1 in one picture and 2^%d-2 in the other" % (c, depth[c], depth[c]), swap=k_case[0] % 2 == 1)
        # +D and -D in one component (differences sum to zero)
        for c in COMPONENTS:
            if dims[c][0] * dims[c][1] >= 2 and depth[c] >= 1:
                a2, b = copy_pic(a_pic), copy_pic(a_pic)
                cells = [(y, x) for y in range(dims[c][1]) for x in range(dims[c][0])]
                (y1, x1), (y2, x2) = rng.sample(cells, 2)
                D = rng.randint(1, mx[c])
                lo = rng.randint(0, mx[c] - D)
                a2[c][y1][x1], b[c][y1][x1] = lo, lo + D
                a2[c][y2][x2], b[c][y2][x2] = lo + D, lo
                k_case[0] += 1
                compare_case(env, acc, "cmp-samples", tmp, "%d_%d_%d" % (d, rep_i, k_case[0]), (vpd, pcm, a2), (vpd, pcm, b), False,
                             "two pixels of %s differ by +D and -D" % c, swap=k_case[0] % 2 == 1)
        # every pixel of exactly one component differs; random subsets
        for c in COMPONENTS:
            b = copy_pic(a_pic)
            for row in b[c]:
                for x in range(len(row)):
                    row[x] ^= rng.randint(1, mx[c])
            run(b, "every pixel of %s differs, the other components are equal" % c)
        for _ in range(2 if tier == "quick" else 6):
            b = copy_pic(a_pic)
            p = rng.choice([0.1, 0.3, 0.7])
            for c in COMPONENTS:
                for row in b[c]:
                    for x in range(len(row)):
                        if rng.random() < p:
                            row[x] ^= rng.randint(1, mx[c])
            if any(count_diffs(a_pic, b).values()):
                run(b, "random subset of pixels replaced by other random values")
        # padding bits are not samples
        padded = [c for c in COMPONENTS if 8 * dims[c][3] > depth[c]]
        if padded:
            ones = {c: (lambda i: -1) for c in padded}
            junk_seed = rng.getrandbits(32)
            junk = {c: (lambda i, s=junk_seed, cc=c: random.Random("%d-%s-%d" % (s, cc, i)).getrandbits(64) | 1) for c in padded}
            run(copy_pic(a_pic), "equal samples, all padding bits of one file set", clause="cmp-padding", identical=True, pad=ones)
            run(copy_pic(a_pic), "equal samples, random padding bits in one file", clause="cmp-padding", identical=True, pad=junk)
            b = copy_pic(a_pic)
            c = padded[0]
            y, x = pos(c)
            b[c][y][x] ^= 1 << (depth[c] - 1)
            run(b, "random padding bits in one file and one real difference in %s" % c, clause="cmp-padding", pad=junk)


META_DEPTHS_QUICK = [1, 2, 7, 8, 9, 10, 12, 16, 17, 24, 31, 32, 33, 48, 63, 64]


def alt_excursions(exc):
    """Other excursions: same depth (if any), one bit deeper, one bit shallower."""
    d = ref_depth(exc)
    out = []
    lo, hi = (1 << (d - 1)) if d > 1 else 1, (1 << d) - 1
    if hi > lo:
        out.append(hi if exc != hi else hi - 1)
    out.append((1 << (d + 1)) - 1)
    if d > 1:
        out.append((1 << (d - 1)) - 1)
    return out


def job_cmp_meta(idx, tier, seed, tmp, acc):
    env = Env.get()
    depths = META_DEPTHS_QUICK if tier == "quick" else list(range(1, 65))
    d = depths[idx // len(FORMATS)]
    cf, pcm = FORMATS[idx % len(FORMATS)]
    rng = random.Random("%s-c23-meta-%d" % (seed, idx))
    d_c = rng.choice([d, rng.randint(1, 64)])
    w, h = rng.randint(2, 6), rng.randint(4, 7)  # every colour format and coding mode has non-empty components
    vpd = gen_vpd(rng, w, h, cf, excursion_for_depth(d, idx, rng), excursion_for_depth(d_c, idx + 1, rng), env.enums)
    n = PIC_NUMS[idx % len(PIC_NUMS)] if idx % 2 else rng.getrandbits(32)
    a_pic = gen_picture(rng, vpd, pcm, ["random", "edge", "high"], n)
    A = (vpd, pcm, a_pic)
    k_case = [0]

    def fit(vpd_b, pcm_b, n_b):
        """A's samples where the format is unchanged, otherwise cropped / tiled and masked to the new format."""
        dims_b = ref_dims(vpd_b, pcm_b)
        pic = {"pic_num": n_b}
        for c in COMPONENTS:
            wb, hb, db, _ = dims_b[c]
            src = a_pic[c]
            pic[c] = [[src[y % len(src)][x % len(src[0])] & ((1 << db) - 1) for x in range(wb)] for y in range(hb)]
        return pic

    def run(vpd_b, pcm_b, n_b, label, identical=False):
        k_case[0] += 1
        compare_case(env, acc, "cmp-identical" if identical else "cmp-metadata", tmp, "m%d_%d" % (idx, k_case[0]), A, (vpd_b, pcm_b, fit(vpd_b, pcm_b, n_b)),
                     identical, label, swap=k_case[0] % 2 == 0, check_counts=False)

    run(vpd, pcm, n, "separately written equal pictures", identical=True)
    for key in VP_KEYS:
        cur = vpd[key]
        if key in env.enums:
            alts = [v for v in env.enums[key] if v != cur]
        elif key == "top_field_first":
            alts = [not cur]
        elif key in ("luma_excursion", "color_diff_excursion"):
            alts = alt_excursions(cur)
        elif key in ("frame_width", "frame_height"):
            alts = [cur + 1, cur + 2, cur * 2]
        else:
            alts = [cur + 1, cur ^ (1 << 31), cur + (1 << 32)]
        for alt in alts:
            vb = collections.OrderedDict(vpd)
            vb[key] = alt
            run(vb, pcm, n, "video parameter %s: %r vs %r, everything else equal" % (key, cur, alt))
    run(vpd, 1 - pcm, n, "picture coding mode differs, everything else equal")
    for nb in sorted({n ^ 1, n ^ (1 << 31), (n + 1) % (1 << 32), (1 << 32) - 1 - n, rng.getrandbits(32)} - {n}):
        run(vpd, pcm, nb, "picture number %d vs %d, everything else equal" % (n, nb))
    # the second file's metadata spells one item with a value outside the tables: it does not match the first file's, so the tool must
    # not say 'identical' / exit 0 (refusing the file with an error is fine)
    for key, bad in (("transfer_function_index", 99), ("color_primaries_index", 99), ("color_matrix_index", 99), ("color_diff_format_index", 99),
                     ("source_sampling", 99), ("picture_coding_mode", 7)):
        if acc.full("cmp-metadata"):
            break
        k_case[0] += 1
        sa, sb = os.path.join(tmp, "ua_%d_%d" % (idx, k_case[0])), os.path.join(tmp, "ub_%d_%d" % (idx, k_case[0]))
        ref_write(sa, *A)
        ref_write(sb, *A)
        with open(sb + ".json") as f:
            meta = json.load(f)
        if key == "picture_coding_mode":
            meta[key] = bad
        else:
            meta["video_parameters"][key] = bad
        with open(sb + ".json", "w") as f:
            json.dump(meta, f)
        for fa, fb in ((sa, sb), (sb, sa)):
            acc.count("cmp-metadata")
            st, msg, code = call_compare(env, fa + ".raw", fb + ".raw")
            same = (st == "ok" and (code == 0 or SAYS_IDENTICAL in msg.lower())) or (st == "abort" and msg in (0, None))
            if same:
                acc.fail("cmp-metadata", "compare_pictures: a picture whose metadata holds an unrecognised value was reported identical to one with a recognised value",
                         {"first": describe_case(*A), "second_json_changed": {key: bad}, "order": "changed file second" if fa == sa else "changed file first"},
                         {"identical": False}, {"status": st, "message": msg, "exit": code})
        for x in (sa, sb):
            for e in (".raw", ".json"):
                os.unlink(x + e)
    if idx == 3:
        acc.sample("cmp-metadata", {"luma_depth": d, "frame": [w, h], "changed": "each of the 20 video parameters, the coding mode, the picture number"})


def job_cli(idx, tier, seed, tmp, acc):
    env = Env.get()
    rng = random.Random("%s-c23-cli-%d" % (seed, idx))
    d, d_c = rng.randint(1, 64), rng.randint(1, 64)
    cf, pcm = FORMATS[idx % len(FORMATS)]
    w, h = pick_size(rng, cf, pcm, 6)
    vpd = gen_vpd(rng, w, h, cf, excursion_for_depth(d, idx, rng), excursion_for_depth(d_c, idx + 1, rng), env.enums)
    dims = ref_dims(vpd, pcm)

    def variant(pic, kind):
        b = copy_pic(pic)
        if kind == "samples":
            c = rng.choice(COMPONENTS)
            y, x = rng.randrange(dims[c][1]), rng.randrange(dims[c][0])
            b[c][y][x] ^= 1 << rng.randrange(dims[c][2])
        elif kind == "number":
            b["pic_num"] ^= 1 << rng.randrange(32)
        return b

    def call_main(args):
        out = io.StringIO()
        try:
            with contextlib.redirect_stdout(out), contextlib.redirect_stderr(io.StringIO()):
                rc = env.pc.main(args)
        except SystemExit as e:
            return ("abort", e.code, None)
        except Exception as e:
            return ("exception", repr(e), None)
        if isinstance(rc, bool) or not isinstance(rc, int):
            return ("exception", "main returned %r" % (rc,), None)
        return ("ok", out.getvalue(), rc)

    # two files
    for kind in ("equal", "samples", "number"):
        if acc.full("cli"):
            return
        a_pic = gen_picture(rng, vpd, pcm, ["random", "high", "edge"], rng.getrandbits(32))
        b_pic = variant(a_pic, kind)
        sa, sb = os.path.join(tmp, "fa_%d" % idx), os.path.join(tmp, "fb_%d" % idx)
        ref_write(sa, vpd, pcm, a_pic)
        ref_write(sb, vpd, pcm, b_pic)
        acc.count("cli")
        res = call_main([sa + ".raw", sb + (".json" if idx % 2 else ".raw")])
        problem = verdict_problem(res, kind == "equal", count_diffs(a_pic, b_pic) if kind == "samples" else None, sizes_of(vpd, pcm))
        if problem:
            acc.fail("cli", "main([a, b]): exit 0 and 'identical' exactly when samples and metadata match",
                     {"first": describe_case(vpd, pcm, a_pic), "second": describe_case(vpd, pcm, b_pic), "difference": kind}, {"identical": kind == "equal"}, problem)
    # two directories
    k = 1 + idx % 4
    kinds = [rng.choice(["equal", "equal", "samples", "number"]) for _ in range(k)]
    if idx % 3 == 0:
        kinds = ["equal"] * k
    da, db = os.path.join(tmp, "dir_a_%d" % idx), os.path.join(tmp, "dir_b_%d" % idx)
    os.mkdir(da)
    os.mkdir(db)
    pairs = []
    for i, kind in enumerate(kinds):
        a_pic = gen_picture(rng, vpd, pcm, ["random", "high", "edge"], rng.getrandbits(32))
        b_pic = variant(a_pic, kind)
        ref_write(os.path.join(da, "picture_%d" % i), vpd, pcm, a_pic)
        ref_write(os.path.join(db, "picture_%d" % i), vpd, pcm, b_pic)
        pairs.append({"first": describe_case(vpd, pcm, a_pic), "second": describe_case(vpd, pcm, b_pic), "difference": kind})
    n_diff = sum(kd != "equal" for kd in kinds)
    if not acc.full("cli"):
        acc.count("cli")
        st, out, rc = call_main([da, db])
        problem = None
        if st != "ok":
            problem = {"tool_did_not_report": st, "detail": out}
        elif (rc == 0) != (n_diff == 0):
            problem = {"exit": rc, "output": out}
        else:
            m = re.search(r"(\d+)\s+identical\s*,\s*(\d+)\s+different", out)
            if m and (int(m.group(1)), int(m.group(2))) != (k - n_diff, n_diff):
                problem = {"exit": rc, "output": out}
        if problem:
            acc.fail("cli", "main([dir_a, dir_b]): exit 0 exactly when every pair is identical, and the summary counts are right",
                     {"pairs": pairs}, {"identical_pairs": k - n_diff, "different_pairs": n_diff}, problem)
    shutil.rmtree(da)
    shutil.rmtree(db)


LARGE_QUICK = [(352, 288, 2, 0, 8, 10), (180, 122, 1, 1, 33, 64)]  # frame width, height, colour format, coding mode, luma depth, colour-difference depth
LARGE_THOROUGH = LARGE_QUICK + [(1920, 1080, 1, 1, 10, 10), (1280, 720, 0, 0, 16, 12), (720, 576, 2, 1, 64, 17)]


def job_large(idx, tier, seed, tmp, acc):
    """Realistically sized pictures: round trip, and a comparison in which more than 2^16 pixels of Y, none of C1 and exactly one of C2 differ."""
    env = Env.get()
    rng = random.Random("%s-c23-large-%d" % (seed, idx))
    w, h, cf, pcm, d, d_c = LARGE_THOROUGH[idx]
    vpd = gen_vpd(rng, w, h, cf, excursion_for_depth(d, idx, rng), excursion_for_depth(d_c, idx + 1, rng), env.enums)
    a_pic = gen_picture(rng, vpd, pcm, ["random", "high", "bytes"], rng.getrandbits(32))
    label = "large picture %dx%d, planes from gen_plane(random.Random(%r), 'random'/'high'/'bytes')" % (w, h, "%s-c23-large-%d" % (seed, idx))
    run_rt_case(env, acc, "", tmp, vpd, pcm, a_pic, "large_%d.raw" % idx, idx % 2 == 1, label)
    dims = ref_dims(vpd, pcm)
    b_pic = copy_pic(a_pic)
    for row in b_pic["Y"]:
        for x in range(len(row)):
            if rng.random() < 0.8:
                row[x] ^= 1 << rng.randrange(d)
    b_pic["C2"][rng.randrange(dims["C2"][1])][rng.randrange(dims["C2"][0])] ^= 1 << (d_c - 1)
    compare_case(env, acc, "cmp-samples", tmp, "L%d" % idx, (vpd, pcm, a_pic), (vpd, pcm, b_pic), False, label + "; about 80% of Y and one pixel of C2 differ", swap=idx % 2 == 1)
    compare_case(env, acc, "cmp-identical", tmp, "Li%d" % idx, (vpd, pcm, a_pic), (vpd, pcm, copy_pic(a_pic)), True, label)


JOBS = {"rt": job_rt, "allvalues": job_allvalues, "cmp": job_cmp_samples, "meta": job_cmp_meta, "cli": job_cli, "large": job_large, "names": job_names}


def _run_job(job):
    kind, arg, tier, seed = job
    acc = Acc()
    tmp = tempfile.mkdtemp(prefix="verif-c23-")
    try:
        JOBS[kind](arg, tier, seed, tmp, acc)
    finally:
        shutil.rmtree(tmp, ignore_errors=True)
    return acc.export()


# ------------------------------------------------------------------------------------------------------------------
# clause: dimensions and depths (in the parent; exhaustive grid)
# ------------------------------------------------------------------------------------------------------------------
def check_dims(rep, env, tier):
    rng = random.Random(0)  # only fills the video parameters that do not matter here
    evals = 0
    bad = 0
    samples = []
    kmax = 66 if tier == "quick" else 130
    excs = sorted({e for k in range(1, kmax + 1) for e in ((1 << k) - 2, (1 << k) - 1, 1 << k) if e >= 1} | set(range(1, 1027)))
    base = gen_vpd(rng, 4, 4, 0, 255, 255, env.enums)

    def one(w, h, cf, pcm, le, ce):
        nonlocal evals, bad
        vpd = collections.OrderedDict(base)
        vpd.update(frame_width=w, frame_height=h, color_diff_format_index=cf, luma_excursion=le, color_diff_excursion=ce)
        want = ref_dims(vpd, pcm)
        evals += 1
        try:
            got = env.cdd(env.vp(vpd), env.PCM(pcm))
            obs = [(c, int(v.width), int(v.height), int(v.depth_bits), int(v.bytes_per_sample)) for c, v in got.items()]
            ok = obs == [(c,) + want[c] for c in COMPONENTS] and all(tuple(v) == want[c] for c, v in got.items())
        except Exception as e:
            ok, obs = False, repr(e)
        if not ok and bad < MAX_VIOLATIONS_PER_CLAUSE:
            bad += 1
            rep.violation("c23-dims-%d" % bad, {
                "what": "C23 dims: compute_dimensions_and_depths must return Y, C1, C2 (in this order) with the sizes of picture_dimensions (11.6.2), the depths of "
                        "video_depth (11.6.3) and the smallest power-of-two number of bytes per sample",
                "inputs": _j({"video_parameters": vpd, "picture_coding_mode": pcm}), "expected": _j([(c,) + want[c] for c in COMPONENTS]), "observed": _j(obs)})
        return ok

    for w in range(0, 17):
        for h in range(0, 17):
            for cf, pcm in FORMATS:
                for le, ce in ((255, 1023), (876, 896)):
                    one(w, h, cf, pcm, le, ce)
    n = len(excs)
    for i, le in enumerate(excs):
        ce = excs[(i * 7 + 3) % n]
        for (w, h, cf, pcm) in ((5, 6, 1, 1), (4, 4, 0, 0)):
            one(w, h, cf, pcm, le, ce)
    samples = [{"frame": [5, 6], "color_diff_format_index": 1, "picture_coding_mode": 1, "luma_excursion": (1 << 64) - 1, "color_diff_excursion": 1 << 16,
                "expected": _j(ref_dims(dict(frame_width=5, frame_height=6, color_diff_format_index=1, luma_excursion=(1 << 64) - 1, color_diff_excursion=1 << 16), 1))}]
    rep.add_bounded("C23 dims: compute_dimensions_and_depths against picture_dimensions / video_depth / power-of-two bytes",
                    "exhaustive: frame sizes 0..16 x 0..16 x 3 colour formats x 2 coding modes x 2 signal ranges; every excursion in 1..1026 and 2^k-2, 2^k-1, 2^k "
                    "for k <= %d (depths 1..%d), luma and colour-difference excursions paired crosswise, on two formats" % (kmax, kmax + 1),
                    evals, True, distinct=evals, samples=samples)


# ------------------------------------------------------------------------------------------------------------------
# hook
# ------------------------------------------------------------------------------------------------------------------
def check(rep, tier, seed):
    import multiprocessing

    from pyvc import frontend

    frontend.ensure_repo_on_path()
    env = Env.get()  # imports the code under check in the parent: the forked workers inherit it

    rep.add_eval_fact("C23: the enumerations used for the video parameters are the live vc2_data_tables ones and the picture coding modes are {0: frames, 1: fields}",
                      sorted(int(m) for m in env.PCM) == [0, 1] and env.enums["color_diff_format_index"] == [0, 1, 2] and all(len(v) >= 2 for v in env.enums.values()),
                      repr({k: v for k, v in env.enums.items()}))
    check_dims(rep, env, tier)

    quick = tier == "quick"
    extra_depths = [65, 66, 72, 96, 100, 127, 128, 129] if quick else list(range(65, 131)) + [160, 255, 256, 257]
    jobs = [("large", i, tier, seed) for i in reversed(range(len(LARGE_QUICK if quick else LARGE_THOROUGH)))]
    jobs += [("names", i, tier, seed) for i in range(len(NAME_SHAPES) * (1 if quick else 4))]
    jobs += [("allvalues", d, tier, seed) for d in range(16 if quick else 18, 0, -1)]  # largest first
    jobs += [("cmp", d, tier, seed) for d in range(64, 0, -1)]
    jobs += [("rt", d, tier, seed) for d in list(range(1, 65)) + extra_depths]
    jobs += [("meta", i, tier, seed) for i in range(len(FORMATS) * (len(META_DEPTHS_QUICK) if quick else 64))]
    jobs += [("cli", i, tier, seed) for i in range(CLI_JOBS[tier])]

    ctx = multiprocessing.get_context("fork")
    with ctx.Pool(min(WORKERS, os.cpu_count() or 1)) as pool:
        results = pool.map_async(_run_job, jobs, chunksize=1).get(timeout=1500 if quick else 7200)

    # ---- aggregate in job order (deterministic)
    counts = collections.Counter()
    reported = collections.Counter()
    samples = {}
    for job, r in zip(jobs, results):
        counts.update(r["n"])
        for clause, lst in r["samples"].items():
            samples.setdefault(clause, [])
            samples[clause] = (samples[clause] + lst)[:3]
        for clause, lst in r["viol"].items():
            for p in lst:
                if reported[clause] >= MAX_VIOLATIONS_PER_CLAUSE:
                    break
                reported[clause] += 1
                rep.violation("c23-%s-%d" % (clause, reported[clause]), {
                    "what": "C23 %s (%s): %s" % (clause, CLAUSE_TITLES[clause], p["what"]),
                    "inputs": dict(p["inputs"] or {}, job=[job[0], job[1]], tier=tier, seed=seed), "expected": p["expected"], "observed": p["observed"]})

    sizes = "frame sizes up to %d x %d (odd sizes included, no empty component)" % ((7, 7) if quick else (9, 9))
    rt_domain = ("luma depth 1..64 and %s, colour-difference depth crosswise (every depth 1..64 on both), 3 colour formats x 2 coding modes, %s, patterns "
                 "zero/max/distinct-bytes/index/edge values/random/walking zero + walking one over every bit, excursion largest/smallest/random for the depth, "
                 "picture numbers 0, 1, 2^31-1, 2^31, 2^32-2, 2^32-1 and seeded random, list and numpy-object input, .raw/.json/dotted names; %d generated pictures per luma depth; "
                 "plus the realistically sized pictures of the 'large' jobs"
                 % ("65, 66, 72, 96, 100, 127, 128, 129" if quick else "65..130, 160, 255, 256, 257", sizes, 43 * RT_REPS[tier]))
    rep.add_bounded("C23 raw-layout: .raw bytes on disk / from write_picture == reference encoding (planar, raster, little-endian, zero padded, power-of-two bytes)",
                    "sampled (seeded): " + rt_domain, counts["raw-layout"], False, distinct=counts["raw-layout"], samples=samples.get("roundtrip"))
    rep.add_bounded("C23 metadata: .json on disk has the documented structure; read_metadata of it and of a reference-written file returns identical values",
                    "sampled (seeded): the same pictures; other video parameters drawn from edge values up to 2^32-1 and every enumeration member",
                    counts["metadata"], False, distinct=counts["metadata"])
    rep.add_bounded("C23 roundtrip: read(write(p)) through files and read_picture(reference bytes) return identical samples, picture number, video parameters, coding mode",
                    "sampled (seeded): " + rt_domain, counts["roundtrip"], False, distinct=counts["roundtrip"], samples=samples.get("roundtrip"))
    nall = 16 if quick else 18
    rep.add_bounded("C23 allvalues: raw layout, metadata and round trip of a picture holding every sample value",
                    "exhaustive in the sample value: for every depth 1..%d one 4:4:4 frame whose three components each hold every value 0..2^depth-1 (three different orders)" % nall,
                    counts["allvalues-raw-layout"] + counts["allvalues-metadata"] + counts["allvalues-roundtrip"], True, distinct=nall,
                    note="exhaustive only in the sample value at the stated depths; positions, sizes and formats are not varied here")
    rep.add_bounded("C23 cmp-identical: compare_pictures of separately written equal pictures -> exit 0, 'identical'",
                    "sampled (seeded): one pair per luma depth 1..64 and per metadata job (%s depths x 6 formats)" % ("16" if quick else "64"),
                    counts["cmp-identical"], False, distinct=counts["cmp-identical"])
    rep.add_bounded("C23 cmp-samples: differing samples -> exit != 0 and per-component differing pixel counts (and percentages) are exact",
                    "luma depth 1..64 x crosswise colour-difference depth, %d base picture(s) each (formats cycled, sizes up to 6x6): EVERY single-bit difference 2^k, k < depth, at one "
                    "pixel of Y and of one colour-difference component; top-bit / multiples of 2^16, 2^31, 2^32, 2^48 on many pixels; 0 vs 2^depth-1; 2^depth-1 vs 2^depth-2; +D/-D pairs; "
                    "one whole component; seeded random subsets; argument order alternated; plus %d realistically sized pictures (up to %s) with > 2^16 differing Y pixels"
                    % (CMP_REPS[tier], len(LARGE_QUICK if quick else LARGE_THOROUGH), "352x288" if quick else "1920x1080"),
                    counts["cmp-samples"], False, distinct=counts["cmp-samples"], samples=samples.get("cmp-samples"))
    rep.add_bounded("C23 cmp-metadata: one metadata item differs (samples equal where the format allows) -> exit != 0, never 'Pictures are identical'",
                    "luma depths %s x 3 colour formats x 2 coding modes: each of the 20 video parameters changed alone (every other enumeration member; +1, ^2^31, +2^32 for numbers; "
                    "excursions with the same depth, one bit more, one bit less; sizes +1, +2, x2), the coding mode alone, the picture number alone (^1, ^2^31, +1, 2^32-1-n, random)"
                    % ("{1,2,7,8,9,10,12,16,17,24,31,32,33,48,63,64}" if quick else "1..64"),
                    counts["cmp-metadata"], False, distinct=counts["cmp-metadata"], samples=samples.get("cmp-metadata"))
    rep.add_bounded("C23 cmp-padding: equal samples but different padding bits -> identical; padding garbage plus one real difference -> count 1",
                    "every luma depth 1..64 whose format has a component with padding bits: all padding bits set / random padding bits in one file",
                    counts["cmp-padding"], False, distinct=counts["cmp-padding"])
    rep.add_bounded("C23 cli: main([a, b]) and main([dir_a, dir_b]) exit 0 exactly when every pair is identical; counts and summary right",
                    "sampled (seeded): %d jobs, each 3 file pairs (equal / one sample bit / picture number bit) and one directory pair of 1..4 pictures, random depths 1..64"
                    % CLI_JOBS[tier], counts["cli"], False, distinct=counts["cli"])
    rep.extra_coverage["C23 worker processes"] = min(WORKERS, os.cpu_count() or 1)


REGISTER = {
    "C23": dict(
        extra=[check],
        level="other",
        assumptions=[
            "BOUNDED (not proved): every clause of C23 is checked by executing the real code on the finite domains listed under bounded_checks (exhaustive only where "
            "stated: the dimension/depth grid, every sample value at depths <= 16/18, every single-bit difference per depth); randomness derives from the seed",
            "TRUSTED reference: the reference writer/reader/dimension functions in bounded/c23_file_format.py, written from docs/source/user_guide/file_format.rst and "
            "ST 2042-1 11.6.2 / 11.6.3 (int.to_bytes little-endian, smallest power-of-two byte count); CPython's json and numpy as used by the tree",
            "DOMAIN: formats in which a component has zero samples (e.g. frame_width 1 with 4:2:2, frame_height 1 with fields) are excluded; the comparison tool is exercised "
            "for depths 1..64 only (the statement's range; above 64 bits its PSNR computation is outside the statement), round trips additionally for some depths above 64",
            "NOT checked: PSNR figures, the text of the metadata diff, --difference-mask, and the error exits for missing / wrongly sized files",
            "'identical values' is taken to include the kind of a value: booleans stay booleans, enumerated video parameters and the coding mode come back as members of "
            "their enumeration, the picture number is stored as a decimal string (as documented in the file format description)",
        ],
        manifest=dict(
            category="other",
            technique="bounded native contract check: independent reference writer/reader written from the file format description and the standard's pseudocode; "
                      "exhaustive small scopes (dimension grid, all sample values at small depths, all single-bit differences) plus seeded sampling over depths 1..64 "
                      "and beyond; the comparison tool is fed reference-written files and its verdict, exit code and per-component counts are compared with a direct count",
            text="For every luma/colour-difference depth 1..64 (and some above), all colour formats and coding modes, odd sizes, extreme sample values and picture numbers up to "
                 "2^32-1: the files written are byte-for-byte the documented layout, reading returns identical values, and vc2-picture-compare reports identical (exit 0) "
                 "exactly for equal pictures, otherwise with exact per-component differing pixel counts; any single changed metadata item is reported as a difference.",
            note="A bounded stand-in: sampled domains, never counted as proved. Empty components, depths above 64 bits in the comparison tool, PSNR values and error exits are outside the check.",
        ),
    )
}
