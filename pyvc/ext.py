"""Engine extensions used by the validator contracts (C02/C01/C10):
symbolic string keys over a declared finite domain, level->orientation maps ("lomap"), symbolic
indexing of constant tables ("choice"), key sets of fixed-entry dictionaries ("kset"), trusted
opaque classes, iteration over opaque iterables."""
import ast

import z3

from . import symexec as S
from .symexec import AIA, AIB, AII, B, I, NONE, SV, Unsupported, as_int, lift_conc, mk_bool, mk_conc, mk_int, mk_ref, sv_ite, truth

ORIENTS = {"LL": 0, "L": 1, "H": 2, "HL": 3, "LH": 4, "HH": 5}
AIAB = z3.ArraySort(I, AIB)
AIAAB = z3.ArraySort(I, AIAB)
AIAA = z3.ArraySort(I, AIA)


def lo_arrays(ctx, st):
    """lo_row: ref -> level -> Bool;  lo_has: ref -> level -> orientation id -> Bool;  lo_val: ref -> level -> oid -> value"""
    row = ctx.field_array(st, "lo_row", AIAB)
    has = ctx.field_array(st, "lo_has", AIAAB)
    val = ctx.field_array(st, "lo_val", AIAA)
    return row, has, val


def install(Exec, Runner):
    """Monkey-patches the evaluator classes with the extended cases (kept here to keep symexec.py readable)."""
    base_subscript = Exec.ev_Subscript
    base_assign = Runner.assign_target
    base_sort = S.Ctx.sort_of_field

    def sort_of_field(self, name):
        if name == "lo_row":
            return AIAB
        if name == "lo_has":
            return AIAAB
        if name == "lo_val":
            return AIAA
        if name in ("g_h", "g_w"):
            return AII
        if name == "g_val":
            return AIAA
        return base_sort(self, name)

    S.Ctx.sort_of_field = sort_of_field

    # ---- symbolic string keys ---------------------------------------------------------
    def key_cases(self, st, sl, node):
        """[(cond z3 | None, key name)] for a dictionary key expression."""
        ctx = self.ctx
        if isinstance(sl, ast.Constant) and isinstance(sl.value, str):
            return [(None, sl.value)]
        v = self.ev(st, sl)
        if v.k == "str" and v.x is not None:
            return [(None, v.x)]
        if v.k == "conc" and isinstance(v.z, str):
            return [(None, v.z)]
        if v.k == "str":
            dom = ctx.str_domains.get(v.z.get_id())
            if dom is None:
                raise Unsupported("dictionary key is a string with no declared finite domain", node)
            cases = [(v.z == ctx.strid(name), name) for name in dom]
            ctx.oblige(st, z3.Or(*[c for c, _ in cases]), "key-domain", node, "string key is one of %r" % (dom,))
            return cases
        raise Unsupported("dictionary key of kind %s" % v.k, node)

    Exec.key_cases = key_cases

    def ev_Subscript(self, st, e):
        ctx = self.ctx
        if isinstance(e.slice, ast.Slice):
            return base_subscript(self, st, e)
        base = self.ev(st, e.value)
        # evaluate the base only once: re-dispatch on the value
        return self.subscript_value(st, base, e)

    def subscript_value(self, st, base, e):
        ctx = self.ctx
        kind = base.x if base.k == "ref" else None
        if base.k == "ref" and str(kind).startswith("dict"):
            cases = self.key_cases(st, e.slice, e)
            if len(cases) == 1 and cases[0][0] is None:
                return self.load_key(st, base, cases[0][1], e)
            res = None
            for cond, name in reversed(cases):
                sub = st.fork(cond)
                v = self.load_key(sub, base, name, e)
                res = v if res is None else sv_ite(ctx, cond, v, res)
            return res
        if base.k == "ref" and str(kind).startswith("lomap"):
            lv = as_int(ctx, st, self.ev(st, e.slice), e)
            row, has, val = lo_arrays(ctx, st)
            ctx.oblige(st, row[base.z][lv], "key-present", e, "level %s is present in the level/orientation map" % ast.unparse(e.slice))
            return SV("lorow", (base.z, lv), kind.split(":", 1)[1] if ":" in kind else "int")
        if base.k == "lorow":
            m, lv = base.z
            cases = self.key_cases(st, e.slice, e)
            row, has, val = lo_arrays(ctx, st)
            res = None
            for cond, name in reversed(cases):
                if name not in ORIENTS:
                    raise Unsupported("orientation %r" % name, e)
                sub = st.fork(cond) if cond is not None else st
                oid = ORIENTS[name]
                ctx.oblige(sub, has[m][lv][oid], "key-present", e, "orientation %r is present at this level" % name)
                z = val[m][lv][oid]
                v = mk_int(z) if base.x == "int" else mk_ref(z, base.x)
                res = v if res is None else sv_ite(ctx, cond, v, res)
            return res
        if base.k == "ref" and str(kind).startswith("grid"):
            # abstract 2-D array (list of equally long rows): a[y] is a row view
            y = as_int(ctx, st, self.ev(st, e.slice), e)
            gh = ctx.field_array(st, "g_h", AII)[base.z]
            ctx.oblige(st, z3.And(y >= -gh, y < gh), "index-range", e, "row index within the 2-D array's height")
            y = z3.If(y < 0, y + gh, y)
            return SV("gridrow", (base.z, y))
        if base.k == "gridrow":
            g, y = base.z
            x = as_int(ctx, st, self.ev(st, e.slice), e)
            gw = ctx.field_array(st, "g_w", AII)[g]
            ctx.oblige(st, z3.And(x >= -gw, x < gw), "index-range", e, "column index within the 2-D array's width")
            x = z3.If(x < 0, x + gw, x)
            return mk_int(ctx.field_array(st, "g_val", AIAA)[g][y][x])
        if base.k == "choice":
            idx = self.ev(st, e.slice)
            outs = []
            for cond, obj in base.z:
                sub = st.fork(cond)
                outs.append((cond, self.index_conc(sub, mk_conc(obj), idx, e)))
            return collapse_choice(ctx, outs)
        if base.k == "conc" and isinstance(base.z, dict):
            idx = self.ev(st, e.slice)
            if idx.k == "optint":
                # an optional integer as the key of a constant table: None is not a key (KeyError)
                ctx.oblige(st, z3.Not(idx.z[0]), "not-none", e, "key of a constant table is not None")
                idx = S.mk_int(idx.z[1])
                return index_table(self, st, base.z, as_int(ctx, st, idx, e), e)
            if idx.k in ("int", "bool") and not z3.is_int_value(z3.simplify(as_int(ctx, st, idx, e))):
                return index_table(self, st, base.z, as_int(ctx, st, idx, e), e)
        # fall back to the plain cases
        tmpname = "__sub_base"
        saved = st.env.get(tmpname), st.defd.get(tmpname)
        st.env[tmpname] = base
        st.defd[tmpname] = z3.BoolVal(True)
        try:
            e2 = ast.copy_location(ast.Subscript(value=ast.Name(id=tmpname, ctx=ast.Load()), slice=e.slice, ctx=ast.Load()), e)
            return base_subscript(self, st, e2)
        finally:
            if saved[0] is None:
                st.env.pop(tmpname, None)
                st.defd.pop(tmpname, None)
            else:
                st.env[tmpname], st.defd[tmpname] = saved

    Exec.ev_Subscript = ev_Subscript
    Exec.subscript_value = subscript_value

    def index_table(self, st, table, idx, node):
        """TABLE[symbolic int] for a constant dict keyed by ints/IntEnums: KeyError obligation + case split."""
        ctx = self.ctx
        keys = list(table.keys())
        if not all(isinstance(k, int) for k in keys):
            raise Unsupported("symbolic index into a table with non-integer keys", node)
        ctx.oblige(st, z3.Or(*[idx == int(k) for k in keys]), "key-present", node, "index is a key of the constant table")
        outs = [(idx == int(k), lift_conc(ctx, mk_conc(table[k]), node)) for k in keys]
        return collapse_choice(ctx, outs)

    def collapse_choice(ctx, outs):
        """[(cond, SV)] -> ite value if the SVs are first-order, else a 'choice' of concrete objects."""
        if all(v.k in ("int", "bool", "none", "optint", "str") for _, v in outs):
            res = None
            for cond, v in reversed(outs):
                res = v if res is None else sv_ite(ctx, cond, v, res)
            return res
        if all(v.k == "conc" for _, v in outs):
            return SV("choice", [(c, v.z) for c, v in outs])
        if all(v.k == "choice" for _, v in outs):
            flat = []
            for c, v in outs:
                for c2, o in v.z:
                    flat.append((z3.And(c, c2), o))
            return SV("choice", flat)
        if all(v.k == "tuple" for _, v in outs) and len(set(len(v.z) for _, v in outs)) == 1:
            n = len(outs[0][1].z)
            return S.mk_tuple([collapse_choice(ctx, [(c, v.z[i]) for c, v in outs]) for i in range(n)])
        raise Unsupported("table entries of mixed kinds")

    base_attr = Exec.ev_Attribute

    def ev_Attribute(self, st, e):
        ctx = self.ctx
        base = self.ev(st, e.value)
        if base.k == "choice":
            outs = []
            for cond, obj in base.z:
                try:
                    outs.append((cond, lift_conc(ctx, mk_conc(getattr(obj, e.attr)), e)))
                except AttributeError:
                    raise Unsupported("attribute %s of a table entry" % e.attr, e)
            return collapse_choice(ctx, outs)
        tmpname = "__attr_base"
        st.env[tmpname] = base
        st.defd[tmpname] = z3.BoolVal(True)
        try:
            e2 = ast.copy_location(ast.Attribute(value=ast.Name(id=tmpname, ctx=ast.Load()), attr=e.attr, ctx=ast.Load()), e)
            return base_attr(self, st, e2)
        finally:
            st.env.pop(tmpname, None)
            st.defd.pop(tmpname, None)

    Exec.ev_Attribute = ev_Attribute

    base_contains = Exec.contains

    def contains(self, st, a, b, node):
        ctx = self.ctx
        if b.k == "choice":
            return z3.Or(*[z3.And(c, base_contains(self, st, a, mk_conc(o), node)) for c, o in b.z])
        if b.k == "kset":
            if a.k == "str" and a.x is not None:
                return b.z.get(a.x, z3.BoolVal(False))
            raise Unsupported("membership of a symbolic string in a key set", node)
        if b.k == "ref" and str(b.x).startswith("opaque"):
            return ctx.fresh("opaque_in", B)
        if b.k == "ref" and str(b.x).startswith("dict"):
            cases = None
            if a.k == "str" and a.x is None:
                dom = ctx.str_domains.get(a.z.get_id())
                if dom is not None:
                    return z3.Or(*[z3.And(a.z == ctx.strid(n), ctx.field_array(st, "has_" + n, AIB)[b.z]) for n in dom])
        if b.k == "conc" and isinstance(b.z, dict) and a.k == "tuple":
            # tuple key in a constant table (e.g. QUANTISATION_MATRICES): enumerate
            keys = [k for k in b.z.keys() if isinstance(k, tuple) and len(k) == len(a.z)]
            if len(keys) <= 4096:
                comps = [as_int(ctx, st, x, node) for x in a.z]
                return z3.Or(*[z3.And(*[c == int(kk) for c, kk in zip(comps, k)]) for k in keys]) if keys else z3.BoolVal(False)
        return base_contains(self, st, a, b, node)

    Exec.contains = contains

    # ---- stores ---------------------------------------------------------------------------
    def assign_target(self, st, tgt, val, node):
        ctx = self.ctx
        if isinstance(tgt, ast.Subscript) and not isinstance(tgt.slice, ast.Slice):
            base = self.ev(st, tgt.value)
            kind = base.x if base.k == "ref" else None
            if base.k == "ref" and str(kind).startswith("dict"):
                cases = self.key_cases(st, tgt.slice, node)
                for cond, name in cases:
                    self.store_key_cond(st, base, name, val, node, cond)
                return
            if base.k == "ref" and str(kind).startswith("lomap"):
                lv = as_int(ctx, st, self.ev(st, tgt.slice), node)
                row, has, val_a = lo_arrays(ctx, st)
                if val.k != "emptydict" and not (val.k == "dictlit"):
                    raise Unsupported("only dict literals can be stored as a level of a level/orientation map", node)
                ctx.set_field_array(st, "lo_row", z3.Store(row, base.z, z3.Store(row[base.z], lv, z3.BoolVal(True))))
                h = z3.K(I, z3.BoolVal(False))
                v = val_a[base.z][lv]
                entries = dict(val.z) if val.k == "dictlit" else {}
                for name, oid in ORIENTS.items():
                    if name in entries:
                        ev_ = entries[name]
                        h = z3.Store(h, oid, z3.BoolVal(True))
                        v = z3.Store(v, oid, ev_.z if ev_.k == "ref" else as_int(ctx, st, ev_, node))
                ctx.set_field_array(st, "lo_has", z3.Store(has, base.z, z3.Store(has[base.z], lv, h)))
                ctx.set_field_array(st, "lo_val", z3.Store(val_a, base.z, z3.Store(val_a[base.z], lv, v)))
                return
            if base.k == "lorow":
                m, lv = base.z
                cases = self.key_cases(st, tgt.slice, node)
                row, has, val_a = lo_arrays(ctx, st)
                h = has[m][lv]
                v = val_a[m][lv]
                z = val.z if val.k == "ref" else as_int(ctx, st, val, node)
                for cond, name in cases:
                    k = ORIENTS[name]
                    h = z3.Store(h, k, z3.BoolVal(True) if cond is None else z3.If(cond, z3.BoolVal(True), h[k]))
                    v = z3.Store(v, k, z if cond is None else z3.If(cond, z, v[k]))
                ctx.set_field_array(st, "lo_has", z3.Store(has, m, z3.Store(has[m], lv, h)))
                ctx.set_field_array(st, "lo_val", z3.Store(val_a, m, z3.Store(val_a[m], lv, v)))
                return
            if base.k == "gridrow":
                g, y = base.z
                x = as_int(ctx, st, self.ev(st, tgt.slice), node)
                gw = ctx.field_array(st, "g_w", AII)[g]
                ctx.oblige(st, z3.And(x >= -gw, x < gw), "index-range", node, "column index within the 2-D array's width")
                x = z3.If(x < 0, x + gw, x)
                gv = ctx.field_array(st, "g_val", AIAA)
                ctx.set_field_array(st, "g_val", z3.Store(gv, g, z3.Store(gv[g], y, z3.Store(gv[g][y], x, as_int(ctx, st, val, node)))))
                return
            if base.k == "ref" and str(kind).startswith("opaque"):
                self.ev(st, tgt.slice)
                return  # store into an opaque container (e.g. OrderedDict of level-constrained values)
        if val.k in ("emptydict", "dictlit") and isinstance(tgt, ast.Name):
            val = self.materialise_dict(st, val, node)
        return base_assign(self, st, tgt, val, node)

    Runner.assign_target = assign_target

    def store_key_cond(self, st, base, key, val, node, cond):
        ctx = self.ctx
        t = self.field_type(key, node)
        if val.k in ("emptydict", "dictlit"):
            if t.startswith("ref:lomap"):
                if val.k != "emptydict":
                    raise Unsupported("non-empty dict literal stored as a level/orientation map", node)
                r = self.alloc_ref(st, "lomap")
                row, has, val_a = lo_arrays(ctx, st)
                ctx.set_field_array(st, "lo_row", z3.Store(row, r, z3.K(I, z3.BoolVal(False))))
                ctx.set_field_array(st, "lo_has", z3.Store(has, r, z3.K(I, z3.K(I, z3.BoolVal(False)))))
                val = mk_ref(r, t[4:])
            else:
                val = self.materialise_dict(st, val, node)
        if cond is None:
            self.store_key(st, base, key, val, node)
            return
        a = st.fork(cond)
        b = st.fork(z3.Not(cond))
        self.store_key(a, base, key, val, node)
        S.merge_states(ctx, [a, b], st)

    Runner.store_key_cond = store_key_cond

    def materialise_dict(self, st, val, node):
        r = self.alloc_ref(st, "dict")
        ref = mk_ref(r, "dict")
        if val.k == "dictlit":
            for name, v in val.z:
                self.store_key(st, ref, name, v, node)
        return ref

    Runner.materialise_dict = materialise_dict
    Exec.materialise_dict = materialise_dict

    def dict_literal(self, st, e):
        items = []
        for k, v in zip(e.keys, e.values):
            if not (isinstance(k, ast.Constant) and isinstance(k.value, str)):
                raise Unsupported("dict literal with non-constant key", e)
            items.append((k.value, self.ev(st, v)))
        if not items:
            return SV("emptydict")
        return SV("dictlit", items)

    def ev_Dict(self, st, e):
        return self.materialise_dict(st, dict_literal(self, st, e), e)

    Exec.ev_Dict = ev_Dict

    def st_Assign(self, st, s):
        # a dict literal stored into a container slot keeps its literal form so that the slot's declared
        # type (plain dict / level-orientation map) decides how it is represented
        if isinstance(s.value, ast.Dict) and all(isinstance(t, ast.Subscript) for t in s.targets):
            val = dict_literal(self, st, s.value)
        else:
            val = self.ev(st, s.value)
        for tgt in s.targets:
            self.assign_target(st, tgt, val, s)

    Runner.st_Assign = st_Assign

    base_lookup_call = None

    # ---- key sets -------------------------------------------------------------------------------
    def universe_of(self, base, node):
        kind = base.x or ""
        cls = kind.split(":", 1)[1] if ":" in kind else None
        uni = self.reg.dict_universes.get(cls)
        if uni is None:
            raise Unsupported("no declared key universe for dictionaries of kind %s" % kind, node)
        return uni

    Exec.universe_of = universe_of


def kset_of_dict(ex, st, base, node):
    ctx = ex.ctx
    uni = ex.universe_of(base, node)
    return SV("kset", {k: ctx.field_array(st, "has_" + k, AIB)[base.z] for k in uni})


def install_calls():
    """Extensions of call handling and loops."""
    from . import calls as C
    from . import stmts as T

    base_builtin = C.builtin_call

    def builtin_call(ex, st, o, args, kwargs, e):
        name = getattr(o, "__name__", str(o))
        ctx = ex.ctx
        if name == "set" and len(args) == 1:
            a = args[0]
            if a.k == "kset":
                return a
            if a.k == "conc" and all(isinstance(x, str) for x in a.z):
                return SV("kset", {k: z3.BoolVal(True) for k in a.z})
            raise Unsupported("set() of %s" % a.k, e)
        if name == "tuple" and len(args) == 1 and args[0].k == "tuple":
            return args[0]
        if name == "list" and len(args) == 1 and args[0].k in ("tuple", "conc"):
            a = args[0]
            items = a.z if a.k == "tuple" else [lift_conc(ctx, mk_conc(x), e) for x in a.z]
            return ex.alloc_list(st, items, e)
        return base_builtin(ex, st, o, args, kwargs, e)

    C.builtin_call = builtin_call

    base_do_call = C.do_call

    def do_call(ex, st, e):
        # `set` / `tuple` / `OrderedDict` etc. are types, not builtin functions
        f = e.func
        if isinstance(f, ast.Name) and f.id in ("set", "tuple", "list") and f.id not in st.env:
            args = [ex.ev(st, a) for a in e.args]
            return builtin_call(ex, st, {"set": set, "tuple": tuple, "list": list}[f.id], args, {}, e)
        return base_do_call(ex, st, e)

    C.do_call = do_call

    base_method = C.method_call

    def method_call(ex, st, bm, args, kwargs, e):
        ctx = ex.ctx
        recv, name = bm.recv, bm.name
        if recv.k == "ref":
            kind = recv.x or ""
            h = ex.reg.builtin_methods.get((kind, name))
            if h is not None:
                return h(ex, st, recv, args, kwargs, e)
            if kind.startswith("dict") and name == "keys":
                return kset_of_dict(ex, st, recv, e)
            if kind.startswith("dict") and name == "setdefault":
                key = args[0]
                if key.k != "str" or key.x is None:
                    raise Unsupported("setdefault with symbolic key", e)
                has = ctx.field_array(st, "has_" + key.x, AIB)[recv.z]
                a = st.fork(has)
                b = st.fork(z3.Not(has))
                ex.store_key(b, recv, key.x, args[1], e)
                S.merge_states(ctx, [a, b], st)
                return ex.load_field(st, recv, key.x, e)
        if recv.k == "str" and name == "format":
            return SV("str", ctx.fresh("fmt"))
        return base_method(ex, st, bm, args, kwargs, e)

    C.method_call = method_call

    base_class_call = C.class_call

    def class_call(ex, st, cls, args, kwargs, e):
        ctx = ex.ctx
        fq = getattr(cls, "__module__", "") + "." + getattr(cls, "__qualname__", "")
        kind = ex.reg.opaque_classes.get(fq)
        if kind is not None:
            r = ex.alloc_ref(st, kind)
            ex.reg.used_opaque.add(fq)
            hook = getattr(ex.reg, "opaque_ctor_hooks", {}).get(fq)
            if hook is not None:
                hook(ex, st, r, args, e)
            return mk_ref(r, kind)
        if isinstance(cls, type) and issubclass(cls, dict) and hasattr(cls, "entry_objs") and not args:
            # fixed-entry dictionary built from keyword arguments: undeclared names raise FixedDictKeyError (C27)
            for k in kwargs:
                if k not in cls.entry_objs:
                    raise Unsupported("fixeddict constructor with undeclared key %s" % k, e)
            r = ex.alloc_ref(st, "dict:" + cls.__name__)
            ref = mk_ref(r, "dict:" + cls.__name__)
            for k, v in kwargs.items():
                ex.store_key(st, ref, k, v, e)
            return ref
        return base_class_call(ex, st, cls, args, kwargs, e)

    C.class_call = class_call

    # ---- loops over key sets (unrolled over the declared universe) and opaque iterables -------------
    base_for = T.Runner.st_For

    def st_For(self, st, s):
        ctx = self.ctx
        it = s.iter
        if not (isinstance(it, ast.Call) and isinstance(it.func, ast.Name) and it.func.id in ("range", "reversed", "enumerate", "zip", "count")):
            if isinstance(it, (ast.List, ast.Tuple)) and all(isinstance(x, ast.Constant) for x in it.elts):
                self.unroll(st, s, [self.ev(st, x) for x in it.elts])
                return
            seq = self.ev(st, it)
            if seq.k == "kset":
                if s.orelse:
                    raise Unsupported("for/else", s)
                # arbitrary iteration order: sound when iterations touch disjoint state (each handles its own key)
                ctx.notes.append("loop over a key set at line %d is unrolled over the declared key universe in a fixed order (iterations are assumed order-independent)" % s.lineno)
                for name in sorted(seq.z):
                    member = seq.z[name]
                    if z3.is_false(z3.simplify(member)):
                        continue
                    a = st.fork(member)
                    b = st.fork(z3.Not(member))
                    self.assign_target(a, s.target, SV("str", ctx.strid(name), name), s)
                    fr = ctx.frames[-1]
                    ctl = T.LoopCtl()
                    fr.loops.append(ctl)
                    self.run_block(a, s.body)
                    fr.loops.pop()
                    if ctl.breaks:
                        raise Unsupported("break in a loop over a key set", s)
                    S.merge_states(ctx, [a, b] + ctl.continues, st)
                return
            if seq.k == "ref" and str(seq.x).startswith("opaque"):
                self.do_loop(st, s, ("opaque", seq))
                return
            st.env["__for_seq"] = seq
            st.defd["__for_seq"] = z3.BoolVal(True)
            s2 = ast.copy_location(ast.For(target=s.target, iter=ast.copy_location(ast.Name(id="__for_seq", ctx=ast.Load()), it), body=s.body, orelse=s.orelse), s)
            fr = ctx.frames[-1]
            fr.loop_ordinals[id(s2)] = fr.loop_ordinals.get(id(s))
            try:
                return base_for(self, st, s2)
            finally:
                st.env.pop("__for_seq", None)
        return base_for(self, st, s)

    T.Runner.st_For = st_For

    base_binop = S.Exec.ev_BinOp

    def ev_BinOp(self, st, e):
        if isinstance(e.op, ast.Sub):
            a = self.ev(st, e.left)
            if a.k == "kset":
                b = self.ev(st, e.right)
                if b.k != "kset":
                    raise Unsupported("set difference with %s" % b.k, e)
                return SV("kset", {k: z3.And(m, z3.Not(b.z.get(k, z3.BoolVal(False)))) for k, m in a.z.items()})
            st.env["__binl"] = a
            st.defd["__binl"] = z3.BoolVal(True)
            try:
                e2 = ast.copy_location(ast.BinOp(left=ast.copy_location(ast.Name(id="__binl", ctx=ast.Load()), e.left), op=e.op, right=e.right), e)
                return base_binop(self, st, e2)
            finally:
                st.env.pop("__binl", None)
        return base_binop(self, st, e)

    S.Exec.ev_BinOp = ev_BinOp
