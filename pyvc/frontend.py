"""Frontend: reads the *real* source of the tree under check on every run.

Nothing is hand-copied: for every function named by a contract we take that
function's ``ast.FunctionDef`` from ``<VERIF_REPO>/vc2_conformance/**.py``.
Dropped by the extraction (and only this): docstrings/comments, the
decorators listed in ``IDENTITY_DECORATORS`` (checked natively at start-up to
return their argument unchanged), argument *values* of exception constructors
(the argument expressions are still evaluated for their safety obligations).
"""
import ast
import hashlib
import importlib
import os
import sys

REPO = os.environ.get("VERIF_REPO", "/repo")

IDENTITY_DECORATORS = {"ref_pseudocode"}


def ensure_repo_on_path():
    """Make `import vc2_conformance` resolve to the tree under check."""
    if sys.path[0] != REPO:
        sys.path.insert(0, REPO)
    for name in list(sys.modules):
        if name == "vc2_conformance" or name.startswith("vc2_conformance."):
            f = getattr(sys.modules[name], "__file__", None) or ""
            if not os.path.abspath(f).startswith(os.path.abspath(REPO) + os.sep):
                del sys.modules[name]
    import vc2_conformance

    got = os.path.abspath(vc2_conformance.__file__)
    if not got.startswith(os.path.abspath(REPO) + os.sep):
        raise RuntimeError(
            "vc2_conformance resolves to %s, not under %s" % (got, REPO)
        )


class FuncSrc(object):
    def __init__(self, module, qualname, node, path, cls=None):
        self.module = module  # dotted module name
        self.qualname = qualname  # e.g. "BitstreamReader.read_bit"
        self.node = node
        self.path = path
        self.cls = cls
        self.loops = number_loops(node)

    @property
    def fq(self):
        return self.module + "." + self.qualname

    @property
    def lines(self):
        return (self.node.lineno, self.node.end_lineno)

    @property
    def sha(self):
        return hashlib.sha256(ast.dump(self.node).encode()).hexdigest()[:16]

    def params(self):
        a = self.node.args
        names = [x.arg for x in a.posonlyargs + a.args]
        defaults = [None] * (len(names) - len(a.defaults)) + list(a.defaults)
        return list(zip(names, defaults))


def number_loops(fn):
    """Pre-order ordinal of every for/while loop (and comprehension) in fn."""
    out = {}
    n = [0]

    class V(ast.NodeVisitor):
        def visit_For(self, node):
            n[0] += 1
            out[id(node)] = n[0]
            self.generic_visit(node)

        def visit_While(self, node):
            n[0] += 1
            out[id(node)] = n[0]
            self.generic_visit(node)

        def visit_FunctionDef(self, node):
            if node is fn:
                self.generic_visit(node)
            # nested defs are not entered

    V().visit(fn)
    return out


_MODCACHE = {}


def module_path(modname):
    rel = modname.replace(".", os.sep)
    p = os.path.join(REPO, rel + ".py")
    if os.path.exists(p):
        return p
    p = os.path.join(REPO, rel, "__init__.py")
    if os.path.exists(p):
        return p
    raise KeyError("no source for module %s under %s" % (modname, REPO))


def module_ast(modname):
    if modname not in _MODCACHE:
        path = module_path(modname)
        with open(path) as f:
            src = f.read()
        _MODCACHE[modname] = (ast.parse(src, path), path, src)
    return _MODCACHE[modname]


def strip_docstring(fn):
    body = fn.body
    if (
        body
        and isinstance(body[0], ast.Expr)
        and isinstance(body[0].value, ast.Constant)
        and isinstance(body[0].value.value, str)
    ):
        return body[1:] or [ast.Pass()]
    return body


class Unsupported(Exception):
    """The function is outside the verified subset (never reported as a violation)."""

    def __init__(self, msg, node=None):
        Exception.__init__(self, msg)
        self.node = node


class NoSource(Unsupported, KeyError):
    """No analysable `def` for this name in the tree being checked (function built by a factory, wrapped by a
    decorator that does not return it unchanged, removed, ...): the unit is outside the verified subset."""

    def __str__(self):
        return Exception.__str__(self)


def _live(fq):
    ensure_repo_on_path()
    parts = fq.split(".")
    for i in range(len(parts) - 1, 0, -1):
        try:
            obj = importlib.import_module(".".join(parts[:i]))
        except ImportError:
            continue
        try:
            owner = None
            for p in parts[i:]:
                owner, obj = obj, (obj.__dict__[p] if isinstance(obj, type) and p in obj.__dict__ else getattr(obj, p))
            return obj
        except AttributeError:
            return None
    return None


def _decorator_returns_def(fq, node, path):
    """True when the live object bound to `fq` is a plain function running the code compiled from this very
    `def` (an unknown decorator that hands its argument back): the def body then IS what runs."""
    import types

    try:
        obj = _live(fq)
    except Exception:
        return False
    if isinstance(obj, (staticmethod, classmethod)):
        obj = obj.__func__
    if not isinstance(obj, types.FunctionType) or hasattr(obj, "__wrapped__"):
        return False
    co = obj.__code__
    lines = {node.lineno} | {d.lineno for d in node.decorator_list}
    try:
        same_file = os.path.samefile(co.co_filename, path)
    except OSError:
        same_file = False
    return same_file and co.co_name == node.name and co.co_firstlineno in lines


def get_function(fq, _follow=True):
    """fq = 'vc2_conformance.mod.func' or 'vc2_conformance.mod.Class.method'."""
    parts = fq.split(".")
    # find longest module prefix
    for k in range(len(parts) - 1, 0, -1):
        modname = ".".join(parts[:k])
        try:
            tree, path, _ = module_ast(modname)
        except KeyError:
            continue
        rest = parts[k:]
        node = tree
        cls = None
        for i, name in enumerate(rest):
            found = None
            for child in node.body:
                if (
                    isinstance(child, (ast.FunctionDef, ast.ClassDef))
                    and child.name == name
                ):
                    found = child
            if found is None:
                if _follow:
                    # a method inherited from a base class, or a name re-exported from another module of the tree:
                    # ask the live object where its `def` is
                    try:
                        obj = _live(fq)
                    except Exception:
                        obj = None
                    if isinstance(obj, (staticmethod, classmethod)):
                        obj = obj.__func__
                    real = fq_of(obj) if obj is not None else None
                    if real and real != fq and "<locals>" not in real:
                        fs = get_function(real, _follow=False)
                        return FuncSrc(fs.module, fs.qualname, fs.node, fs.path, cls if cls else fs.cls)
                raise NoSource("function %s has no def in %s" % (fq, path))
            if isinstance(found, ast.ClassDef):
                cls = found.name
            node = found
        if not isinstance(node, ast.FunctionDef):
            raise NoSource("%s is not a function" % fq)
        for d in node.decorator_list:
            dn = d.func if isinstance(d, ast.Call) else d
            name = dn.id if isinstance(dn, ast.Name) else getattr(dn, "attr", "?")
            if name not in IDENTITY_DECORATORS and name not in (
                "property",
                "staticmethod",
                "context_type",
            ):
                if _decorator_returns_def(fq, node, path):
                    continue
                raise NoSource("%s has unsupported decorator %s" % (fq, name))
        return FuncSrc(modname, ".".join(rest), node, path, cls)
    raise NoSource("no module found for %s" % fq)


def module_prefix(fq):
    parts = fq.split(".")
    for k in range(len(parts) - 1, 0, -1):
        try:
            module_path(".".join(parts[:k]))
            return ".".join(parts[:k])
        except KeyError:
            continue
    return ".".join(parts[:-1])


def live_module(modname):
    ensure_repo_on_path()
    return importlib.import_module(modname)


def resolve_name(modname, name):
    """What does global `name` refer to inside module `modname` (live object)?"""
    m = live_module(modname)
    if hasattr(m, name):
        return getattr(m, name)
    import builtins

    if hasattr(builtins, name):
        return getattr(builtins, name)
    raise KeyError("name %s not found in module %s" % (name, modname))


def fq_of(obj):
    """Fully qualified name of a live function object from the tree."""
    mod = getattr(obj, "__module__", None)
    qn = getattr(obj, "__qualname__", None)
    if mod and qn and mod.startswith("vc2_conformance"):
        return mod + "." + qn
    return None


def check_identity_decorators():
    ensure_repo_on_path()
    from vc2_conformance.pseudocode import metadata

    def probe():
        """(0.0.0) probe"""
        return 1

    before = len(metadata.pseudocode_derived_functions)
    r = metadata.ref_pseudocode(probe)
    r2 = metadata.ref_pseudocode(deviation="inferred_implementation")(probe)
    del metadata.pseudocode_derived_functions[before:]
    if r is not probe or r2 is not probe:
        raise RuntimeError("ref_pseudocode no longer returns its argument unchanged")
