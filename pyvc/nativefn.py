"""Native (CPython) semantics of function contracts: builds real objects from decoded inputs, calls
the real function from the tree under check, evaluates the contract clauses natively.  Used to replay
counter-models and as the bounded stand-in when an obligation is undecided."""
import ast
import copy
import importlib
import io
import random
import time

from . import api, frontend
from .native import NativeFail


def build(desc):
    if not isinstance(desc, dict) or "__kind__" not in desc:
        return desc
    k = desc["__kind__"]
    if k == "file":
        f = io.BytesIO(bytes(bytearray(desc["data"])))
        f.seek(max(0, desc["pos"]))
        return f
    if k == "list":
        return list(desc["data"])
    if k.startswith("dict"):
        frontend.ensure_repo_on_path()
        if k == "dict:State":
            from vc2_conformance.pseudocode.state import State

            d = State()
        else:
            d = {}
        for key, v in desc["keys"].items():
            val = build(v)
            if key == "_recorded_bytes" and isinstance(val, list):
                val = bytearray(x % 256 for x in val)
            dict.__setitem__(d, key, val)
        return d
    if k.startswith("obj:"):
        cls = resolve(api.REG.classes[k[4:]])
        o = cls.__new__(cls)
        for a, v in desc["attrs"].items():
            setattr(o, a, build(v))
        return o
    return None


def resolve(fq):
    parts = fq.split(".")
    for i in range(len(parts) - 1, 0, -1):
        try:
            obj = importlib.import_module(".".join(parts[:i]))
        except ImportError:
            continue
        for p in parts[i:]:
            obj = getattr(obj, p)
        return obj
    raise KeyError(fq)


class _OldRewriter(ast.NodeTransformer):
    def __init__(self):
        self.olds = []

    def visit_Call(self, node):
        if isinstance(node.func, ast.Name) and node.func.id in ("old", "at_entry"):
            self.olds.append(node.args[0])
            return ast.Subscript(value=ast.Name(id="__olds__", ctx=ast.Load()), slice=ast.Constant(len(self.olds) - 1), ctx=ast.Load())
        return self.generic_visit(node)


class Unevaluable(Exception):
    pass


STATS = {"pre_ok": 0}  # calls of run_contract whose inputs satisfied the precondition (the others check nothing)


def _eval(node, env):
    node = api.lazy_expr(node)
    code = compile(ast.fix_missing_locations(ast.Expression(body=node)), "<clause>", "eval")
    try:
        return eval(code, env)
    except api.PreFail:
        raise
    except (IndexError, KeyError, RecursionError, TypeError, AttributeError, ZeroDivisionError, RuntimeError, ValueError) as e:
        raise Unevaluable(repr(e))


def param_names(contract):
    """Positional parameter names: from the def where there is one, else from the live object's signature."""
    try:
        return [p for p, _ in frontend.get_function(contract.fq).params()]
    except frontend.NoSource:
        import inspect

        frontend.ensure_repo_on_path()
        return [n for n, p in inspect.signature(resolve(contract.fq)).parameters.items() if p.kind in (p.POSITIONAL_ONLY, p.POSITIONAL_OR_KEYWORD)]


def run_contract(contract, inputs, seconds=None):
    """inputs: {param: python value or description dict}.  None = holds / precondition not met; NativeFail otherwise."""
    frontend.ensure_repo_on_path()
    fn = resolve(contract.fq)
    names = param_names(contract)
    args = {n: build(copy.deepcopy(inputs[n])) for n in names}
    env = dict(contract.sidecar_globals)
    env.update(args)
    shown = {n: (inputs[n] if not hasattr(inputs[n], "getvalue") else "<file>") for n in names}
    # precondition
    try:
        for (txt, node) in contract.requires:
            if not _eval(copy.deepcopy(node), env):
                return None
    except (Unevaluable, api.PreFail):
        return None
    STATS["pre_ok"] += 1
    # old() values and raise conditions are functions of the pre-state: evaluate before the call
    rewritten = []
    for (txt, node) in list(contract.ensures) + list(getattr(contract, 'bounded_ensures', [])):
        rw = _OldRewriter()
        n2 = rw.visit(copy.deepcopy(node))
        olds = []
        for o in rw.olds:
            try:
                olds.append(_snapshot(_eval(o, env)))
            except Unevaluable:
                olds.append(Unevaluable)
        rewritten.append((txt, n2, olds))
    conds = {}
    for (name, cls, cond) in contract.raises:
        if cond is not None:
            try:
                conds[cls] = (name, cond[0], bool(_eval(copy.deepcopy(cond[1]), env)))
            except Unevaluable:
                conds[cls] = (name, cond[0], None)
        else:
            conds[cls] = (name, None, None)
    try:
        result = fn(*[args[n] for n in names])
    except BaseException as e:  # noqa
        for cls, (name, ctxt, cval) in conds.items():
            if isinstance(e, cls):
                if cval is False:
                    return NativeFail("%s raised %s although (%s) is false" % (contract.short, type(e).__name__, ctxt), shown, repr(e))
                return None
        if isinstance(e, (KeyboardInterrupt, SystemExit, MemoryError, RecursionError)):
            raise
        return NativeFail("%s raised %s which the contract does not permit" % (contract.short, type(e).__name__), shown, repr(e))
    if contract.raises_exact:
        for cls, (name, ctxt, cval) in conds.items():
            if cval is True and api.is_exact(contract, name):
                return NativeFail("%s returned normally although (%s) holds, which must raise %s" % (contract.short, ctxt, name), shown, "")
    env["result"] = result
    for (txt, node, olds) in rewritten:
        if any(o is Unevaluable for o in olds):
            continue
        env["__olds__"] = olds
        try:
            ok = _eval(node, env)
        except Unevaluable:
            continue
        if not ok:
            return NativeFail("%s violates ensures: %s" % (contract.short, txt), shown, "result=%r" % (result,))
    return None


def bounded_contract(contract, seed, seconds=10.0, budget=20000):
    """Seeded random inputs from the sidecar's generators (GENERATORS = {type string: fn(rng) -> value})."""
    driver = contract.sidecar_globals.get("MONITOR_DRIVER")
    if driver is not None:
        return monitor_contract(contract, driver, seed, seconds=seconds)
    gens = contract.sidecar_globals.get("GENERATORS", {})
    names = param_names(contract)
    types = [contract.args.get(n, "int") for n in names]
    for name, t in zip(names, types):
        if t not in ("int", "bool") and t not in gens and ("param:" + name) not in gens:
            return {"ran": False, "reason": "no native generator for parameter type %s" % t, "evaluations": 0, "fail": None}
    rng = random.Random(seed)
    t0 = time.time()
    n = 0
    pre0 = STATS["pre_ok"]
    while time.time() - t0 < seconds and n < budget:
        inputs = {}
        for name, t in zip(names, types):
            if ("param:" + name) in gens:
                inputs[name] = gens["param:" + name](rng)
            elif t == "int":
                inputs[name] = rng.choice([rng.randint(-3, 17), rng.randint(-300, 300), rng.randint(0, 2 ** 34)])
            elif t == "bool":
                inputs[name] = rng.random() < 0.5
            else:
                inputs[name] = gens[t](rng)
        n += 1
        try:
            f = run_contract(contract, inputs)
        except MemoryError:
            continue  # this child's address-space cap, not a verdict about the contract: the input is skipped
        if f is not None:
            return {"ran": True, "evaluations": STATS["pre_ok"] - pre0, "fail": f}
    ok = STATS["pre_ok"] - pre0
    if ok == 0:
        return {"ran": False, "reason": "none of %d generated inputs satisfied the precondition" % n, "evaluations": 0, "fail": None}
    return {"ran": True, "evaluations": ok, "fail": None,
            "domain": "seeded random inputs from the sidecar generators: %d generated, %d satisfied the precondition and were checked" % (n, ok)}


# ---------------------------------------------------------------------------------------------------------
# run-time monitoring: the contract wrapped around the real function while a driver exercises the real code


class _Found(Exception):
    def __init__(self, fail):
        Exception.__init__(self, "contract failed")
        self.fail = fail


def _check_call(contract, fn, names, a, kw):
    """One monitored call: returns (result, NativeFail or None); re-raises the function's own exceptions."""
    bound = dict(zip(names, a))
    bound.update(kw)
    if len(bound) != len(names):
        return fn(*a, **kw), None
    env = dict(contract.sidecar_globals)
    env.update(bound)
    shown = {n: _show(v) for n, v in bound.items()}
    try:
        for (txt, node) in contract.requires:
            if not _eval(copy.deepcopy(node), env):
                return fn(*a, **kw), None  # outside the contract's precondition: nothing to check here
    except (Unevaluable, api.PreFail):
        return fn(*a, **kw), None
    rewritten = []
    for (txt, node) in list(contract.ensures) + list(getattr(contract, 'bounded_ensures', [])):
        rw = _OldRewriter()
        n2 = rw.visit(copy.deepcopy(node))
        olds = []
        for o in rw.olds:
            try:
                olds.append(_snapshot(_eval(o, env)))
            except Unevaluable:
                olds.append(Unevaluable)
        rewritten.append((txt, n2, olds))
    conds = {}
    for (name, cls, cond) in contract.raises:
        if cls is None:
            continue
        if cond is not None:
            try:
                conds[cls] = (name, cond[0], bool(_eval(copy.deepcopy(cond[1]), env)))
            except Unevaluable:
                conds[cls] = (name, cond[0], None)
        else:
            conds[cls] = (name, None, None)
    try:
        result = fn(*a, **kw)
    except BaseException as e:  # noqa
        for cls, (name, ctxt, cval) in conds.items():
            if isinstance(e, cls):
                if cval is False:
                    return None, NativeFail("%s raised %s although (%s) is false" % (contract.short, type(e).__name__, ctxt), shown, repr(e))
                raise
        if isinstance(e, (KeyboardInterrupt, SystemExit, MemoryError, RecursionError, _Found)):
            raise
        return None, NativeFail("%s raised %s which the contract does not permit" % (contract.short, type(e).__name__), shown, repr(e))
    if contract.raises_exact:
        for cls, (name, ctxt, cval) in conds.items():
            if cval is True and api.is_exact(contract, name):
                return result, NativeFail("%s returned normally although (%s) holds, which must raise %s" % (contract.short, ctxt, name), shown, "")
    env["result"] = result
    for (txt, node, olds) in rewritten:
        if any(o is Unevaluable for o in olds):
            continue
        env["__olds__"] = olds
        try:
            ok = _eval(node, env)
        except Unevaluable:
            continue
        if not ok:
            return result, NativeFail("%s violates ensures: %s" % (contract.short, txt), shown, "result=%r" % (result,))
    return result, None


def _snapshot(v):
    """Value of an old(...) expression as it was before the call: containers of plain values are copied; objects with identity
    (files, writers, readers, matcher objects ...) are kept by reference, so that `x == old(x)` on them means 'the same object',
    as it does in the symbolic semantics."""
    if isinstance(v, (int, float, str, bytes, type(None))):
        return v
    if isinstance(v, bytearray):
        return bytearray(v)
    if isinstance(v, (list, tuple)) and not hasattr(v, "_fields"):
        return type(v)(_snapshot(x) for x in v)
    if isinstance(v, dict):
        try:
            c = v.__class__.__new__(v.__class__)
            for k, x in v.items():
                dict.__setitem__(c, k, _snapshot(x))
            return c
        except Exception:
            return {k: _snapshot(x) for k, x in v.items()}
    return v


def _show(v):
    if hasattr(v, "getvalue"):
        return "<file %d bytes at %d>" % (len(v.getvalue()), v.tell())
    if isinstance(v, dict):
        out = {}
        for k, x in list(v.items())[:80]:
            if k == "_file" and hasattr(x, "getvalue"):
                out[k] = {"__kind__": "file", "data": list(x.getvalue()), "pos": x.tell()}
            elif isinstance(x, (int, bool, str, type(None))):
                out[k] = x
            else:
                out[k] = "<%s>" % type(x).__name__
        return out
    if isinstance(v, (int, bool, str, type(None))):
        return v
    return "<%s>" % type(v).__name__


def monitor_contract(contract, driver, seed, seconds=15.0, budget=4000):
    """Wraps the real function with its contract (native semantics), runs driver(rng) repeatedly, returns the first failure."""
    import sys

    frontend.ensure_repo_on_path()
    fn = resolve(contract.fq)
    names = param_names(contract)
    calls = [0]

    def wrapper(*a, **kw):
        calls[0] += 1
        result, fail = _check_call(contract, fn, names, a, kw)
        if fail is not None:
            raise _Found(fail)
        return result

    wrapper.__wrapped__ = fn
    patched = []
    for mname, mod in list(sys.modules.items()):
        if mod is None or not mname.startswith("vc2_conformance"):
            continue
        for attr, val in list(vars(mod).items()):
            if val is fn:
                setattr(mod, attr, wrapper)
                patched.append((mod, attr))
    rng = random.Random(seed)
    t0 = time.time()
    runs = 0
    fail = None
    stream = None
    try:
        while time.time() - t0 < seconds and runs < budget:
            runs += 1
            try:
                stream = driver(rng)
            except _Found as f:
                fail = f.fail
                stream = getattr(driver, "last_input", None)
                break
    finally:
        for (mod, attr) in patched:
            setattr(mod, attr, fn)
    if fail is not None:
        if stream is not None:
            fail.inputs = dict(fail.inputs, __driver_input__=stream)
        return {"ran": True, "evaluations": calls[0], "fail": fail, "domain": "run-time monitoring of the contract while the driver runs the real code"}
    return {"ran": True, "evaluations": calls[0], "fail": None,
            "domain": "run-time monitoring: %d driver runs (seeded corpus streams and mutations), %d monitored calls" % (runs, calls[0])}
