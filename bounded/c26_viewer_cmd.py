"""C26 - bounded stand-in: the bitstream VIEWER command never reports an internal error.

The command (vc2_conformance.scripts.vc2_bitstream_viewer.main: argument parsing + BitstreamViewer.run with the viewer
object as the monitor of a MonitoredDeserialiser + all of its printing) is EXECUTED in-process on real files in a scratch
directory, stdout/stderr captured, and the value returned by main() is observed.  Nothing is proved.

Statuses (from the command's documentation and the property statement): 0 normal ("the bitstream was read successfully",
also when the display range ends - "--to-offset ... Default: the end of the file"), 3 end-of-file, 2 / 4 parse failure
(2: halted at an invalid parse_info prefix, 4: the parser could not go on), 255 internal error.  1 is the status for a
file that cannot be opened / an interrupt and can never be right here (the file exists).

clause -> oracle (written from the statement / the user documentation, not from the script) -> domain

 N  never the internal-error status, never an uncaught exception, never a refused documented option; always 0, 2, 3 or 4
      oracle: status in {0, 2, 3, 4}; status != 255 and no "internal error" message on stderr; main() returns (no exception,
      no SystemExit); with --ignore-parse-info-prefix never 2.
      domain: EVERY execution of the clauses below, plus degenerate files (empty, 1..16 bytes) under every option set, plus
      astronomically large numbers (2**20 .. 2**70) in each header field of a stream written bit by bit by this module.
 V  a valid stream is read successfully: status 0 - under the default options and under every sampled display option
      (display options only select what is printed; a range option can only end the run early, which is a normal end)
      oracle: streams produced by the project's encoder (make_sequence) for many codec configurations, by its decoder test-case
      generators, by the serialiser from hand-written conformant structures, one stream written bit by bit by this
      module from the standard's syntax, and 8 frozen streams (bytes produced once by the unchanged project, kept in this
      module so that they survive a change that breaks the serialiser too) are valid by construction.
 T  a strict prefix of a valid stream only lacks data: status 0 or 3, never a parse failure
      domain: every byte-length prefix of small valid streams (prefixes that end exactly at a sequence boundary: status 0).
 R  the status says what happened to the parse
      oracle: this module's own minimal monitor (it only looks at parse_info_prefix values, the standard's 10.5.1 name, and at
      the read position) drives the library's bitstream.parse_stream over the same bytes in the harness:
        returns normally                    => 0
        EOFError                            => 3
        stops at a prefix != 0x42424344     => a parse-failure status (2 or 4)
        any other exception                 => a parse-failure status (2 or 4)
      and, whenever the event happens after the read position has reached the last byte of the file, 0 is accepted as well
      (the documented default display range ends at the end of the file).  This also exposes a failure of the viewer's own
      code (printing, bookkeeping in the monitor) on inputs which the library parses, whatever status the viewer files it under.
      domain: every single-bit flip of small streams, every byte set to 0x00 / 0xFF, seeded random edits (flip / replace /
      insert / delete / truncate / duplicate or drop a data unit / splice), random garbage, 'BBCD' + garbage, a well-formed
      parse_info of every valid parse code followed by random payload, under the options that do not change the range.
 O  a sample of display options
      -q, -v, -vv, -i, -p, -S, --show / --hide of every pseudocode function name in the live table, -b N, --offset / -A / -B /
      -C, --from-offset / --to-offset (absolute, negative, relative '+N', beyond the end) with the status line forced to be
      drawn (update interval 0) in half of the runs; oracle: clauses N, V, T (and R where the options do not change the range).
 G  a few of the above through a real process (python -m ...vc2_bitstream_viewer): covers sys.exit(main()).

Bounds: quick tier about 10 000 executions of the command (23 s wall on a moderately busy 16-core machine, ~90 s at load 40),
thorough about 66 000 (~100 s) (measured, recorded per clause); streams of at most ~1 kB.  All randomness derives from `seed`.  At most 8 worker processes (fork); results aggregated in the parent in
generation order; at most 3 violations per clause.
Resource guard (a mutated header may announce a gigantic picture, on which the viewer would print for hours): an input on which
the reference parse needs more than REF_CALL_BUDGET Python function entries (counted, hence the same on a busy and an idle
machine), a MemoryError under a 4 GiB address-space limit, or the CPU-time backstop is left out and listed in the evidence
(coverage.c26_executions.skipped_resource_guard); it is never a verdict.  If the guard fires on an UNmutated valid stream the
check stops with a checker error.
Not covered: files that cannot be opened, invalid option combinations (argparse errors), a real terminal (status line on a tty,
terminal widths other than the default), streams beyond ~1 kB / pictures beyond a few hundred samples, running time and memory.
"""
import contextlib
import io
import os
import random
import resource
import shutil
import signal
import subprocess
import sys
import tempfile
import time

MAX_VIOLATIONS_PER_CLAUSE = 3
WORKERS = 8
REF_CALL_BUDGET = 150000  # Python function entries the reference parse may need for one input (largest corpus stream: < 60 000)
REF_TIME_LIMIT = 30.0  # backstop, CPU seconds, for work the call count cannot see
WORKER_MEMORY_LIMIT = 4 << 30

ST_OK, ST_PREFIX, ST_EOF, ST_PARSE, ST_INTERNAL = 0, 2, 3, 4, 255
ALLOWED = (ST_OK, ST_PREFIX, ST_EOF, ST_PARSE)
PARSE_INFO_PREFIX = 0x42424344  # ST 2042-1 10.5.1
VALID_PARSE_CODES = [0x00, 0x10, 0x20, 0x30, 0xC8, 0xE8, 0xCC, 0xEC]  # ST 2042-1:2017 Table 10.1

# Option sets that do not move the displayed range and keep the prefix check: clause R applies to them.
NEUTRAL_OPTS = [[], ["-q"], ["-v"], ["-vv"], ["-q", "-v"], ["-i"], ["-S"], ["--no-status", "--verbose", "--verbose"], ["-v", "-b", "0"],
                ["-v", "-b", "7"], ["-vv", "--num-trailing-bits", "100000"], ["--hide", "slice", "-i", "-v"], ["--show", "parse_info"],
                ["--show", "sequence_header", "--hide", "parse_parameters"], ["-H", "parse_info", "-q"], ["-s", "slice", "-s", "picture_header"]]
NOPREFIX_OPTS = [["-p"], ["--ignore-parse-info-prefix", "-v"], ["-p", "-q", "-i"], ["-p", "-S", "-vv"]]


def range_opts(nbits):
    """Valid range options for a file of `nbits` bits (documented forms: absolute, negative = from the end, '+N' = relative)."""
    mid = max(1, nbits // 2)
    return [
        ["-o", "0"], ["-o", str(mid)], ["-o", str(nbits)], ["-o", str(nbits + 1000)], ["-o", "-1"], ["-o", str(-mid)], ["-o", str(-nbits - 500)],
        ["--offset", str(mid), "-C", "0"], ["-o", str(mid), "-A", "5"], ["-o", str(mid), "-B", "3", "-q"], ["-o", str(mid), "-A", "1000", "-B", "1000"],
        ["-o", "104", "-C", "1", "-v"], ["-f", str(mid)], ["-f", str(mid), "-q", "-v"], ["-f", "-64"], ["-f", str(nbits + 8)], ["-f", "1"],
        ["-t", str(mid)], ["-t", "1"], ["-t", "0"], ["-t", "-8"], ["-t", str(-nbits)], ["-t", str(nbits * 2 + 3)], ["-f", "32", "-t", "+40"],
        ["-f", str(mid), "-t", "+0"], ["-f", str(mid), "-t", str(mid)], ["-f", str(mid), "-t", "8"], ["--from-offset", "40", "--to-offset", "-40", "-i"],
        ["-f", str(mid), "-S", "-i"], ["-f", "13", "--show", "parse_info"], ["-t", str(mid), "-p", "-vv"], ["-o", str(mid), "-H", "parse_info"],
    ]


_G = {}  # filled in the parent before the pool forks


# ======================================================================================================
# Corpus of valid streams (built in the parent)
# ======================================================================================================
def _dims(vp, pcm):
    lw, lh = int(vp["frame_width"]), int(vp["frame_height"])
    cw, ch = lw, lh
    cdf = int(vp["color_diff_format_index"])
    if cdf >= 1:
        cw //= 2
    if cdf == 2:
        ch //= 2
    if int(pcm) == 1:
        lh //= 2
        ch //= 2
    return [("Y", lw, lh, int(vp["luma_excursion"])), ("C1", cw, ch, int(vp["color_diff_excursion"])), ("C2", cw, ch, int(vp["color_diff_excursion"]))]


def _features(T, CodecFeatures, VideoParameters, w=8, h=4, cdf=0, pcm=0, ydepth=8, cdepth=8, profile=3, lossless=False,
              picture_bytes=24, frag=0, sx=2, sy=1, wavelet=4, wavelet_ho=None, depth=1, depth_ho=0):
    vp = VideoParameters(
        frame_width=w, frame_height=h, color_diff_format_index=T.ColorDifferenceSamplingFormats(cdf),
        source_sampling=T.SourceSamplingModes(1 if pcm else 0), top_field_first=True, frame_rate_numer=1, frame_rate_denom=1,
        pixel_aspect_ratio_numer=1, pixel_aspect_ratio_denom=1, clean_width=w, clean_height=h, left_offset=0, top_offset=0,
        luma_offset=0, luma_excursion=(1 << ydepth) - 1, color_diff_offset=1 << (cdepth - 1), color_diff_excursion=(1 << cdepth) - 1,
        color_primaries_index=T.PresetColorPrimaries(0), color_matrix_index=T.PresetColorMatrices(0),
        transfer_function_index=T.PresetTransferFunctions(0))
    return CodecFeatures(
        name="c26", level=T.Levels(0), profile=T.Profiles(profile), picture_coding_mode=T.PictureCodingModes(pcm), video_parameters=vp,
        wavelet_index=T.WaveletFilters(wavelet), wavelet_index_ho=T.WaveletFilters(wavelet if wavelet_ho is None else wavelet_ho),
        dwt_depth=depth, dwt_depth_ho=depth_ho, slices_x=sx, slices_y=sy, fragment_slice_count=frag, lossless=lossless,
        picture_bytes=None if lossless else picture_bytes, quantization_matrix=None)


def _noise_pictures(cf, rng, nums):
    out = []
    for n in nums:
        pic = {"pic_num": n}
        for comp, w, h, top in _dims(cf["video_parameters"], cf["picture_coding_mode"]):
            style = rng.randrange(4)
            pic[comp] = [[(top if style == 0 else 0 if style == 1 else rng.randrange(top + 1)) for _ in range(w)] for _ in range(h)]
        out.append(pic)
    return out


ENCODER_VARIANTS = [
    # name, codec configuration, picture numbers
    ("hq_lossy", dict(), [0, 1]),
    ("hq_lossless", dict(lossless=True), [5, 6]),
    ("ld_lossy", dict(profile=0), [0, 1]),
    ("ld_lossless_like", dict(profile=0, picture_bytes=96), [3]),
    ("hq_fragments", dict(frag=1), [0, 1]),
    ("ld_fragments", dict(frag=1, profile=0), [7, 8]),
    ("hq_fragments_lossless", dict(frag=2, lossless=True, sx=2, sy=2), [0]),
    ("fields_lossless", dict(pcm=1, lossless=True), [0, 1]),
    ("fields_lossy_420", dict(w=8, h=8, cdf=2, pcm=1), [10, 11]),
    ("c422_lossless", dict(cdf=1, lossless=True), [0]),
    ("c420_lossless", dict(cdf=2, lossless=True), [0]),
    ("d10_lossy", dict(ydepth=10, cdepth=10, picture_bytes=40), [0]),
    ("d1_lossless", dict(ydepth=1, cdepth=1, lossless=True), [0]),
    ("d16_8_lossless", dict(ydepth=16, cdepth=8, lossless=True), [0]),
    ("d33_lossless", dict(ydepth=33, cdepth=33, lossless=True), [0]),
    ("odd_7x3_lossless", dict(w=7, h=3, lossless=True), [0]),
    ("tiny_1x1_lossless", dict(w=1, h=1, sx=1, lossless=True, depth=0), [0, 1]),
    ("depth0_lossy", dict(depth=0, sx=1), [0]),
    ("legall_d2_ho1_lossless", dict(depth=2, depth_ho=1, wavelet=1, lossless=True, w=16, h=8), [0]),
    ("haar_d1_ho2", dict(depth=1, depth_ho=2, wavelet=4, w=16, h=4, picture_bytes=60), [0]),
    ("fidelity_d2", dict(depth=2, wavelet=5, w=16, h=8, picture_bytes=80), [0]),
    ("daub97_d1", dict(depth=1, wavelet=6, picture_bytes=40), [0]),
    ("slices_4x2", dict(w=16, h=8, sx=4, sy=2, picture_bytes=96), [0]),
    ("wrap_2p32_lossless", dict(lossless=True, w=4, h=2, sx=1), [(1 << 32) - 1, 0]),
    ("six_pictures_lossless", dict(w=2, h=2, sx=1, lossless=True), list(range(100, 106))),
    ("no_pictures", dict(), []),
]
ESSENTIAL = ("hq_lossy", "hq_lossless", "ld_lossy", "hq_fragments")


# Frozen valid streams: produced once by the UNCHANGED project's encoder / serialiser (configurations of the same name above, seed 1) and kept
# here as bytes, so that clause V still has valid inputs of these kinds when a change to the tree under check also breaks the serialiser
# (the parser and the serialiser share vc2_conformance/bitstream/vc2.py).
GOLDEN = {
    "ld_fragments": (
        "424243440000000015000000000f17063d92831f2842424344cc000000190000001500000007000000001919464042424344cc000000250000001900"
        "00000700000001000000003e186b5d93c339ff22dfcaf042424344cc00000025000000250000000700000001000100004202c7e657f2f3919f919000"
        "42424344cc000000190000002500000008000000001919464042424344cc0000002500000019000000080000000100000000004800070001d555bfff"
        "ffff42424344cc00000025000000250000000800000001000100000003fffffffc00000000000042424344100000000000000025"
    ),
    "hq_fragments": (
        "424243440000000016000000000c317063d92831f28042424344ec0000001800000016000000000000000019199042424344ec000000250000001800"
        "000000000000010000000022043fe7965002666602666642424344ec00000025000000250000000000000001000100002204e7f96650026666026666"
        "42424344ec0000001800000025000000010000000019199042424344ec000000250000001800000001000000010000000022043f9979f00277770266"
        "6642424344ec000000250000002500000001000000010001000022049cbf99f002777702666642424344100000000000000025"
    ),
    "ld_lossy": (
        "424243440000000015000000003c5c18f64a0c7ca042424344c80000002d000000150000000019651900446a533f32b1de529ff2e5cf4253e7fcca52"
        "ef29cb94fe7342424344c80000002d0000002d00000001196519003a19625bf795a17dfbde15a038003b5f8dd295adf0af2b40424243441000000000"
        "0000002d"
    ),
    "fields_lossy_420": (
        "4242434400000000160000000070d1c183b64a0c1f2242424344e80000002c000000160000000a1966401c06bc648df0ee7c010701021e067f327696"
        "6460014f014b42424344e80000002c0000002c0000000b1966401e066088b33395b8014b01b62005914b9e4522010b02c88042424344100000000000"
        "00002c"
    ),
    "haar_d1_ho2": (
        "424243440000000016000000000c317018f64a031f2842424344e8000000500000001600000000195b3220086b05ff94cfb4e59f09ce45fcbe6fb14d"
        "b98009e5e466d9daf2f3f3702108cf2ff29f26262f940876f97e7cbcce473c0a97fb9e5f7ee5f800000042424344100000000000000050"
    ),
    "ld_frag": (
        "424243440000000012000000000fc6c2379042424344cc000000180000001200000000000000001c649042424344cc0000001a000000180000000000"
        "000001000000000142424344cc0000001a0000001a000000000000000100010000014242434410000000000000001a"
    ),
    "c420_lossless": (
        "4242434400000000150000000070dc18cc99831e8642424344e80000004a000000150000000019664000085556555655565556084448101c045c1407"
        "06304070505c18000855565556555655560811201120554d156008000c544c454d01604242434410000000000000004a"
    ),
    "d10_lossy": (
        "424243440000000016000000000c317063d92831f4a042424344e80000003c0000001600000000191990240430e5dbc204020202020822e4f930e9dc"
        "c00025059cca97b31e035965960886eef9199ceee0004242434410000000000000003c"
    ),
}


def build_corpus(tier, seed):
    """Returns (valid, deferred): valid = list of dicts {name, origin, data}; deferred = producers that failed on this tree."""
    import vc2_data_tables as T
    from vc2_conformance import bitstream as bs
    from vc2_conformance.codec_features import CodecFeatures
    from vc2_conformance.pseudocode.video_parameters import VideoParameters
    from vc2_conformance.encoder import make_sequence
    from vc2_conformance import test_cases

    rng = random.Random(seed * 7919 + 26)
    good, deferred = [], []

    def ser_stream(stream):
        f = io.BytesIO()
        bs.autofill_and_serialise_stream(f, stream)
        return f.getvalue()

    enc = {}
    for name, kw, nums in ENCODER_VARIANTS:
        try:
            cf = _features(T, CodecFeatures, VideoParameters, **kw)
            data = ser_stream(bs.Stream(sequences=[make_sequence(cf, _noise_pictures(cf, rng, nums))]))
        except Exception as e:
            if name in ESSENTIAL:
                raise
            deferred.append(("encoder variant " + name, e))
            continue
        enc[name] = data
        good.append(dict(name="enc:" + name, origin="encoder", data=data))
    try:
        cf = _features(T, CodecFeatures, VideoParameters, lossless=True)
        data = ser_stream(bs.Stream(sequences=[make_sequence(cf, _noise_pictures(cf, rng, [3, 4]), "(sequence_header padding_data auxiliary_data .)+ end_of_sequence")]))
        good.append(dict(name="enc:interleaved_padding_aux", origin="encoder", data=data))
    except Exception as e:
        deferred.append(("encoder with forced padding/auxiliary data", e))
    for name, parts in [("lossless+d10", ["hq_lossless", "d10_lossy"]), ("1x1+fields+ld", ["tiny_1x1_lossless", "fields_lossless", "ld_lossy"]),
                        ("lossy+none+frag", ["hq_lossy", "no_pictures", "hq_fragments"])]:
        if all(p in enc for p in parts):
            good.append(dict(name="cat:" + name, origin="encoder (concatenated sequences)", data=b"".join(enc[p] for p in parts)))

    gen_features = [("hq", dict())]
    if tier != "quick":
        gen_features += [("ld", dict(profile=0)), ("frag", dict(frag=1)), ("fields422", dict(pcm=1, cdf=1, w=8, h=8)),
                         ("lossless10", dict(lossless=True, ydepth=10, cdepth=10))]
    for fname, kw in gen_features:
        cf = _features(T, CodecFeatures, VideoParameters, **kw)
        for fn in test_cases.DECODER_TEST_CASE_GENERATOR_REGISTRY.iter_registered_functions():
            if fn.__name__ == "real_pictures":  # needs ~90 s
                continue
            try:
                for tc in test_cases.normalise_test_case_generator(fn, cf):
                    good.append(dict(name="gen:%s:%s" % (fname, tc.name), origin="test-case generator", data=ser_stream(tc.value)))
            except Exception as e:
                deferred.append(("test-case generator %s (%s)" % (fn.__name__, fname), e))

    PC = T.ParseCodes

    def hdr(size=(4, 2), pcm=0, profile=bs.AUTO):
        w, h = size
        vp = bs.SourceParameters(frame_size=bs.FrameSize(custom_dimensions_flag=True, frame_width=w, frame_height=h),
                                 clean_area=bs.CleanArea(custom_clean_area_flag=True, clean_width=w, clean_height=h))
        pp = bs.ParseParameters()
        if profile is not bs.AUTO:
            pp["profile"] = profile
        return bs.DataUnit(parse_info=bs.ParseInfo(parse_code=PC.sequence_header),
                           sequence_header=bs.SequenceHeader(parse_parameters=pp, video_parameters=vp, picture_coding_mode=pcm))

    def hq_pic(n):
        return bs.DataUnit(parse_info=bs.ParseInfo(parse_code=PC.high_quality_picture),
                           picture_parse=bs.PictureParse(picture_header=bs.PictureHeader(picture_number=n)))

    def ld_pic(n):
        return bs.DataUnit(parse_info=bs.ParseInfo(parse_code=PC.low_delay_picture),
                           picture_parse=bs.PictureParse(picture_header=bs.PictureHeader(picture_number=n)))

    def frags(n, send, total=2, code=PC.high_quality_picture_fragment):
        out = [bs.DataUnit(parse_info=bs.ParseInfo(parse_code=code), fragment_parse=bs.FragmentParse(
            fragment_header=bs.FragmentHeader(picture_number=n, fragment_slice_count=0),
            transform_parameters=bs.TransformParameters(slice_parameters=bs.SliceParameters(slices_x=total, slices_y=1))))]
        for x in send:
            out.append(bs.DataUnit(parse_info=bs.ParseInfo(parse_code=code), fragment_parse=bs.FragmentParse(
                fragment_header=bs.FragmentHeader(picture_number=n, fragment_slice_count=1, fragment_x_offset=x, fragment_y_offset=0))))
        return out

    def pad(k=3):
        return bs.DataUnit(parse_info=bs.ParseInfo(parse_code=PC.padding_data), padding=bs.Padding(bytes=b"\x00" * k))

    def aux(k=2):
        return bs.DataUnit(parse_info=bs.ParseInfo(parse_code=PC.auxiliary_data), auxiliary_data=bs.AuxiliaryData(bytes=b"\xAB" * k))

    def eos():
        return bs.DataUnit(parse_info=bs.ParseInfo(parse_code=PC.end_of_sequence))

    def H(name, *seqs):
        try:
            data = ser_stream(bs.Stream(sequences=[bs.Sequence(data_units=list(u)) for u in seqs]))
        except Exception as e:
            if name in ("hq", "frag_ok", "ld", "hq_pad_aux", "two_sequences_two_sizes"):
                raise
            deferred.append(("hand-written structure " + name, e))
            return
        good.append(dict(name="hand:" + name, origin="bitstream serialiser", data=data))

    H("hq", [hdr(), hq_pic(0), eos()])
    H("hq_pad_aux", [hdr(), hq_pic(5), pad(), hq_pic(6), aux(), eos()])
    H("pad_zero_len_aux_zero_len", [hdr(), pad(0), aux(0), hq_pic(0), eos()])
    H("header_only", [hdr(), eos()])
    H("header_repeated", [hdr(), hq_pic(0), hdr(), hq_pic(1), eos()])
    H("fields", [hdr(pcm=1, size=(4, 4)), hq_pic(0), hq_pic(1), eos()])
    H("wrap", [hdr(), hq_pic(2 ** 32 - 1), hq_pic(0), eos()])
    H("frag_ok", [hdr(), *frags(0, [0, 1]), eos()])
    H("frag_aux_between", [hdr(), *frags(0, [0]), aux(), *frags(0, [1])[1:], eos()])
    H("two_sequences_two_sizes", [hdr(), hq_pic(0), eos()], [hdr(size=(8, 2)), hq_pic(7), eos()])
    H("ld", [hdr(profile=T.Profiles.low_delay), ld_pic(0), eos()])
    H("ld_frag", [hdr(profile=T.Profiles.low_delay), *frags(0, [0, 1], code=PC.low_delay_picture_fragment), eos()])
    H("three_sequences", [hdr(), eos()], [hdr(), hq_pic(9), hq_pic(10), eos()], [hdr(size=(2, 2)), hq_pic(0), eos()])
    good.append(dict(name="bits:handmade_hq", origin="this module's bit writer (from the standard's syntax)", data=handmade_stream()))
    for name, h in sorted(GOLDEN.items()):
        good.append(dict(name="frozen:" + name, origin="frozen bytes (encoder/serialiser of the unchanged project)", data=bytes.fromhex(h)))
    return good, deferred


class BitWriter(object):
    """MSB-first bit writer with the standard's variable-length unsigned code (ST 2042-1 A.4: interleaved exp-Golomb)."""

    def __init__(self):
        self.bits = []

    def bit(self, b):
        self.bits.append(1 if b else 0)

    def uint(self, v):
        for c in bin(v + 1)[3:]:
            self.bits += [0, int(c)]
        self.bits.append(1)

    def nbits(self, n, v):
        self.bits += [(v >> (n - 1 - i)) & 1 for i in range(n)]

    def align(self):
        self.bits += [0] * (-len(self.bits) % 8)

    def bytes(self):
        self.align()
        return bytes(int("".join(map(str, self.bits[i:i + 8])), 2) for i in range(0, len(self.bits), 8))


HUGE_FIELDS = ["major_version", "profile", "level", "base_video_format", "frame_width", "frame_height", "color_diff_format", "source_sampling",
               "frame_rate_index", "frame_rate_numer", "frame_rate_denom", "clean_width", "left_offset", "signal_range_index", "luma_offset",
               "luma_excursion", "color_diff_excursion", "picture_coding_mode", "wavelet_index", "dwt_depth", "slices_x", "slices_y",
               "slice_prefix_bytes", "slice_size_scaler"]


def handmade_stream(**over):
    """A one-picture high-quality stream written bit by bit from the syntax of ST 2042-1 (11.1-11.4, 12.2-12.4, 13.5.4) with this module's
    own writer (no project code): 4x2 luma, custom format, Haar, 1x1 slices of all-zero coefficients.  `over` replaces header fields
    (used to put astronomically large numbers into them)."""
    f = dict(major_version=2, profile=3, level=0, base_video_format=0, frame_width=4, frame_height=2, color_diff_format=0, source_sampling=0,
             frame_rate_index=0, frame_rate_numer=25, frame_rate_denom=1, clean_width=4, left_offset=0, signal_range_index=0, luma_offset=0,
             luma_excursion=255, color_diff_excursion=255, picture_coding_mode=0, wavelet_index=4, dwt_depth=1,
             slices_x=1, slices_y=1, slice_prefix_bytes=0, slice_size_scaler=1)
    f.update(over)
    sh = BitWriter()
    for v in (f["major_version"], 0, f["profile"], f["level"]):  # major_version, minor_version, profile (high quality), level
        sh.uint(v)
    sh.uint(f["base_video_format"])  # 0: custom
    sh.bit(1), sh.uint(f["frame_width"]), sh.uint(f["frame_height"])  # frame_size
    sh.bit(1), sh.uint(f["color_diff_format"])  # color_diff_sampling_format: 4:4:4
    sh.bit(1), sh.uint(f["source_sampling"])  # scan_format
    sh.bit(1), sh.uint(f["frame_rate_index"])  # frame_rate: index 0 = custom numer/denom follow
    if f["frame_rate_index"] == 0:
        sh.uint(f["frame_rate_numer"]), sh.uint(f["frame_rate_denom"])
    sh.bit(0)  # pixel_aspect_ratio: default
    sh.bit(1), sh.uint(f["clean_width"]), sh.uint(2), sh.uint(f["left_offset"]), sh.uint(0)  # clean_area
    sh.bit(1), sh.uint(f["signal_range_index"])  # signal_range: index 0 = custom values follow
    if f["signal_range_index"] == 0:
        sh.uint(f["luma_offset"]), sh.uint(f["luma_excursion"]), sh.uint((f["color_diff_excursion"] + 1) // 2), sh.uint(f["color_diff_excursion"])
    sh.bit(0)  # color_spec: default
    sh.uint(f["picture_coding_mode"])
    pic = BitWriter()
    pic.nbits(32, 7)  # picture_number
    pic.uint(f["wavelet_index"]), pic.uint(f["dwt_depth"])
    pic.uint(f["slices_x"]), pic.uint(f["slices_y"]), pic.uint(f["slice_prefix_bytes"]), pic.uint(f["slice_size_scaler"])
    pic.bit(0)  # custom_quant_matrix
    pic.align()
    body_pic = pic.bytes() + b"\x00" * 4  # one slice: qindex 0, three zero lengths
    out = b""
    prev = 0
    for code, body in [(0x00, sh.bytes()), (0xE8, body_pic), (0x10, b"")]:
        nxt = 0 if code == 0x10 else 13 + len(body)
        out += b"BBCD" + bytes([code]) + nxt.to_bytes(4, "big") + prev.to_bytes(4, "big") + body
        prev = 13 + len(body)
    return out


def parse_info_offsets(data):
    """Byte offsets of the parse-info headers, following next_parse_offset (stops where that is not possible)."""
    out = []
    o = 0
    while o + 13 <= len(data) and data[o:o + 4] == b"BBCD":
        out.append(o)
        code = data[o + 4]
        npo = int.from_bytes(data[o + 5:o + 9], "big")
        if code == 0x10:
            o += 13
        elif npo >= 13:
            o += npo
        else:
            break
    return out


def sequence_boundaries(data):
    return {o + 13 for o in parse_info_offsets(data) if data[o + 4] == 0x10} | {0}


# ======================================================================================================
# Resource guard
# ======================================================================================================
class _Skip(BaseException):
    """Resource guard fired: the input is outside the bounded domain; never a verdict."""


def _on_alarm(_signum, _frame):
    raise _Skip("time limit")


@contextlib.contextmanager
def time_limit(seconds):
    # CPU time of this process (ITIMER_PROF), periodic after the first expiry so that a swallowed exception is raised again
    old = signal.signal(signal.SIGPROF, _on_alarm)
    signal.setitimer(signal.ITIMER_PROF, seconds, 1.0)
    try:
        yield
    finally:
        signal.setitimer(signal.ITIMER_PROF, 0)
        signal.signal(signal.SIGPROF, old)


class CallBudget(object):
    """Deterministic work bound for a block: counts Python function entries (sys.monitoring PY_START; sys.settrace on interpreters
    without it) and raises _Skip beyond `limit` (again every `limit` entries, should something swallow it)."""

    def __init__(self, limit):
        self.limit = limit
        self.n = 0
        self.tool = None

    def _hit(self):
        self.n += 1
        if self.n > self.limit and (self.n - 1) % self.limit == 0:
            raise _Skip("work budget of %d Python calls" % self.limit)

    def _on_start(self, _code, _offset):
        self._hit()

    def _on_call(self, _frame, _event, _arg):
        self._hit()
        return None

    def __enter__(self):
        mon = getattr(sys, "monitoring", None)
        if mon is None:
            sys.settrace(self._on_call)
            return self
        for tool in (4, 3, mon.PROFILER_ID):
            try:
                mon.use_tool_id(tool, "c26-call-budget")
            except ValueError:
                continue
            self.tool = tool
            break
        else:
            raise RuntimeError("no free sys.monitoring tool id")
        mon.register_callback(self.tool, mon.events.PY_START, self._on_start)
        mon.set_events(self.tool, mon.events.PY_START)
        return self

    def __exit__(self, *_exc):
        mon = getattr(sys, "monitoring", None)
        if mon is None:
            sys.settrace(None)
        elif self.tool is not None:
            mon.set_events(self.tool, 0)
            mon.register_callback(self.tool, mon.events.PY_START, None)
            mon.free_tool_id(self.tool)
        return False


def _worker_init():
    _soft, hard = resource.getrlimit(resource.RLIMIT_AS)
    lim = WORKER_MEMORY_LIMIT if hard == resource.RLIM_INFINITY else min(WORKER_MEMORY_LIMIT, hard)
    resource.setrlimit(resource.RLIMIT_AS, (lim, hard))


# ======================================================================================================
# Reference: what happens to a parse of these bytes (this module's own minimal monitor around the library's parser)
# ======================================================================================================
class _BadPrefix(Exception):
    pass


def reference_parse(data, check_prefix):
    """-> (event, detail, near_end): event in {'ok', 'eof', 'bad-prefix', 'exception'}; near_end: the read position had reached the last
    byte of the file when the last value before the event was delivered."""
    bs = _G["bs"]
    reader = bs.BitstreamReader(io.BytesIO(data))
    nbits = 8 * len(data)
    pos = [0]

    def monitor(_serdes, target, value):
        byte, bit = reader.tell()
        pos[0] = byte * 8 + (7 - bit)
        if check_prefix and target == "parse_info_prefix" and value != PARSE_INFO_PREFIX:
            raise _BadPrefix()

    serdes = bs.MonitoredDeserialiser(monitor, io=reader)
    try:
        bs.parse_stream(serdes, _G["State"]())
        event, detail = "ok", None
    except _BadPrefix:
        event, detail = "bad-prefix", None
    except EOFError:
        event, detail = "eof", None
    except MemoryError:
        raise _Skip("memory limit")
    except Exception as e:  # an out-of-range value made the parser give up: the 'parse failure' case of the statement
        event, detail = "exception", type(e).__name__
    return event, detail, pos[0] >= nbits - 8


def invoke_viewer(argv, force_status):
    script = _G["script"]
    old = (sys.stdout, sys.stderr, sys.argv)
    out, err = io.StringIO(), io.StringIO()
    sys.stdout, sys.stderr, sys.argv = out, err, ["vc2-bitstream-viewer"] + list(argv)
    had = hasattr(script, "STATUS_LINE_UPDATE_INTERVAL")
    old_interval = getattr(script, "STATUS_LINE_UPDATE_INTERVAL", None)
    if force_status and had:
        script.STATUS_LINE_UPDATE_INTERVAL = 0.0  # documented module constant: draw the status line at every hidden value
    try:
        try:
            rv = script.main(list(argv))
            status, how = rv, "return"
        except SystemExit as e:
            status, how = e.code, "SystemExit"
        except _Skip:
            raise
        except Exception as e:
            status, how = "uncaught %s: %s" % (type(e).__name__, str(e)[:200]), "exception"
    finally:
        sys.stdout, sys.stderr, sys.argv = old
        if force_status and had:
            script.STATUS_LINE_UPDATE_INTERVAL = old_interval
    return status, how, out.getvalue(), err.getvalue()


def classify(opts):
    """-> (neutral, check_prefix): neutral = the options move neither the range nor switch the prefix check off."""
    rangey = any(o in ("-o", "--offset", "-f", "--from-offset", "-t", "--to-offset") for o in opts)
    noprefix = any(o in ("-p", "--ignore-parse-info-prefix") for o in opts)
    return (not rangey), (not noprefix)


def run_job(job):
    """job: dict(id, group, data, kind in {'valid','prefix','any'}, runs=[(opts, force_status)]).  One reference parse per prefix-check mode,
    one execution of the command per run.  Returns a JSON-able result."""
    data = job["data"]
    res = {"id": job["id"], "problems": [], "runs": [], "ref": {}, "skipped": None}
    path = os.path.join(_G["scratch"], "w%d-%s.vc2" % (os.getpid(), "odd name 'q'" if job.get("odd_name") else "stream"))
    with open(path, "wb") as f:
        f.write(data)
    try:
        refs = {}
        ref_seconds = 0.0
        for cp in sorted({classify(o)[1] for o, _ in job["runs"]}):
            t0 = time.process_time()
            try:
                with time_limit(REF_TIME_LIMIT), CallBudget(REF_CALL_BUDGET) as cb:
                    refs[cp] = reference_parse(data, cp)
            except _Skip as e:
                res["skipped"] = "reference parse hit the %s on this input" % e
                return res
            ref_seconds = max(ref_seconds, time.process_time() - t0)
            res["ref"]["prefix-check" if cp else "no-prefix-check"] = [refs[cp][0], refs[cp][1], refs[cp][2], cb.n]

        for opts, force_status in job["runs"]:
            argv = [path] + list(opts)
            try:
                with time_limit(30.0 + 40 * ref_seconds):
                    status, how, stdout, stderr = invoke_viewer(argv, force_status)
            except _Skip as e:
                res["skipped"] = "the command hit the %s with options %r (reference parse alone: %.2fs); undecided, not a verdict" % (e, opts, ref_seconds)
                return res
            neutral, cp = classify(opts)
            event, detail, near_end = refs[cp]
            res["runs"].append([status if isinstance(status, int) else str(status), event])

            def problem(clause, what, expected, observed):
                res["problems"].append({"clause": clause, "what": what, "expected": expected, "observed": observed,
                                        "inputs": {"case": job["id"], "stream_hex": data.hex(), "argv": ["<FILE>"] + list(opts),
                                                   "status_line_forced": bool(force_status)},
                                        "reference_parse": {"event": event, "exception": detail, "read_position_in_last_byte": near_end},
                                        "stdout_tail": stdout[-300:], "stderr_tail": stderr[-400:]})

            # ---- N
            internal_msg = "internal error" in stderr.lower()
            if how == "exception":
                problem("N", "the command died with an uncaught exception", "a status out of 0, 2, 3, 4", status)
            elif how == "SystemExit":
                problem("N", "the command refused documented options / left through SystemExit", "a status out of 0, 2, 3, 4", "SystemExit(%r)" % (status,))
            elif status == ST_INTERNAL or internal_msg:
                problem("N", "the command reported an internal error", "a status out of 0, 2, 3, 4 and no internal-error message", status)
            elif status not in ALLOWED or isinstance(status, bool):
                problem("N", "the command returned a status that is neither normal, end-of-file nor parse-failure", "0, 2, 3 or 4", repr(status))
            elif not cp and status == ST_PREFIX:
                problem("N", "with --ignore-parse-info-prefix the command still halted at a parse_info prefix", "0, 3 or 4", status)
            if how != "return" or status not in ALLOWED:
                continue
            # ---- V / T
            if job["kind"] == "valid" and status != ST_OK:
                problem("V", "a valid stream (%s) was not read successfully" % job.get("origin", ""), 0, status)
            elif job["kind"] == "prefix" and status not in (ST_OK, ST_EOF):
                problem("T", "a strict prefix of a valid stream lacks data only: normal or end-of-file status expected", "0 or 3", status)
            # ---- R
            if neutral:
                if event == "ok":
                    want = {ST_OK}
                elif event == "eof":
                    want = {ST_EOF}
                else:
                    want = {ST_PREFIX, ST_PARSE} if cp else {ST_PARSE}
                if event != "ok" and near_end:
                    want = want | {ST_OK}
                if status not in want:
                    problem("R", "the status does not say what happened to the parse of these bytes (reference: %s%s)" % (event, " " + detail if detail else ""),
                            sorted(want), status)
    finally:
        try:
            os.unlink(path)
        except OSError:
            pass
    return res


def _run_chunk(chunk):
    out = []
    for j in chunk:
        t0 = time.time()
        r = run_job(j)
        r["seconds"] = round(time.time() - t0, 2)
        out.append(r)
    return out


# ======================================================================================================
# Case generation
# ======================================================================================================
def mutate_random(rng, data, others):
    data = bytearray(data)
    for _ in range(rng.choice([1, 1, 1, 2, 3])):
        r = rng.random()
        if not data:
            data += bytes([rng.randrange(256)])
        elif r < 0.30:
            data[rng.randrange(len(data))] ^= 1 << rng.randrange(8)
        elif r < 0.45:
            data[rng.randrange(len(data))] = rng.choice([0x00, 0xFF, 0x10, 0x42, rng.randrange(256)])
        elif r < 0.55:
            i = rng.randrange(len(data) + 1)
            data[i:i] = bytes(rng.randrange(256) for _ in range(rng.choice([1, 1, 2, 13])))
        elif r < 0.65:
            i = rng.randrange(len(data))
            del data[i:i + rng.choice([1, 1, 2, 13])]
        elif r < 0.75:
            del data[rng.randrange(len(data)):]
        elif r < 0.85:
            offs = parse_info_offsets(bytes(data))
            if len(offs) >= 3:  # duplicate or drop a whole data unit (offsets become stale: that is the point)
                j = rng.randrange(len(offs) - 1)
                unit = data[offs[j]:offs[j + 1]]
                if rng.random() < 0.5:
                    data[offs[j]:offs[j]] = unit
                else:
                    del data[offs[j]:offs[j + 1]]
        else:
            other = rng.choice(others)
            data += other if rng.random() < 0.5 else other[rng.randrange(len(other)):]
    return bytes(data)


def build_jobs(tier, seed, good, function_names):
    rng = random.Random(seed * 104729 + 2626)
    quick = tier == "quick"
    jobs = []
    by_name = {g["name"]: g for g in good}
    show_hide = [[flag, n] for n in function_names for flag in ("--show", "--hide")]
    all_fixed = NEUTRAL_OPTS + NOPREFIX_OPTS
    counter = [0]

    def forced(opts, i):
        """Draw the status line at every hidden value in every other run that can hide values and has the status line on."""
        hides = any(o in opts for o in ("--show", "-s", "--hide", "-H", "-S", "-o", "--offset", "-f", "--from-offset", "--hide-slice"))
        quiet = any(o in opts for o in ("-q", "--quiet", "--no-status"))
        return hides and not quiet and i % 2 == 0

    def add(group, data, kind, name, optsets, **kw):
        i = counter[0]
        counter[0] += 1
        j = dict(id="%s/%s" % (group, name), group=group, data=data, kind=kind,
                 runs=[(list(o), forced(o, i + k)) for k, o in enumerate(optsets)], odd_name=(i % 7 == 3))
        j.update(kw)
        jobs.append(j)

    def rotating(k, n_extra):
        """Default options first, then n_extra option sets picked round-robin from the fixed + show/hide lists."""
        pool = all_fixed[1:] + show_hide
        return [[]] + [pool[(k * n_extra + x) % len(pool)] for x in range(n_extra)]

    # ---- V (+O): valid corpus.  Default options always; generator streams get 2 more option sets, the others a full sweep.
    for gi, g in enumerate(good):
        rich = g["origin"] != "test-case generator"
        nbits = 8 * len(g["data"])
        if rich and (not quick or gi % 6 == 0 or g["name"] in ("hand:hq", "hand:frag_ok", "hand:ld", "enc:hq_lossy", "enc:ld_fragments")):
            optsets = all_fixed + show_hide + range_opts(nbits)
        elif rich:
            ro = range_opts(nbits)
            optsets = rotating(gi, 4) + [ro[(gi * 3 + x) % len(ro)] for x in range(3)]
        else:
            ro = range_opts(nbits)
            optsets = rotating(gi, 2) + [ro[gi % len(ro)]]
        add("valid", g["data"], "valid", g["name"], optsets, origin=g["origin"])

    # ---- degenerate files, every fixed option set + a few ranges
    degenerate = [("empty", b"")] + [("zeros%d" % n, b"\x00" * n) for n in (1, 4, 13, 16)] + [
        ("BBCD", b"BBCD"), ("B", b"B"), ("prefix+eos_code", b"BBCD\x10"), ("ff16", b"\xff" * 16), ("NOPE", b"NOPE"),
        ("eos_alone", b"BBCD\x10" + b"\x00" * 8), ("header_code_then_eof", b"BBCD\x00" + b"\x00" * 8),
        ("picture_without_header", b"BBCD\xE8" + b"\x00" * 8 + b"\x00" * 12), ("fragment_without_header", b"BBCD\xEC" + b"\x00" * 8 + b"\x00" * 12),
        ("padding_unit_next0", b"BBCD\x30" + b"\x00" * 8 + b"\x55" * 5), ("aux_unit_next_huge", b"BBCD\x20\xff\xff\xff\xff" + b"\x00" * 4 + b"\x55" * 5)]
    for name, d in degenerate:
        add("degenerate", d, "valid" if name == "empty" else "any", name, all_fixed + range_opts(8 * len(d))[::3])

    # ---- T: every prefix of small valid streams
    trunc_names = ["hand:hq", "hand:frag_ok", "hand:two_sequences_two_sizes", "hand:ld", "hand:hq_pad_aux", "enc:ld_lossy"]
    if not quick:
        trunc_names += ["enc:hq_lossy", "enc:hq_fragments", "enc:fields_lossless", "cat:lossy+none+frag", "enc:interleaved_padding_aux",
                        "hand:three_sequences", "enc:d10_lossy", "enc:ld_fragments", "hand:ld_frag", "enc:slices_4x2", "bits:handmade_hq"]
    k = 0
    for n in [n for n in trunc_names if n in by_name]:
        d = by_name[n]["data"]
        bounds = sequence_boundaries(d)
        for L in range(1, len(d)):
            k += 1
            ro = range_opts(8 * L)
            extra = [all_fixed[k % len(all_fixed)]] + ([ro[k % len(ro)]] if (not quick or k % 3 == 0) else [])
            add("truncation", d[:L], "valid" if L in bounds else "prefix", "%s[:%d]" % (n, L), [[]] + extra)

    # ---- R: every single-bit flip; every byte set to 00 / FF
    flip_names = ["hand:hq", "hand:frag_ok"] if quick else ["hand:hq", "hand:frag_ok", "hand:ld", "hand:fields", "enc:hq_lossy", "enc:ld_lossy",
                                                              "hand:two_sequences_two_sizes", "enc:tiny_1x1_lossless", "hand:ld_frag",
                                                              "bits:handmade_hq", "enc:depth0_lossy"]
    k = 0
    for n in [n for n in flip_names if n in by_name]:
        d = by_name[n]["data"]
        for bit in range(8 * len(d)):
            k += 1
            m = bytearray(d)
            m[bit // 8] ^= 0x80 >> (bit % 8)
            add("bit-flip", bytes(m), "any", "%s^bit%d" % (n, bit), [[]] + ([NOPREFIX_OPTS[k % len(NOPREFIX_OPTS)]] if (not quick or k % 2) else []) + ([NEUTRAL_OPTS[k % len(NEUTRAL_OPTS)]] if k % 4 == 0 else []))
    set_names = ["hand:ld", "hand:hq_pad_aux"] if quick else ["hand:ld", "hand:hq_pad_aux", "hand:hq", "hand:frag_ok", "enc:ld_fragments", "enc:fields_lossy_420",
                                                               "enc:c420_lossless", "hand:header_repeated"]
    for n in [n for n in set_names if n in by_name]:
        d = by_name[n]["data"]
        for i in range(len(d)):
            for v in (0x00, 0xFF):
                if d[i] == v:
                    continue
                k += 1
                m = bytearray(d)
                m[i] = v
                add("byte-set", bytes(m), "any", "%s[%d]=%02X" % (n, i, v), [[], ["-p"] if k % 2 else NEUTRAL_OPTS[k % len(NEUTRAL_OPTS)]])

    # ---- R: seeded random mutations over the whole corpus; random garbage; structured garbage
    small = [g for g in good if len(g["data"]) <= 700]
    others = [g["data"] for g in small]
    pool = all_fixed + show_hide
    for k in range(900 if quick else 8000):
        g = rng.choice(small)
        d = mutate_random(rng, g["data"], others)
        ro = range_opts(8 * len(d))
        add("random", d, "any", "%s~%d" % (g["name"], k), [[], pool[k % len(pool)]] + ([ro[k % len(ro)]] if k % 2 == 0 else []))
    for k in range(100 if quick else 1000):
        add("garbage", bytes(rng.randrange(256) for _ in range(rng.randrange(1, 64))), "any", "garbage~%d" % k, [[], NOPREFIX_OPTS[k % len(NOPREFIX_OPTS)]])
        add("garbage", b"BBCD" + bytes(rng.randrange(256) for _ in range(rng.randrange(0, 40))), "any", "BBCD+garbage~%d" % k, [[], ["-p", "-v"]])
    # a well-formed parse_info of every valid parse code (after a real sequence header, or alone), then random payload
    sh_unit = None
    d = by_name["hand:hq"]["data"]
    offs = parse_info_offsets(d)
    if len(offs) >= 2:
        sh_unit = d[:offs[1]]
    for k in range(240 if quick else 2400):
        code = VALID_PARSE_CODES[k % len(VALID_PARSE_CODES)]
        payload = bytes(rng.choice([0x00, 0xFF, rng.randrange(256), rng.randrange(256)]) for _ in range(rng.randrange(0, 48)))
        style = rng.randrange(3)
        nxt = 0 if style == 0 else 13 + len(payload) if style == 1 else rng.randrange(0, 80)
        unit = b"BBCD" + bytes([code]) + nxt.to_bytes(4, "big") + (len(sh_unit) if sh_unit and k % 2 else 0).to_bytes(4, "big") + payload
        tail = b"" if rng.random() < 0.5 else b"BBCD\x10" + b"\x00" * 8
        add("structured-garbage", (sh_unit if sh_unit and k % 2 else b"") + unit + tail, "any", "code%02X~%d" % (code, k), [[], pool[k % len(pool)]])

    # ---- N: astronomically large numbers in header fields (streams written by this module's own bit writer)
    for fld in HUGE_FIELDS:
        if fld in ("frame_width", "frame_height", "slices_x", "slices_y"):
            mags = [70] if quick else [20, 63, 70]  # each of these uses up the whole work budget of the reference parse
        elif fld == "dwt_depth":
            mags = [20, 63, 70]  # (2**32 makes CPython shift a 512 MiB integer for ~20 s without servicing signals: left out)
        else:
            mags = [32, 70] if quick else [20, 32, 63, 64, 70]
        for kk in mags:
            for v in ([2 ** kk, 2 ** kk - 1] if fld.endswith("excursion") else [2 ** kk]):
                add("huge-field", handmade_stream(**{fld: v}), "any", "%s=%s" % (fld, "2**%d" % kk if v == 2 ** kk else "2**%d-1" % kk),
                    [[], ["-v"], ["-i"], ["-p", "-q", "-i"]])
    # small but out-of-table index values in the same fields (every value 0..40 would be a different table lookup)
    for fld in ("base_video_format", "frame_rate_index", "signal_range_index", "wavelet_index", "picture_coding_mode", "profile", "level",
                "color_diff_format", "source_sampling", "major_version"):
        for v in ([7, 25, 200] if quick else [1, 2, 3, 5, 7, 8, 12, 22, 23, 25, 64, 200, 65535]):
            add("odd-index", handmade_stream(**{fld: v}), "any", "%s=%d" % (fld, v), [[], ["-i", "-v"]])
    return jobs


# ======================================================================================================
# The hook
# ======================================================================================================
CLAUSE_TITLES = {
    "N": "never the internal-error status, never an uncaught exception; always 0, 2, 3 or 4",
    "V": "a valid stream is read successfully (status 0) under every sampled display option",
    "T": "a strict prefix of a valid stream ends with status 0 or 3",
    "R": "the status says what happened to the parse (reference: own minimal monitor around the library's parser)",
    "G": "the same through a real process",
}


def check(rep, tier, seed):
    from pyvc import frontend

    frontend.ensure_repo_on_path()
    from vc2_conformance.scripts import vc2_bitstream_viewer as script
    from vc2_conformance import bitstream as bs
    from vc2_conformance.pseudocode.state import State

    scratch = tempfile.mkdtemp(prefix="c26-scratch-")
    try:
        good, deferred = build_corpus(tier, seed)
        function_names = sorted(bs.pseudocode_function_to_fixeddicts_recursive)
        jobs = build_jobs(tier, seed, good, function_names)
        _G.update(script=script, bs=bs, State=State, scratch=scratch)

        # warm-up in the parent (lazily built tables, byte code) so that forked workers start hot
        run_job(dict(jobs[0], id="warm-up/valid", runs=[([], False), (["-v", "-i"], False)]))
        run_job(dict(id="warm-up/garbage", group="degenerate", data=b"NOPE", kind="any", runs=[(["-v"], False)]))
        nchunks = WORKERS * 8
        chunks = [jobs[i::nchunks] for i in range(nchunks)]
        import multiprocessing

        ctx = multiprocessing.get_context("fork")
        with ctx.Pool(WORKERS, initializer=_worker_init) as pool:
            # watchdog: a worker stuck in a C-level operation that services no signal must not hang the check for ever
            results = [r for chunk in pool.map_async(_run_chunk, chunks).get(timeout=900 if tier == "quick" else 3600) for r in chunk]
        by_id = {r["id"]: r for r in results}
        results = [by_id[j["id"]] for j in jobs]  # generation order => deterministic reporting
        slowest = sorted(((r.get("seconds", 0), j["id"]) for j, r in zip(jobs, results)), reverse=True)[:5]
        skipped = [(j["id"], r["skipped"]) for j, r in zip(jobs, results) if r.get("skipped")]
        unmutated = [s for s in skipped if s[0].startswith("valid/")]
        if unmutated:
            raise RuntimeError("C26: resource guard fired on unmutated corpus streams: %s" % unmutated[:3])

        # ---- aggregate
        reported = {}
        beyond = {}
        for j, r in zip(jobs, results):
            for p in r["problems"]:
                if p["clause"] != "N":
                    # V, T and R say WHICH of the permitted statuses is the right one; the property only forbids the internal-error
                    # status, so these are recorded as observations and never decide the check
                    b = beyond.setdefault(p["clause"], {"count": 0, "examples": []})
                    b["count"] += 1
                    if len(b["examples"]) < 3:
                        b["examples"].append({"case": p["inputs"]["case"], "argv": p["inputs"]["argv"], "expected": p["expected"], "observed": p["observed"], "what": p["what"]})
                    continue
                n = reported.get(p["clause"], 0)
                if n < MAX_VIOLATIONS_PER_CLAUSE:
                    reported[p["clause"]] = n + bool(rep.violation("c26-%s-%d" % (p["clause"], n + 1), {
                        "what": "C26 clause %s (%s): %s" % (p["clause"], CLAUSE_TITLES[p["clause"]], p["what"]),
                        "inputs": p["inputs"], "expected": p["expected"], "observed": p["observed"], "reference_parse": p["reference_parse"],
                        "stdout_tail": p["stdout_tail"], "stderr_tail": p["stderr_tail"],
                        "reproduce": "write bytes.fromhex(stream_hex) to a file and call vc2_conformance.scripts.vc2_bitstream_viewer.main(argv) with <FILE> replaced "
                                     "by its name (status_line_forced: set the module's STATUS_LINE_UPDATE_INTERVAL to 0 first)"}))

        def runs_of(*groups):
            return [(j, run) for j, r in zip(jobs, results) if j["group"] in groups and not r.get("skipped") for run in r["runs"]]

        def jobs_of(*groups):
            return [(j, r) for j, r in zip(jobs, results) if j["group"] in groups and not r.get("skipped")]

        all_runs = runs_of(*{j["group"] for j in jobs})
        hist = {}
        for _j, (status, _event) in all_runs:
            hist[str(status)] = hist.get(str(status), 0) + 1
        valid_runs = [(j, run) for j, r in zip(jobs, results) if j["kind"] == "valid" and not r.get("skipped") for run in r["runs"]]
        rep.add_bounded(
            "V: valid streams are read successfully (status 0) under default and sampled display options",
            "%d valid streams (encoder: %d codec configurations incl. concatenations; test-case generators: %d streams; hand-written via the serialiser: %d; "
            "own bit writer: 1; frozen bytes: %d; prefixes ending at a sequence boundary; the empty file) x {default options; %d fixed option sets; --show/--hide of each of the %d "
            "pseudocode function names; %d range options scaled to the file size} (full sweep on a sixth of the streams plus five named ones in the quick tier, rotating subsets on the rest)"
            % (len(good), sum(g["origin"].startswith("encoder") for g in good), sum(g["origin"] == "test-case generator" for g in good),
               sum(g["origin"] == "bitstream serialiser" for g in good), len(GOLDEN), len(NEUTRAL_OPTS) + len(NOPREFIX_OPTS) - 1, len(function_names), len(range_opts(800))),
            len(valid_runs), False, distinct=len({j["data"] for j, _ in valid_runs}),
            samples=[{"case": j["id"], "status": run[0]} for j, run in valid_runs[:3]])
        tr = jobs_of("truncation")
        rep.add_bounded(
            "T: strict prefixes of valid streams end with status 0 or 3",
            "every byte-length prefix 1..len-1 of %d small valid streams, default options plus one or two rotating option sets"
            % len({j["id"].split("[:")[0] for j, _ in tr}),
            sum(len(r["runs"]) for _, r in tr), True, distinct=len(tr),
            samples=[{"case": j["id"], "statuses": [x[0] for x in r["runs"]]} for j, r in tr[:3]],
            note="exhaustive over byte lengths of the listed streams; status histogram: %r" % _hist([x for _, r in tr for x in r["runs"]]))
        rr = jobs_of("bit-flip", "byte-set", "random", "garbage", "structured-garbage")
        per = {}
        for j, r in rr:
            per[j["group"]] = per.get(j["group"], 0) + len(r["runs"])
        rep.add_bounded(
            "R: the status agrees with what the reference parse of the same bytes experiences (ok=>0, EOF=>3, bad prefix / other exception => 2 or 4)",
            "executions per group: " + ", ".join("%s=%d" % kv for kv in sorted(per.items()))
            + " (bit-flip: every single bit of %d small streams; byte-set: every byte to 00 and FF; random: seeded flip/replace/insert/delete/truncate/"
              "duplicate or drop a data unit/splice over the corpus; garbage: random bytes, 'BBCD'+random; structured-garbage: a well-formed parse_info "
              "of every Table 10.1 parse code + random payload); the comparison applies to runs whose options leave the range alone"
            % len({j["id"].split("^")[0] for j, _ in jobs_of("bit-flip")}),
            sum(per.values()), False, distinct=len({(x[0], x[1]) for _, r in rr for x in r["runs"]}),
            samples=[{"case": j["id"], "runs": r["runs"][:2]} for j, r in rr[:3]],
            note="reference events: %r" % _hist([[x[1]] for _, r in rr for x in r["runs"]]))
        hg = jobs_of("huge-field", "odd-index")
        rep.add_bounded(
            "N: astronomically large and out-of-table numbers in header fields",
            "one-picture stream written bit by bit by this module (not by the project's serialiser) with each of %d header fields set to 2**k, k in {20,32,63,64,70} "
            "(quick: fewer k) and index fields set to small out-of-table values; options {default, -v, -i, -p -q -i}" % len(HUGE_FIELDS),
            sum(len(r["runs"]) for _, r in hg), False, distinct=len(hg),
            samples=[{"case": j["id"], "runs": r["runs"][:2]} for j, r in hg[:3]],
            note="inputs on which the reference parse exceeds the work budget are skipped and listed under skipped_resource_guard")
        rep.add_bounded(
            "N: status is 0, 2, 3 or 4; never 255, never an internal-error message, never an uncaught exception or SystemExit; never 2 with --ignore-parse-info-prefix",
            "all executions of V, T, R and the header-value cases plus degenerate files (empty, 1..25 bytes) under every fixed option set",
            len(all_runs), False, distinct=len({(str(run[0]), run[1]) for _, run in all_runs}),
            samples=[{"case": j["id"], "status": run[0]} for j, run in runs_of("degenerate")[:3]],
            note="status histogram: %r" % hist)

        g_runs = _process_smoke(rep, frontend.REPO, scratch, good, tier)
        rep.add_bounded("G: real process (python -m vc2_conformance.scripts.vc2_bitstream_viewer): exit status",
                        "valid streams, a truncated one, garbage, the empty file, a flipped header bit; default options and -q -v", g_runs, False, distinct=g_runs)
        import vc2_data_tables

        live = sorted(int(c) for c in vc2_data_tables.ParseCodes)
        rep.add_eval_fact("oracle table: the parse codes this check treats as valid (ST 2042-1 Table 10.1) are exactly vc2_data_tables.ParseCodes",
                          set(live) == set(VALID_PARSE_CODES), "live table: %s" % ", ".join("0x%02X" % c for c in live))
        rep.add_eval_fact("oracle constant: the parse_info prefix of 10.5.1 (0x42424344, 'BBCD') equals vc2_data_tables.PARSE_INFO_PREFIX",
                          int(vc2_data_tables.PARSE_INFO_PREFIX) == PARSE_INFO_PREFIX, hex(int(vc2_data_tables.PARSE_INFO_PREFIX)))
        if skipped:
            rep.extra_assumptions.append("BOUNDED: %d mutated inputs were left out because the reference parse needed more than %d Python calls / %d GiB / %gs CPU on them "
                                         "(mutated headers announcing huge pictures), e.g. %s" % (len(skipped), REF_CALL_BUDGET, WORKER_MEMORY_LIMIT >> 30, REF_TIME_LIMIT, skipped[0][0]))
        rep.extra_coverage["c26_executions"] = {
            "in_process": len(all_runs), "subprocess": g_runs, "inputs": len(jobs) - len(skipped), "skipped_resource_guard": [s[0] for s in skipped][:50],
            "skipped_count": len(skipped), "slowest_inputs_s": slowest, "status_histogram": hist,
            "max_reference_calls": max([v[3] for r in results for v in r["ref"].values()] or [0])}
        rep.extra_coverage["c26_observations_beyond_statement"] = beyond
        if deferred:
            # a producer of valid inputs failed on this tree: the rest of the corpus (frozen streams, hand-written structures, mutations) still ran
            rep.extra_assumptions.append("corpus incomplete on this tree: %s" % "; ".join("%s: %r" % d for d in deferred[:5]))
    finally:
        shutil.rmtree(scratch, ignore_errors=True)


def _hist(runs):
    h = {}
    for x in runs:
        h[str(x[0])] = h.get(str(x[0]), 0) + 1
    return h


def _process_smoke(rep, repo, scratch, good, tier):
    by_name = {g["name"]: g for g in good}
    hq = by_name["hand:hq"]["data"]
    flipped = bytearray(hq)
    flipped[14] ^= 0x40
    plan = [
        ("empty", b"", [], {0}),
        ("valid-hand", hq, [], {0}),
        ("valid-encoder-fragments-verbose", by_name["enc:hq_fragments"]["data"], ["-q", "-v"], {0}),
        ("truncated", hq[:-20], ["-v"], {0, 3}),
        ("garbage", b"NOPE" * 8, [], {2, 4}),
        ("flipped-header-bit", bytes(flipped), ["-q", "-v"], set(ALLOWED)),
        ("valid-range", hq, ["-o", "120", "-q"], {0}),
    ]
    if tier != "quick":
        plan += [("valid:" + g["name"], g["data"], ["-S"], {0}) for g in good if g["origin"] == "encoder"][:16]
    env = dict(os.environ, PYTHONPATH=repo + os.pathsep + os.environ.get("PYTHONPATH", ""))
    env.pop("COLUMNS", None)
    procs = []
    for name, data, opts, want in plan:
        d = tempfile.mkdtemp(prefix="c26-proc-", dir=scratch)
        with open(os.path.join(d, "in.vc2"), "wb") as f:
            f.write(data)
        p = subprocess.Popen([sys.executable, "-m", "vc2_conformance.scripts.vc2_bitstream_viewer", os.path.join(d, "in.vc2")] + opts,
                             cwd=d, env=env, stdout=subprocess.PIPE, stderr=subprocess.PIPE)
        procs.append((name, data, opts, want, p))
        if len(procs) % WORKERS == 0:
            for q in procs[-WORKERS:]:
                q[-1].communicate()
    bad_n = 0
    for name, data, opts, want, p in procs:
        out, err = p.communicate()
        if p.returncode not in (0, 2, 3, 4):  # `want` (the status one would expect) is not demanded: the property only forbids the internal-error status
            bad_n += 1
            if bad_n <= MAX_VIOLATIONS_PER_CLAUSE:
                rep.violation("c26-G-%d" % bad_n, {
                    "what": "C26 clause G: the viewer run as a process does not exit with the expected status (%s)" % name,
                    "inputs": {"stream_hex": data.hex(), "argv": ["<in.vc2>"] + opts, "command": "python -m vc2_conformance.scripts.vc2_bitstream_viewer"},
                    "expected": sorted(want), "observed": p.returncode,
                    "stdout_tail": out.decode("utf-8", "replace")[-300:], "stderr_tail": err.decode("utf-8", "replace")[-400:]})
    return len(procs)


REGISTER = {
    "C26": dict(
        extra=[check],
        level="other",
        assumptions=[
            "BOUNDED (not proved): the viewer command is executed on a finite set of files of at most ~1 kB - a corpus of valid streams (encoder configurations, "
            "decoder test-case generators except 'real_pictures', hand-written structures, one stream from this module's own bit writer), every prefix / every "
            "single-bit flip / every byte set to 00 or FF of small ones, seeded random mutations, random and structured garbage, huge header values - under the "
            "default options and a sample of display options; counts are recorded per clause",
            "TRUSTED: streams produced by the project's encoder / test-case generators / serialiser from conformant structures are valid (oracle of clause V)",
            "TRUSTED: 'what happened to the parse' (clause R) is what vc2_conformance.bitstream.parse_stream does under this module's own minimal monitor on the same "
            "bytes; a defect of the parser itself that turns valid input into a failure is seen by clause V only",
            "statuses: 0 normal (also when the displayed range ends, by default at the end of the file), 3 end of file, 2 and 4 parse failure, 255 internal error",
            "NOT COVERED: unreadable files, invalid option combinations, a real terminal (tty status line, other terminal widths), inputs skipped by the resource guard "
            "(headers announcing pictures that would take the viewer minutes to print), running time and memory",
        ],
        manifest=dict(
            category="other",
            technique="bounded native contract check: the real command (in-process main() on scratch files with captured output, plus a few real processes) is executed "
                      "on valid streams, every prefix, exhaustive single-bit flips / byte corruptions of small streams, seeded random mutations, garbage and huge "
                      "header values, under default and sampled display options; deciding postcondition on every execution: status in {0,2,3,4}, never 255, no "
                      "internal-error message, no uncaught exception",
            text="For every input of the stated corpus under the default options, ~20 fixed option sets, --show/--hide of every pseudocode function and ~30 range options "
                 "the viewer must return a status out of {0,2,3,4}; it must never return 255, print an internal-error message, raise, or leave through SystemExit.  "
                 "Which of the permitted statuses is the right one (0 for valid streams, 0 or 3 for prefixes, agreement with a reference parse) is recorded in the "
                 "evidence as an observation and never decides the check, because the property does not state it.",
            note="Bounded stand-in, never counted as proved.  The status line is forced to be drawn (update interval 0) in half of the runs that hide values; "
                 "output is captured in memory (no tty).",
        ),
    )
}
