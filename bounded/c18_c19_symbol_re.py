"""C18 / C19 -- BOUNDED stand-in checks for vc2_conformance/symbol_re.py (never counted as proved).

C18  Matcher.match_symbol / is_complete / valid_next_symbols  versus Brzozowski-derivative semantics
     of the pattern language, on every pattern string generated from this module's OWN syntax trees
     (exhaustive up to a node bound) and every symbol word up to a length bound, plus the live
     level / encoder / test-case patterns over the data-unit names.
C19  make_matching_sequence versus an own breadth-first reference search over
     (position in the required list, derivative state of every pattern, consecutive-insertion count).
     Domains: small enumerated pattern trees, seeded samples, the live combinations, and the 'two alternatives'
     family  pre ((X) | (Y))u suf  (X, Y concatenations of length 1..4 that each admit the required list, so that
     insertions are needed before, between and after the required symbols and the depth limit decides which
     alternative is reachable) -- see alt_family_blocks().

Oracles.  The reference semantics below (terms, nullable, derivative, viability search) is written
from the property statement and never calls, parses with, or copies the code under check.  Pattern
STRINGS are rendered from own syntax trees and re-read with an own recursive-descent parser, so the
expected answers never depend on the real tokenizer/parser.

Deliberately defective references (used ONLY to decide whether a failing case is one of the already
recorded defect classes -- "explained-by" predicates, DESIGN.md section 3):
  * BiNFA(bidirectional=True): Thompson automaton in which every epsilon edge can also be traversed
    backwards (defect D4).  A failing C18 case carries known_key "C18-D4-bidirectional-epsilon" only if
    this automaton reproduces the complete observed trace (every match_symbol answer, every is_complete
    answer, every valid_next_symbols set) exactly.
  * greedy_search(): the breadth-first completion search that commits to matching the next required
    symbol as soon as it is allowed and then never tries an insertion at that point (defect D7).
    A failing C19 case carries "C19-D7-greedy-no-backtrack" only if that search, run on the CORRECT
    matcher semantics, reproduces the observed outcome exactly AND the same search without the
    commitment satisfies the property on that case.
  * "C19-inherits-C18-D4": the observed outcome violates the property under the correct pattern
    semantics but satisfies it completely (sound, shortest, impossibility justified) when the patterns
    are read with the D4 automaton, i.e. the only thing wrong is the matcher underneath.
  * "C19-D7-and-C18-D4-combined": neither of the above alone, but the greedy search on the D4 automaton
    reproduces the observed outcome exactly.
Anything not explained exactly is reported as a new VIOLATION.
"""
import ast as pyast
import itertools
import multiprocessing
import os
import random
import time
import traceback

from pyvc import frontend

WILDCARD = "."  # documented API constants of symbol_re (public interface, not implementation)
END_OF_SEQUENCE = ""
FRESH = "zz_symbol_named_by_no_pattern"

# =====================================================================================================
# 1. own pattern syntax trees, rendering to strings, own parser
# =====================================================================================================
# tree := ("sym", name) | ("any",) | ("eos",) | ("cat", x, y) | ("alt", x, y) | ("opt", x) | ("star", x) | ("plus", x)

LEAF_TAGS = ("sym", "any", "eos")
UNARY = {"opt": "?", "star": "*", "plus": "+"}


def tree_size(t):
    return 1 + sum(tree_size(c) for c in t[1:] if isinstance(c, tuple))


def tree_has_eos(t):
    if t[0] == "eos":
        return True
    return any(tree_has_eos(c) for c in t[1:] if isinstance(c, tuple))


def tree_optional(t):
    """Can the sub-pattern match without consuming a symbol ($ counts as consuming nothing)?"""
    k = t[0]
    if k == "eos":
        return True
    if k in ("sym", "any"):
        return False
    if k in ("opt", "star"):
        return True
    if k == "plus":
        return tree_optional(t[1])
    if k == "cat":
        return tree_optional(t[1]) and tree_optional(t[2])
    return tree_optional(t[1]) or tree_optional(t[2])


def eos_in_scope(t):
    """The property's side condition: '$ used only where nothing mandatory follows it':
    in every concatenation x y with a $ somewhere in x, y must be optional."""
    k = t[0]
    if k in LEAF_TAGS:
        return True
    if k == "cat":
        if tree_has_eos(t[1]) and not tree_optional(t[2]):
            return False
        return eos_in_scope(t[1]) and eos_in_scope(t[2])
    return all(eos_in_scope(c) for c in t[1:])


_ENUM_CACHE = {}


def enum_trees(n, leaves):
    """All trees with exactly n nodes over the given leaves (no $-scope filtering yet)."""
    key = (n, leaves)
    if key in _ENUM_CACHE:
        return _ENUM_CACHE[key]
    out = []
    if n == 1:
        out = list(leaves)
    else:
        for sub in enum_trees(n - 1, leaves):
            for u in ("opt", "star", "plus"):
                out.append((u, sub))
        for i in range(1, n - 1):
            for x in enum_trees(i, leaves):
                for y in enum_trees(n - 1 - i, leaves):
                    out.append(("cat", x, y))
                    out.append(("alt", x, y))
    _ENUM_CACHE[key] = out
    return out


ENUM_LEAVES = (("sym", "a"), ("sym", "b"), ("any",), ("eos",))


def enum_patterns(max_size):
    """All in-scope trees of 1..max_size nodes over {a, b, ., $}."""
    res = []
    for n in range(1, max_size + 1):
        for t in enum_trees(n, ENUM_LEAVES):
            if eos_in_scope(t):
                res.append(t)
    return res


def _leaf_str(t):
    return t[1] if t[0] == "sym" else ("." if t[0] == "any" else "$")


def render_explicit(t):
    """Every binary operand that is itself binary is parenthesised: no reliance on precedence/associativity."""
    k = t[0]
    if k in LEAF_TAGS:
        return _leaf_str(t)
    if k in UNARY:
        c = t[1]
        s = render_explicit(c)
        return (s if c[0] in LEAF_TAGS else "(" + s + ")") + UNARY[k]
    a, b = t[1], t[2]
    sa, sb = render_explicit(a), render_explicit(b)
    if a[0] in ("cat", "alt"):
        sa = "(" + sa + ")"
    if b[0] in ("cat", "alt"):
        sb = "(" + sb + ")"
    return sa + (" " if k == "cat" else " | ") + sb


def _chain(t, k):
    if t[0] == k:
        return _chain(t[1], k) + _chain(t[2], k)
    return [t]


def render_flat(t):
    """Chains of the same associative operator are written without inner parentheses (a b c, a | b | c),
    as the real level patterns do; a concatenation inside an alternation (and vice versa) is still
    parenthesised, so the conventional precedence between the two is not relied upon."""
    k = t[0]
    if k in LEAF_TAGS:
        return _leaf_str(t)
    if k in UNARY:
        c = t[1]
        s = render_flat(c)
        return (s if c[0] in LEAF_TAGS else "(" + s + ")") + UNARY[k]
    parts = []
    for c in _chain(t, k):
        s = render_flat(c)
        if c[0] in ("cat", "alt"):
            s = "(" + s + ")"
        parts.append(s)
    return (" " if k == "cat" else " | ").join(parts)


class OwnSyntaxError(Exception):
    pass


def own_tokenize(s):
    toks = []
    i = 0
    while i < len(s):
        c = s[i]
        if c.isspace():
            i += 1
        elif c.isalnum() or c == "_":
            j = i
            while j < len(s) and (s[j].isalnum() or s[j] == "_"):
                j += 1
            toks.append(("w", s[i:j]))
            i = j
        elif c in ".$?*+|()":
            toks.append((c, c))
            i += 1
        else:
            raise OwnSyntaxError("character %r" % c)
    return toks


def own_parse(s):
    """Own recursive-descent parser (alternation < concatenation < postfix modifier).
    Concatenation chains come out right-nested and alternation chains left-nested."""
    toks = own_tokenize(s)
    pos = [0]

    def peek():
        return toks[pos[0]][0] if pos[0] < len(toks) else None

    def alt():
        t = cat()
        while peek() == "|":
            pos[0] += 1
            t = ("alt", t, cat())
        return t

    def cat():
        items = []
        while peek() in ("w", ".", "$", "("):
            items.append(post())
        if not items:
            raise OwnSyntaxError("empty operand at token %d" % pos[0])
        t = items[-1]
        for x in reversed(items[:-1]):
            t = ("cat", x, t)
        return t

    def post():
        k = peek()
        if k == "w":
            t = ("sym", toks[pos[0]][1])
            pos[0] += 1
        elif k == ".":
            t = ("any",)
            pos[0] += 1
        elif k == "$":
            t = ("eos",)
            pos[0] += 1
        else:
            pos[0] += 1
            t = alt()
            if peek() != ")":
                raise OwnSyntaxError("missing )")
            pos[0] += 1
        if peek() in ("?", "*", "+"):
            t = ({"?": "opt", "*": "star", "+": "plus"}[peek()], t)
            pos[0] += 1
            if peek() in ("?", "*", "+"):
                raise OwnSyntaxError("double modifier")
        return t

    t = alt()
    if pos[0] != len(toks):
        raise OwnSyntaxError("trailing input at token %d" % pos[0])
    return t


def tree_names(t):
    if t[0] == "sym":
        return {t[1]}
    out = set()
    for c in t[1:]:
        if isinstance(c, tuple):
            out |= tree_names(c)
    return out


# =====================================================================================================
# 2. correct reference: Brzozowski derivatives over normalised terms
# =====================================================================================================
# term := EMPTY | EPS | ("sym", n) | ANY | EOS | ("cat", x, y) | ("alt", frozenset) | ("star", x)
# Words are read over (symbols u {$}); `$` is a letter that no input symbol equals and the wildcard does
# not match.  A symbol word w matches  <=>  w $^k is in the term's language for some k >= 0.

EMPTY = ("0",)
EPS = ("e",)
ANY = ("any",)
EOS = ("eos",)


def t_cat(x, y):
    if x == EMPTY or y == EMPTY:
        return EMPTY
    if x == EPS:
        return y
    if y == EPS:
        return x
    if x[0] == "cat":
        return t_cat(x[1], t_cat(x[2], y))
    return ("cat", x, y)


def t_alt(xs):
    out = set()
    for x in xs:
        if x == EMPTY:
            continue
        if x[0] == "alt":
            out.update(x[1])
        else:
            out.add(x)
    if not out:
        return EMPTY
    if len(out) == 1:
        return next(iter(out))
    return ("alt", frozenset(out))


def t_star(x):
    if x == EMPTY or x == EPS:
        return EPS
    if x[0] == "star":
        return x
    return ("star", x)


def to_term(t):
    k = t[0]
    if k == "sym":
        return t
    if k == "any":
        return ANY
    if k == "eos":
        return EOS
    if k == "eps":
        return EPS
    if k == "cat":
        return t_cat(to_term(t[1]), to_term(t[2]))
    if k == "alt":
        return t_alt([to_term(t[1]), to_term(t[2])])
    x = to_term(t[1])
    if k == "opt":
        return t_alt([x, EPS])
    if k == "star":
        return t_star(x)
    if k == "plus":
        return t_cat(x, t_star(x))
    raise ValueError(k)


_NULL = {}


def nullable(t):
    """epsilon in the language ($ is a letter here, so `$` is NOT nullable)."""
    r = _NULL.get(t)
    if r is None:
        k = t[0]
        if k in ("e", "star"):
            r = True
        elif k == "cat":
            r = nullable(t[1]) and nullable(t[2])
        elif k == "alt":
            r = any(nullable(x) for x in t[1])
        else:
            r = False
        _NULL[t] = r
    return r


_NUEND = {}


def nu_end(t):
    """some $^k is in the language: the symbols read so far form a complete match."""
    r = _NUEND.get(t)
    if r is None:
        k = t[0]
        if k in ("e", "star", "eos"):
            r = True
        elif k == "cat":
            r = nu_end(t[1]) and nu_end(t[2])
        elif k == "alt":
            r = any(nu_end(x) for x in t[1])
        else:
            r = False
        _NUEND[t] = r
    return r


_DERIV = {}


def deriv(t, s):
    key = (t, s)
    r = _DERIV.get(key)
    if r is None:
        k = t[0]
        if k == "sym":
            r = EPS if t[1] == s else EMPTY
        elif k == "any":
            r = EPS
        elif k == "cat":
            parts = [t_cat(deriv(t[1], s), t[2])]
            if nullable(t[1]):
                parts.append(deriv(t[2], s))
            r = t_alt(parts)
        elif k == "alt":
            r = t_alt([deriv(x, s) for x in t[1]])
        elif k == "star":
            r = t_cat(deriv(t[1], s), t)
        else:  # EMPTY, EPS, EOS
            r = EMPTY
        _DERIV[key] = r
    return r


_NAMES = {}


def term_names(t):
    r = _NAMES.get(t)
    if r is None:
        k = t[0]
        if k == "sym":
            r = frozenset([t[1]])
        elif k == "cat":
            r = term_names(t[1]) | term_names(t[2])
        elif k == "alt":
            r = frozenset().union(*[term_names(x) for x in t[1]])
        elif k == "star":
            r = term_names(t[1])
        else:
            r = frozenset()
        _NAMES[t] = r
    return r


_VIABLE = {}


def viable(t):
    """Is there a symbol word v with nu_end(deriv_v(t))?  (the word read so far is a prefix of a match)
    Decided by exhaustive search of the (finite) derivative automaton over named symbols + one unnamed."""
    r = _VIABLE.get(t)
    if r is not None:
        return r
    if t == EMPTY:
        _VIABLE[t] = False
        return False
    alpha = list(term_names(t)) + [FRESH]
    seen = {t}
    stack = [t]
    found = False
    while stack:
        u = stack.pop()
        c = _VIABLE.get(u)
        if c or (c is None and nu_end(u)):
            found = True
            break
        if c is False:
            continue
        for s in alpha:
            d = deriv(u, s)
            if d != EMPTY and d not in seen:
                seen.add(d)
                stack.append(d)
    if found:
        _VIABLE[t] = True
    else:
        for u in seen:
            _VIABLE[u] = False
    return found


_FIRST = {}


def first_labels(t):
    """Labels (names, WILDCARD, END_OF_SEQUENCE for `$`) with which a match of t can begin."""
    r = _FIRST.get(t)
    if r is None:
        k = t[0]
        if k == "sym":
            r = frozenset([t[1]])
        elif k == "any":
            r = frozenset([WILDCARD])
        elif k == "eos":
            r = frozenset([END_OF_SEQUENCE])
        elif k == "cat":
            r = first_labels(t[1])
            if nullable(t[1]):
                r = r | first_labels(t[2])
        elif k == "alt":
            r = frozenset().union(*[first_labels(x) for x in t[1]])
        elif k == "star":
            r = first_labels(t[1])
        else:
            r = frozenset()
        _FIRST[t] = r
    return r


def clear_caches():
    for d in (_NULL, _NUEND, _DERIV, _NAMES, _VIABLE, _FIRST):
        d.clear()


def terms_equivalent(t1, t2):
    """Exact language equivalence (bisimulation of the two derivative automata)."""
    alpha = list(term_names(t1) | term_names(t2)) + [FRESH]
    seen = {(t1, t2)}
    stack = [(t1, t2)]
    while stack:
        a, b = stack.pop()
        if nu_end(a) != nu_end(b) or viable(a) != viable(b):
            return False
        for s in alpha:
            p = (deriv(a, s), deriv(b, s))
            if p not in seen:
                seen.add(p)
                stack.append(p)
    return True


class SemCorrect(object):
    """Matcher semantics by derivatives (state = term)."""

    def __init__(self, tree):
        self.start = to_term(tree)

    def step(self, st, s):
        d = deriv(st, s)
        return d if viable(d) else None

    def complete(self, st):
        return nu_end(st)

    def vns(self, st):
        r = set(first_labels(st))
        if nu_end(st):
            r.add(END_OF_SEQUENCE)
        return r


# =====================================================================================================
# 3. Thompson automaton built from the own tree: directed (self-check of the oracle) and with every
#    epsilon edge also traversable backwards (the deliberately DEFECTIVE reference for D4)
# =====================================================================================================


class BiNFA(object):
    def __init__(self, tree, bidirectional):
        self.eps = []  # node -> set(node)
        self.tr = []  # node -> {label: set(node)}
        self.bidirectional = bidirectional
        self.start, self.final = self._build(tree)
        self._closure = {}

    def _new(self):
        self.eps.append(set())
        self.tr.append({})
        return len(self.eps) - 1

    def _e(self, a, b):
        self.eps[a].add(b)
        if self.bidirectional:
            self.eps[b].add(a)

    def _build(self, t):
        k = t[0]
        if k in LEAF_TAGS:
            s, f = self._new(), self._new()
            lab = t[1] if k == "sym" else (WILDCARD if k == "any" else END_OF_SEQUENCE)
            self.tr[s].setdefault(lab, set()).add(f)
            return s, f
        if k == "eps":
            n = self._new()
            return n, n
        if k == "cat":
            a = self._build(t[1])
            b = self._build(t[2])
            self._e(a[1], b[0])
            return a[0], b[1]
        if k == "alt":
            s, f = self._new(), self._new()
            a = self._build(t[1])
            b = self._build(t[2])
            self._e(s, a[0])
            self._e(s, b[0])
            self._e(a[1], f)
            self._e(b[1], f)
            return s, f
        if k == "star":
            s, f = self._new(), self._new()
            x = self._build(t[1])
            self._e(s, f)
            self._e(s, x[0])
            self._e(x[1], x[0])
            self._e(x[1], f)
            return s, f
        if k == "plus":  # x+  ==  x x*   (two copies of x)
            return self._build(("cat", t[1], ("star", t[1])))
        if k == "opt":  # x?  ==  x | <empty>
            return self._build(("alt", t[1], ("eps",)))
        raise ValueError(k)

    def closure(self, n):
        c = self._closure.get(n)
        if c is None:
            c = {n}
            todo = [n]
            while todo:
                u = todo.pop()
                for v in self.eps[u]:
                    if v not in c:
                        c.add(v)
                        todo.append(v)
            c = frozenset(c)
            self._closure[n] = c
        return c

    def move(self, cur, s):
        out = set()
        for n in cur:
            for m in self.closure(n):
                tr = self.tr[m]
                if s in tr:
                    out |= tr[s]
                if WILDCARD in tr:
                    out |= tr[WILDCARD]
        return frozenset(out)

    def is_complete(self, cur):
        for n in cur:
            c = self.closure(n)
            if self.final in c:
                return True
            for m in c:
                if self.tr[m].get(END_OF_SEQUENCE):
                    return True
        return False

    def vns(self, cur):
        r = set()
        for n in cur:
            for m in self.closure(n):
                r.update(self.tr[m].keys())
        if self.is_complete(cur):
            r.add(END_OF_SEQUENCE)
        return r


class SemNFA(object):
    def __init__(self, tree, bidirectional):
        self.nfa = BiNFA(tree, bidirectional)
        self.start = frozenset([self.nfa.start])

    def step(self, st, s):
        m = self.nfa.move(st, s)
        return m if m else None

    def complete(self, st):
        return self.nfa.is_complete(st)

    def vns(self, st):
        return self.nfa.vns(st)


def sem_trace(sem, word):
    """The trace the Matcher API would produce if it implemented `sem`:
    [(None, None, complete, vns)] + [(symbol, accepted, complete, vns) ...]; a rejected symbol does not advance."""
    st = sem.start
    tr = [(None, None, sem.complete(st), frozenset(sem.vns(st)))]
    for s in word:
        n = sem.step(st, s)
        if n is not None:
            st = n
        tr.append((s, n is not None, sem.complete(st), frozenset(sem.vns(st))))
    return tr


# =====================================================================================================
# 4. the code under check (imported through the frontend so VERIF_REPO redirects it)
# =====================================================================================================

_REAL = {}


def real():
    if not _REAL:
        frontend.ensure_repo_on_path()
        import vc2_conformance.symbol_re as m

        _REAL["m"] = m
    return _REAL["m"]


def real_trace(pattern, word, counter):
    m = real().Matcher(pattern)
    counter[0] += 1
    tr = [(None, None, bool(m.is_complete()), frozenset(m.valid_next_symbols()))]
    counter[0] += 2
    for s in word:
        r = m.match_symbol(s)
        tr.append((s, bool(r), bool(m.is_complete()), frozenset(m.valid_next_symbols())))
        counter[0] += 3
    return tr


def real_tree(pattern):
    """Real parser's AST converted to an own tree (diagnostic only); None if the shape is not understood."""
    m = real()
    try:
        a = m.parse_regex(pattern)

        def conv(x):
            if x is None:
                return ("eps",)
            n = type(x).__name__
            if n == "Symbol":
                if x.symbol == WILDCARD:
                    return ("any",)
                if x.symbol == END_OF_SEQUENCE:
                    return ("eos",)
                return ("sym", x.symbol)
            if n == "Star":
                return ("star", conv(x.expr))
            if n == "Concatenation":
                return ("cat", conv(x.a), conv(x.b))
            if n == "Union":
                return ("alt", conv(x.a), conv(x.b))
            raise ValueError(n)

        return conv(a)
    except Exception:
        return None


# =====================================================================================================
# 5. C18: compare one (pattern, word)
# =====================================================================================================


def vns_problem(term, names, comp, vns):
    """The four clauses relating a reported valid_next_symbols set to the reference state `term`."""
    exp_complete = nu_end(term)
    if comp != exp_complete:
        return ("is_complete", exp_complete, comp)
    if (END_OF_SEQUENCE in vns) != exp_complete:
        return ("valid_next_symbols:END_OF_SEQUENCE", exp_complete, sorted(vns))
    fresh_ok = viable(deriv(term, FRESH))
    if (WILDCARD in vns) != fresh_ok:
        return ("valid_next_symbols:WILDCARD", fresh_ok, sorted(vns))
    for s in names:
        ok = viable(deriv(term, s))
        if ok != (s in vns or WILDCARD in vns):
            return ("valid_next_symbols:%s" % s, ok, sorted(vns))
    for s in vns:
        if s in (WILDCARD, END_OF_SEQUENCE):
            continue
        if not isinstance(s, str) or not viable(deriv(term, s)):
            return ("valid_next_symbols:lists-impossible-symbol", False, sorted(map(str, vns)))
    return None


def first_mismatch(term, names, trace):
    """First point at which an observed trace departs from the correct semantics, or None."""
    st = term
    _, _, comp, vns = trace[0]
    p = vns_problem(st, names, comp, vns)
    if p:
        return dict(step=0, kind=p[0], expected=p[1], observed=p[2])
    for i, (s, acc, comp, vns) in enumerate(trace[1:], 1):
        d = deriv(st, s)
        exp = viable(d)
        if acc != exp:
            return dict(step=i, kind="match_symbol", symbol=s, expected=exp, observed=acc)
        if acc:
            st = d
        p = vns_problem(st, names, comp, vns)
        if p:
            return dict(step=i, kind=p[0], expected=p[1], observed=p[2])
    return None


def c18_check_pattern(pattern, words, counter, stats, selfcheck=True):
    """Returns the list of failure records for one pattern string."""
    tree = own_parse(pattern)
    term = to_term(tree)
    names = sorted(tree_names(tree))
    d4 = None
    directed = SemNFA(tree, False) if selfcheck else None
    correct = SemCorrect(tree)
    fails = []
    parser_ok = None
    for w in words:
        try:
            tr = real_trace(pattern, w, counter)
        except Exception:
            fails.append(dict(pattern=pattern, word=list(w), kind="exception", step=None, expected="no exception",
                              observed=traceback.format_exc()[-1500:], known_key=None))
            continue
        if selfcheck:
            # oracle self-consistency: derivative semantics == directed Thompson automaton (two own implementations)
            ta, tb = sem_trace(correct, w), sem_trace(directed, w)
            if [x[:3] for x in ta] != [x[:3] for x in tb] or first_mismatch(term, names, tb) is not None:
                raise RuntimeError("oracle self-check failed for %r on %r: %r vs %r" % (pattern, w, ta, tb))
            stats["selfcheck"] += 1
        mm = first_mismatch(term, names, tr)
        if mm is None:
            continue
        if d4 is None:
            d4 = SemNFA(tree, True)
        explained = sem_trace(d4, w) == tr
        if parser_ok is None:
            rt = real_tree(pattern)
            parser_ok = None if rt is None else bool(terms_equivalent(to_term(rt), term))
        rec = dict(pattern=pattern, word=list(w), known_key="C18-D4-bidirectional-epsilon" if explained else None,
                   real_parser_ast_equivalent_to_pattern=parser_ok,
                   observed_trace=[[s, a, c, sorted(v)] for (s, a, c, v) in tr])
        rec.update(mm)
        fails.append(rec)
    return fails


def _c18_task(args):
    patterns, alphabet, length, selfcheck = args
    counter = [0]
    stats = {"selfcheck": 0}
    words = list(itertools.product(alphabet, repeat=length))
    n_cases = 0
    by_key = {}
    samples = {}
    failing_patterns = {}
    for p in patterns:
        fails = c18_check_pattern(p, words, counter, stats, selfcheck)
        n_cases += len(words)
        for f in fails:
            k = f["known_key"] or "UNEXPLAINED"
            by_key[k] = by_key.get(k, 0) + 1
            failing_patterns.setdefault(k, set()).add(p)
            lst = samples.setdefault(k, [])
            if len(lst) < 6:
                lst.append(f)
    clear_caches()
    return dict(evals=counter[0], cases=n_cases, by_key=by_key, samples=samples, selfcheck=stats["selfcheck"],
                failing_patterns={k: sorted(v) for k, v in failing_patterns.items()}, npatterns=len(patterns))


C19_QUICK_WORKERS = 6  # the quick C19 run is budgeted for at most 6 worker processes


def _pool(cap=None):
    """Worker pool; at most `cap` processes (default 16); VERIF_BOUNDED_WORKERS lowers the number further."""
    n = min(cap or 16, os.cpu_count() or 1)
    env = os.environ.get("VERIF_BOUNDED_WORKERS")
    if env and env.isdigit() and int(env) > 0:
        n = min(n, int(env))
    return multiprocessing.get_context("fork").Pool(n)


def _pmap(pool, fn, tasks, tier):
    """pool.map with an overall time limit: a hang in the code under check is a checker error (exit 3), never a verdict."""
    limit = 900 if tier == "quick" else 3600
    try:
        return pool.map_async(fn, tasks, chunksize=1).get(timeout=limit)
    except multiprocessing.TimeoutError:
        pool.terminate()
        raise RuntimeError("bounded check did not finish within %d s (non-terminating call in the code under check, or overloaded machine)" % limit)


def _chunks(lst, n):
    return [lst[i:i + n] for i in range(0, len(lst), n)]


def _merge(results):
    tot = dict(evals=0, cases=0, by_key={}, samples={}, selfcheck=0, failing_patterns={}, npatterns=0)
    for r in results:
        for k in ("evals", "cases", "selfcheck", "npatterns"):
            tot[k] += r.get(k, 0)
        for k, v in r["by_key"].items():
            tot["by_key"][k] = tot["by_key"].get(k, 0) + v
        for k, v in r["samples"].items():
            tot["samples"].setdefault(k, []).extend(v)
        for k, v in r.get("failing_patterns", {}).items():
            tot["failing_patterns"].setdefault(k, []).extend(v)
    return tot


def _sample_key(f):
    return (len(f.get("pattern", "") if isinstance(f.get("pattern"), str) else str(f.get("patterns"))),
            len(f.get("word", f.get("required", []))), str(f.get("pattern", f.get("patterns"))), str(f.get("word", f.get("required"))))


def _report(rep, prefix, tot, what_known, max_unexplained=5):
    """One rep.violation per explained class (carrying the known_key), up to max_unexplained for the rest."""
    for k in sorted(tot["by_key"]):
        samples = sorted(tot["samples"][k], key=_sample_key)
        npat = len(set(tot["failing_patterns"].get(k, [])))
        if k == "UNEXPLAINED":
            for i, f in enumerate(samples[:max_unexplained]):
                payload = dict(f)
                payload.pop("known_key", None)
                payload["what"] = "%s: not explained by any recorded defect class (%d such failing cases, %d pattern sets, in this part of the run)" % (
                    prefix, tot["by_key"][k], npat)
                payload["inputs"] = {x: f.get(x) for x in ("pattern", "word", "required", "patterns", "depth_limit", "symbol_priority") if x in f}
                rep.violation("%s-unexplained-%d" % (prefix, i), payload)
        else:
            f = samples[0]
            payload = dict(f)
            payload["what"] = "%s: %s (%d failing cases over %d pattern sets in this part of the run; smallest shown)" % (
                prefix, what_known.get(k, k), tot["by_key"][k], npat)
            payload["inputs"] = {x: f.get(x) for x in ("pattern", "word", "required", "patterns", "depth_limit", "symbol_priority") if x in f}
            payload["other_witnesses"] = [{x: g.get(x) for x in ("pattern", "word", "required", "patterns", "depth_limit", "symbol_priority") if x in g}
                                          for g in samples[1:4]]
            rep.violation("%s-%s" % (prefix, k), payload)


C18_KNOWN = {
    "C18-D4-bidirectional-epsilon": "Matcher trace differs from the pattern's derivative semantics and is reproduced exactly by the Thompson automaton "
                                    "whose epsilon edges are also traversed backwards (NFANode.add_transition, defect D4)",
}


# ---- live patterns -------------------------------------------------------------------------------------


def live_patterns():
    """Pattern strings actually used by the package: level table (live), and string literals passed to
    Matcher / make_matching_sequence / make_sequence anywhere under vc2_conformance (found with ast)."""
    frontend.ensure_repo_on_path()
    from vc2_conformance.level_constraints import LEVEL_SEQUENCE_RESTRICTIONS

    level = [(int(k), v.sequence_restriction_regex) for k, v in LEVEL_SEQUENCE_RESTRICTIONS.items()]
    literal = []
    priority = None
    root = os.path.join(frontend.REPO, "vc2_conformance")
    for dp, dn, fn in sorted(os.walk(root)):
        for f in sorted(fn):
            if not f.endswith(".py"):
                continue
            path = os.path.join(dp, f)
            with open(path) as fh:
                try:
                    mod = pyast.parse(fh.read())
                except SyntaxError:
                    continue
            for node in pyast.walk(mod):
                if not isinstance(node, pyast.Call):
                    continue
                fnname = node.func.id if isinstance(node.func, pyast.Name) else getattr(node.func, "attr", None)
                if fnname not in ("Matcher", "make_matching_sequence", "make_sequence"):
                    continue
                for a in node.args:
                    if isinstance(a, pyast.Constant) and isinstance(a.value, str):
                        try:
                            own_parse(a.value)
                        except OwnSyntaxError:
                            continue
                        literal.append((fnname, os.path.relpath(path, frontend.REPO), a.value))
                if fnname == "make_matching_sequence":
                    for kw in node.keywords:
                        if kw.arg == "symbol_priority":
                            try:
                                priority = list(pyast.literal_eval(kw.value))
                            except Exception:
                                pass
    return level, literal, priority


def data_unit_names():
    from vc2_data_tables import ParseCodes

    return [p.name for p in ParseCodes]


# ---- the C18 hook ------------------------------------------------------------------------------------


def check_c18(rep, tier, seed):
    t0 = time.time()
    cpu0 = _children_cpu()
    frontend.ensure_repo_on_path()
    real()
    max_size, wlen = (5, 4) if tier == "quick" else (6, 5)
    trees = enum_patterns(max_size)
    strings = []
    seen = set()
    n_flat = 0
    for t in trees:
        for k, s in (("explicit", render_explicit(t)), ("flat", render_flat(t))):
            if s in seen:
                continue
            seen.add(s)
            # own parser must read back the same language as the tree it was rendered from (checker self-check)
            if to_term(own_parse(s)) != to_term(t):
                raise RuntimeError("own renderer/parser disagree on %r" % (s,))
            strings.append(s)
            n_flat += k == "flat"
    clear_caches()
    tasks = [(c, ("a", "b", "c"), wlen, True) for c in _chunks(strings, 40)]
    pool = _pool()
    try:
        res_enum = _pmap(pool, _c18_task, tasks, tier)
        # live patterns over the data-unit names
        level, literal, _prio = live_patterns()
        names = data_unit_names()
        live = []
        for s in [p for (_, p) in level] + [p for (_, _, p) in literal]:
            if s not in live:
                live.append(s)
        for s in live:
            extra = tree_names(own_parse(s)) - set(names)
            if extra:
                names = names + sorted(extra)
        live_len = wlen
        # one task per (pattern, first symbol) so the big level pattern spreads over the pool
        res_live = _pmap(pool, _c18_task_split, [(s, tuple(names), live_len, i) for s in live for i in range(len(names))], tier)
    finally:
        pool.close()
        pool.join()
    tot_e = _merge(res_enum)
    tot_l = _merge(res_live)
    tot_l["npatterns"] = len(live)
    rep.add_bounded(
        "C18-enumerated-patterns",
        "EXHAUSTIVE: every pattern syntax tree with <= %d nodes over leaves {a, b, '.', '$'} and operators concatenation, '|', '?', '*', '+' "
        "(grouping by parentheses) in which '$' occurs only where everything concatenated after it is optional [%d trees], each rendered fully "
        "parenthesised and, where different, with flat a b c / a | b | c chains [%d distinct pattern strings]; x every symbol word of length %d over "
        "{a, b, c} (c is named by no pattern; all shorter words are covered as prefixes; a rejected symbol is followed by the remaining ones to check "
        "that a rejection does not advance the matcher). After every symbol: match_symbol's answer, is_complete(), valid_next_symbols() are compared "
        "with derivative semantics." % (max_size, len(trees), len(strings), wlen),
        evaluations=tot_e["evals"], exhaustive=True, distinct=tot_e["cases"],
        samples=[dict(pattern=strings[i], words="all of length %d over a,b,c" % wlen) for i in (0, len(strings) // 3, len(strings) // 2, len(strings) - 1)],
        note="failing (pattern, word) cases: %s; oracle self-check (derivatives == own directed Thompson automaton) on %d traces"
             % (tot_e["by_key"] or "none", tot_e["selfcheck"]))
    rep.add_bounded(
        "C18-live-patterns",
        "the %d live level patterns (%d distinct) and %d string literals passed to Matcher/make_matching_sequence/make_sequence in the package "
        "(%d distinct patterns in total) x EXHAUSTIVELY every word of length %d over the %d data-unit names %s"
        % (len(level), len(set(p for _, p in level)), len(literal), len(live), live_len, len(names), names),
        evaluations=tot_l["evals"], exhaustive=True, distinct=tot_l["cases"],
        samples=[dict(pattern=s) for s in live],
        note="failing (pattern, word) cases: %s" % (tot_l["by_key"] or "none"))
    rep.extra_coverage["C18_failing_cases_by_class"] = {"enumerated": tot_e["by_key"], "live": tot_l["by_key"]}
    rep.extra_coverage["C18_patterns_with_failures"] = {
        "enumerated": {k: len(set(v)) for k, v in tot_e["failing_patterns"].items()},
        "live": {k: sorted(set(v)) for k, v in tot_l["failing_patterns"].items()}}
    rep.extra_coverage["C18_wall_s"] = round(time.time() - t0, 1)
    rep.extra_coverage["C18_worker_cpu_s"] = round(_children_cpu() - cpu0, 1)
    _report(rep, "C18-enumerated", tot_e, C18_KNOWN)
    _report(rep, "C18-live", tot_l, C18_KNOWN)


def _c18_task_split(args):
    """All words of the given length starting with alphabet[i], for one (large) pattern."""
    pattern, alphabet, length, i = args
    counter = [0]
    stats = {"selfcheck": 0}
    words = [(alphabet[i],) + w for w in itertools.product(alphabet, repeat=length - 1)]
    fails = c18_check_pattern(pattern, words, counter, stats, True)
    by_key, samples, fp = {}, {}, {}
    for f in fails:
        k = f["known_key"] or "UNEXPLAINED"
        by_key[k] = by_key.get(k, 0) + 1
        fp.setdefault(k, set()).add(pattern)
        if len(samples.setdefault(k, [])) < 3:
            samples[k].append(f)
    clear_caches()
    return dict(evals=counter[0], cases=len(words), by_key=by_key, samples=samples, selfcheck=stats["selfcheck"],
                failing_patterns={k: sorted(v) for k, v in fp.items()}, npatterns=0)


# =====================================================================================================
# 6. C19: reference search, defective greedy search, classification
# =====================================================================================================


def ref_min_len(required, sems, alphabet, depth_limit):
    """Length of a shortest sequence that contains `required` as a subsequence, is accepted by every
    semantics in `sems`, and (if depth_limit is not None) has an embedding of `required` with at most
    depth_limit consecutive inserted symbols anywhere.  None if there is none.  Complete BFS with a visited set."""
    n = len(required)
    start = (0, tuple(s.start for s in sems), 0)
    seen = {start}
    layer = [start]
    length = 0
    while layer:
        nxt = []
        for (pos, sts, k) in layer:
            if pos == n and all(sem.complete(st) for sem, st in zip(sems, sts)):
                return length
            moves = []
            if pos < n:
                moves.append((required[pos], pos + 1, 0))
            if depth_limit is None or k < depth_limit:
                for x in alphabet:
                    moves.append((x, pos, 0 if depth_limit is None else k + 1))
            for (x, p2, k2) in moves:
                new = []
                for sem, st in zip(sems, sts):
                    s2 = sem.step(st, x)
                    if s2 is None:
                        new = None
                        break
                    new.append(s2)
                if new is None:
                    continue
                node = (p2, tuple(new), k2)
                if node not in seen:
                    seen.add(node)
                    nxt.append(node)
        layer = nxt
        length += 1
    return None


def is_subsequence(req, seq):
    it = iter(seq)
    return all(any(x == y for y in it) for x in req)


def accepts(sem, seq):
    st = sem.start
    for s in seq:
        st = sem.step(st, s)
        if st is None:
            return False
    return sem.complete(st)


def property_verdict(required, sems, alphabet, depth_limit, outcome):
    """None if `outcome` satisfies C19 under the given semantics, else a dict describing the broken clause.
    outcome = ("ok", [symbols]) | ("impossible",) | ("exception", text)"""
    if outcome[0] == "exception":
        return dict(kind="exception", expected="a list or ImpossibleSequenceError", observed=outcome[1])
    lim = ref_min_len(required, sems, alphabet, depth_limit)
    if outcome[0] == "impossible":
        if lim is not None:
            return dict(kind="impossible-but-exists", expected="a sequence of length %d exists with at most %d consecutive insertions" % (lim, depth_limit),
                        observed="ImpossibleSequenceError")
        return None
    seq = outcome[1]
    if not isinstance(seq, list) or not all(isinstance(x, str) for x in seq):
        return dict(kind="not-a-list-of-symbols", expected="list of str", observed=repr(seq))
    if not is_subsequence(required, seq):
        return dict(kind="required-symbols-not-preserved", expected="required list is a subsequence of the result", observed=seq)
    for i, sem in enumerate(sems):
        if not accepts(sem, seq):
            return dict(kind="result-does-not-match-pattern", expected="pattern #%d matches the result" % i, observed=seq)
    if lim is not None and len(seq) > lim:
        return dict(kind="not-shortest", expected="length %d" % lim, observed=seq)
    return None


def greedy_search(required, sems, symbol_priority, depth_limit, commit=True, node_budget=400000):
    """DELIBERATELY DEFECTIVE reference (D7) when commit=True: breadth-first completion that, whenever the next
    required symbol is allowed by every pattern, takes it and never considers an insertion at that point.
    With commit=False the same search also tries the insertions (and de-duplicates search states).
    Returns ("ok", seq) | ("impossible",) | ("budget",)."""
    from collections import deque

    required = list(required)
    queue = deque([([], 0, tuple(s.start for s in sems), depth_limit)])
    seen = set()
    budget = node_budget
    while queue:
        budget -= 1
        if budget < 0:
            return ("budget",)
        so_far, pos, sts, this_depth = queue.popleft()
        vs = [sem.vns(st) for sem, st in zip(sems, sts)]
        if pos == len(required):
            if all(sem.complete(st) for sem, st in zip(sems, sts)):
                return ("ok", so_far)
        else:
            x = required[pos]
            if all(x in v or WILDCARD in v for v in vs):
                new = tuple((sem.step(st, x) or st) for sem, st in zip(sems, sts))
                node = (pos + 1, new, depth_limit)
                if commit or node not in seen:
                    seen.add(node)
                    queue.append((so_far + [x], pos + 1, new, depth_limit))
                if commit:
                    continue
        if this_depth <= 0:
            continue
        cand = set([WILDCARD])
        for v in vs:
            symbols = set(v)
            symbols.discard(END_OF_SEQUENCE)
            if WILDCARD in symbols and WILDCARD in cand:
                cand.update(symbols)
            elif WILDCARD in cand:
                cand = symbols
            elif WILDCARD in symbols:
                pass
            else:
                cand.intersection_update(symbols)
        if not cand:
            continue
        if WILDCARD in cand and len(symbol_priority) > 0:
            cand.remove(WILDCARD)
            cand.update(symbol_priority)
        order = sorted(cand, key=lambda sym: ((symbol_priority.index(sym), "") if sym in symbol_priority else (len(symbol_priority), sym)))
        for c in order:
            new = tuple((sem.step(st, c) or st) for sem, st in zip(sems, sts))
            node = (pos, new, this_depth - 1)
            if commit or node not in seen:
                seen.add(node)
                queue.append((so_far + [c], pos, new, this_depth - 1))
    return ("impossible",)


def c19_run_real(required, patterns, symbol_priority, depth_limit, counter):
    m = real()
    counter[0] += 1
    try:
        r = m.make_matching_sequence(list(required), *patterns, symbol_priority=list(symbol_priority), depth_limit=depth_limit)
    except m.ImpossibleSequenceError:
        return ("impossible",)
    except Exception:
        return ("exception", traceback.format_exc()[-1500:])
    return ("ok", r)


def c19_case(required, patterns, symbol_priority, depth_limit, counter, stats):
    """Returns None (held) or a failure record."""
    trees = [own_parse(p) for p in patterns]
    sems_c = [SemCorrect(t) for t in trees]
    names = set()
    for t in trees:
        names |= tree_names(t)
    alphabet = sorted(names | set(symbol_priority) | set(required)) + [WILDCARD]
    # WILDCARD as an inserted symbol stands for 'a symbol named by no pattern' (it can only be matched by '.')
    outcome = c19_run_real(required, patterns, symbol_priority, depth_limit, counter)
    bad = property_verdict(required, sems_c, alphabet, depth_limit, outcome)
    if outcome[0] == "ok" and bad is None:
        unl = ref_min_len(required, sems_c, alphabet, None)
        if unl is not None and isinstance(outcome[1], list) and len(outcome[1]) > unl:
            stats["shorter_only_beyond_limit"] += 1
    stats[outcome[0]] = stats.get(outcome[0], 0) + 1
    if bad is None:
        return None
    rec = dict(required=list(required), patterns=list(patterns), symbol_priority=list(symbol_priority), depth_limit=depth_limit,
               observed_outcome=list(outcome), known_key=None)
    rec.update(bad)
    if outcome[0] != "exception":
        obs = (outcome[0],) + ((list(outcome[1]),) if outcome[0] == "ok" else ())
        g_c = greedy_search(required, sems_c, list(symbol_priority), depth_limit, commit=True)
        if g_c == obs:
            nc = greedy_search(required, sems_c, list(symbol_priority), depth_limit, commit=False)
            if nc[0] != "budget" and property_verdict(required, sems_c, alphabet, depth_limit, nc) is None:
                rec["known_key"] = "C19-D7-greedy-no-backtrack"
                rec["same_search_without_commitment"] = list(nc)
        if rec["known_key"] is None:
            sems_d = [SemNFA(t, True) for t in trees]
            if property_verdict(required, sems_d, alphabet, depth_limit, outcome) is None:
                rec["known_key"] = "C19-inherits-C18-D4"
            elif greedy_search(required, sems_d, list(symbol_priority), depth_limit, commit=True) == obs:
                rec["known_key"] = "C19-D7-and-C18-D4-combined"
    return rec


def _reserve_frame_stack_then_call(fn, arg):
    return fn(arg)


def _make_frame_stack_reserver():
    """PERFORMANCE ONLY, no influence on any result.  CPython >= 3.11 keeps interpreter frames in 16 KiB chunks that are
    mmap'ed when a call crosses the end of the current chunk and munmap'ed as soon as that call returns; the recursive
    copy.deepcopy of the matchers inside make_matching_sequence crosses such a boundary again and again (tens of
    mmap/munmap pairs per call, and munmap is slow on the evaluation VM: more system time than user time).  Calling the
    worker through a function whose code object declares a very large evaluation stack makes the interpreter allocate ONE
    large chunk (4 MiB of address space, untouched pages are never faulted in) in which all nested frames then live."""
    try:
        import types

        code = _reserve_frame_stack_then_call.__code__.replace(co_stacksize=(1 << 18) + 4096)
        return types.FunctionType(code, globals(), "_reserve_frame_stack_then_call")
    except Exception:  # other interpreter / other code-object layout: plain call, only slower
        return _reserve_frame_stack_then_call


_RESERVED_CALL = _make_frame_stack_reserver()


def _c19_task(cases):
    return _RESERVED_CALL(_c19_task_body, cases)


def _c19_task_body(cases):
    counter = [0]
    stats = {"shorter_only_beyond_limit": 0}
    by_key, samples, fp = {}, {}, {}
    for (required, patterns, prio, dl) in cases:
        rec = c19_case(required, patterns, prio, dl, counter, stats)
        if rec is None:
            continue
        k = rec["known_key"] or "UNEXPLAINED"
        by_key[k] = by_key.get(k, 0) + 1
        fp.setdefault(k, set()).add(" && ".join(patterns))
        if len(samples.setdefault(k, [])) < 4:
            samples[k].append(rec)
    clear_caches()
    return dict(evals=counter[0], cases=len(cases), by_key=by_key, samples=samples, stats=stats,
                failing_patterns={k: sorted(v) for k, v in fp.items()}, npatterns=0)


C19_KNOWN = {
    "C19-D7-greedy-no-backtrack": "make_matching_sequence's outcome breaks soundness/shortest/impossibility and is reproduced exactly by the search that "
                                  "commits to matching a required symbol as soon as it is allowed (no insertion is tried there), run on correct pattern "
                                  "semantics; the same search without the commitment satisfies the property (defect D7)",
    "C19-inherits-C18-D4": "make_matching_sequence's outcome is wrong for the patterns' real meaning but satisfies the property completely when the patterns "
                           "are read with the bidirectional-epsilon automaton: inherited from matcher defect D4",
    "C19-D7-and-C18-D4-combined": "make_matching_sequence's outcome is explained by neither defect alone but is reproduced exactly by the committing search run "
                                  "on the bidirectional-epsilon automaton (D7 and D4 together)",
}

D7_WITNESSES = [
    (("a",), ("(b a) | (a c c c c)",), (), 3),
    (("a",), ("(b a) | (a c c)",), (), 3),
]


def _children_cpu():
    import resource

    r = resource.getrusage(resource.RUSAGE_CHILDREN)
    return r.ru_utime + r.ru_stime


def _case_dict(c):
    return dict(required=list(c[0]), patterns=list(c[1]), symbol_priority=list(c[2]), depth_limit=c[3])


def _feasible(required, patterns):
    """Own reference only: does ANY completion exist (no insertion limit)?  Used to bias the samples towards non-trivial cases."""
    trees = [own_parse(p) for p in patterns]
    names = set()
    for t in trees:
        names |= tree_names(t)
    return ref_min_len(required, [SemCorrect(t) for t in trees], sorted(names | set(required)) + [WILDCARD], None) is not None


# ---- C19: the 'two alternatives' family ---------------------------------------------------------------
# Patterns  W(X | Y)  where X and Y are plain concatenations (words over a small alphabet, '.' = wildcard) that
# each ADMIT the required list (the list is a subsequence of the word when '.' stands for any symbol), so each
# alternative on its own is a completion of the required list: insertions are needed BEFORE, BETWEEN and AFTER
# the required symbols, the two alternatives differ in total length and in where the insertions go, and the
# depth limit decides which of them (none, the longer only, the shorter only, both) is reachable.  W is nothing,
# a common prefix / suffix, or one level of grouping under ? or *.  Oracle: ref_min_len / property_verdict above.


def _words(alpha, lo, hi):
    return [w for n in range(lo, hi + 1) for w in itertools.product(alpha, repeat=n)]


def _admits(word, req):
    """req is a subsequence of word when '.' in the word matches any symbol (leftmost matching is complete for this)."""
    i = 0
    for x in word:
        if i < len(req) and (x == req[i] or x == WILDCARD):
            i += 1
    return i == len(req)


def _leaves(word):
    return [("any",) if x == WILDCARD else ("sym", x) for x in word]


def _cat_chain(items):
    t = items[-1]
    for x in reversed(items[:-1]):
        t = ("cat", x, t)
    return t


# (prefix word, unary operator or None, suffix word)
ALT_WRAPPERS = (
    ("a", None, ""), (".", None, ""), ("", None, "c"), ("", None, "."), ("c", None, "a"),
    ("", "opt", ""), ("", "star", ""), ("a", "star", "c"), (".", "opt", "."),
)
ALT_NO_WRAPPER = ("", None, "")

# second patterns for the pattern-PAIR blocks (each constrains length, first/last symbol, alphabet or the place of b)
ALT_SECOND_PATTERNS = (".*", ". . .+", ". . . .+", ".* a", "c .*", "(a | b)*", ".* b .", "(. b .?) | (. . b)")

_ALT_RENDER = {}


def alt_pattern(x, y, wrapper=ALT_NO_WRAPPER):
    """Pattern string for  prefix (X | Y)<unary> suffix , rendered from an own tree with flat chains and every
    concatenation inside the alternation parenthesised; checked to be read back by the own parser as the same language."""
    key = (x, y, wrapper)
    s = _ALT_RENDER.get(key)
    if s is None:
        pre, un, suf = wrapper
        core = ("alt", _cat_chain(_leaves(x)), _cat_chain(_leaves(y)))
        if un is not None:
            core = (un, core)
        t = _cat_chain(_leaves(pre) + [core] + _leaves(suf))
        s = render_flat(t)
        if to_term(own_parse(s)) != to_term(t):
            raise RuntimeError("own renderer/parser disagree on %r" % (s,))
        _ALT_RENDER[key] = s
    return s


def _one_b_words(fillers, maxlen):
    """p b s with p, s over the filler alphabet, total length <= maxlen."""
    return [w for w in _words(tuple(fillers) + ("b",), 1, maxlen) if w.count("b") == 1]


def alt_family_blocks(tier, rng):
    """[(name, domain text, exhaustive, cases)] -- every case is (required, patterns, symbol_priority, depth_limit)."""
    P0, P1 = (), ("c", "b")
    both = (P0, P1)
    thorough = tier != "quick"
    blocks = []
    seen = set()

    def emit(cases, req, pats, combos):
        for (pr, dl) in combos:
            c = (tuple(req), tuple(pats), pr, dl)
            if c not in seen:
                seen.add(c)
                cases.append(c)

    def grid(prios, dls):
        return [(pr, dl) for pr in prios for dl in dls]

    def show(combos):
        return "(symbol_priority, depth_limit) in %s" % [(list(p), d) for (p, d) in sorted(set(combos))]

    def pairs(ws):
        return list(itertools.combinations(ws, 2))

    # A. one required symbol, no wildcard
    cases = []
    ws = [w for w in _words("abc", 1, 4) if "b" in w]
    pa = pairs(ws)
    combos = grid(both, (0, 1, 2, 3, 4)) if thorough else grid((P0,), (0, 1, 2, 3)) + grid((P1,), (1, 2, 3))
    for (x, y) in pa:
        emit(cases, ("b",), (alt_pattern(x, y),), combos)
    blocks.append(("C19-alt-one-required-symbol",
                   "EXHAUSTIVE: required [b]; pattern (X) | (Y) for every unordered pair X != Y of words of length 1..4 over {a, b, c} that contain b "
                   "[%d words, %d pairs]; %s" % (len(ws), len(pa), show(combos)), True, cases))

    # B. one required symbol, wildcards (also in place of the required symbol)
    cases = []
    ws = [w for w in _words("abc.", 1, 3) if _admits(w, ("b",))]
    pa = pairs(ws)
    combos = grid(both, (1, 2, 3))
    for (x, y) in pa:
        emit(cases, ("b",), (alt_pattern(x, y),), combos)
    ws4 = _one_b_words("ac.", 4)
    pa4 = [(x, y) for (x, y) in pairs(ws4) if WILDCARD in x + y]
    combos4 = grid(both, (1, 2, 3)) if thorough else [(P0, 3), (P1, 2)]
    for (x, y) in pa4:
        emit(cases, ("b",), (alt_pattern(x, y),), combos4)
    blocks.append(("C19-alt-one-required-symbol-wildcards",
                   "EXHAUSTIVE: required [b]; pattern (X) | (Y) for (i) every unordered pair X != Y of words of length 1..3 over {a, b, c, '.'} that admit [b] "
                   "(contain b or a wildcard) [%d words, %d pairs]; %s; (ii) every unordered pair of words p b s, p and s over {a, c, '.'}, |p| + |s| <= 3, with at least one "
                   "wildcard in the pair [%d words, %d pairs]; %s" % (len(ws), len(pa), show(combos), len(ws4), len(pa4), show(combos4)), True, cases))

    # C. two required symbols
    cases = []
    parts = []
    req_specs = [(("b", "b"), both, True), (("b", "a"), both, True), (("a", "b"), both if thorough else (P0,), thorough), (("b", "c"), both if thorough else (P0,), thorough)]
    for req, prios, with_wild in req_specs:
        combos = grid(prios, (1, 2, 3))
        ws = [w for w in _words("abc", 2, 4) if _admits(w, req)]
        pa = pairs(ws)
        for (x, y) in pa:
            emit(cases, req, (alt_pattern(x, y),), combos)
        txt = "required %s: words of length 2..4 over {a, b, c} admitting it [%d words, %d pairs]" % (list(req), len(ws), len(pa))
        if with_wild:
            ws = [w for w in _words("abc.", 2, 3) if _admits(w, req)]
            pa = pairs(ws)
            for (x, y) in pa:
                emit(cases, req, (alt_pattern(x, y),), combos)
            txt += " and words of length 2..3 over {a, b, c, '.'} admitting it [%d words, %d pairs]" % (len(ws), len(pa))
        parts.append(txt + ", " + show(combos))
    blocks.append(("C19-alt-two-required-symbols", "EXHAUSTIVE: pattern (X) | (Y) for every unordered pair X != Y; " + "; ".join(parts), True, cases))

    # D. common prefix / suffix, one level of ? or *
    cases = []
    ws = _one_b_words("ac", 4)
    pa = [(x, y) for (x, y) in pairs(ws) if thorough or len(x) != len(y)]
    dls = (1, 2, 3, 4) if thorough else (2, 3, 4)
    for w in ALT_WRAPPERS:
        for (x, y) in pa:
            emit(cases, ("b",), (alt_pattern(x, y, w),), grid(both if WILDCARD in w[0] + w[2] else (P0,), dls))
    for w in ALT_WRAPPERS:
        if w[1] == "star":
            for (x, y) in pa:
                emit(cases, ("b", "b"), (alt_pattern(x, y, w),), grid((P0,), dls))
    blocks.append(("C19-alt-prefix-suffix-group",
                   "EXHAUSTIVE: required [b]; patterns  pre ((X) | (Y))u suf  for every unordered pair X != Y%s of words p b s, p and s over {a, c}, |p| + |s| <= 3 [%d words, %d pairs] "
                   "x (pre, u, suf) in %s; depth_limit in %s; symbol_priority [] (and [c, b] where pre/suf contain a wildcard); the two starred forms also with required [b, b] "
                   "(two iterations of the group)" % ("" if thorough else " of DIFFERENT length", len(ws), len(pa), [list(w) for w in ALT_WRAPPERS], list(dls)), True, cases))

    # E. two patterns that must both match
    cases = []
    ws = _one_b_words("ac", 3)
    pa = pairs(ws)
    combos = grid(both, (1, 2, 3))
    for q in ALT_SECOND_PATTERNS:
        for (x, y) in pa:
            p = alt_pattern(x, y)
            emit(cases, ("b",), (p, q), combos)
            emit(cases, ("b",), (q, p), combos)
    blocks.append(("C19-alt-pattern-pairs",
                   "EXHAUSTIVE: required [b]; the two patterns ((X) | (Y), Q) and (Q, (X) | (Y)) for every unordered pair X != Y of words p b s, p and s over {a, c}, |p| + |s| <= 2 "
                   "[%d words, %d pairs] x Q in %s; %s" % (len(ws), len(pa), list(ALT_SECOND_PATTERNS), show(combos)), True, cases))

    # F. seeded sample of the large family
    cases = []
    n = 60000 if thorough else 10000
    big = _words("abc.", 1, 4)
    reqs = [r for k in (1, 2) for r in itertools.product("abc", repeat=k)]
    by_req = {r: [w for w in big if _admits(w, r)] for r in reqs}
    wrappers = (ALT_NO_WRAPPER,) * 3 + ALT_WRAPPERS
    while len(cases) < n:
        r = rng.choice(reqs)
        ws = by_req[r]
        x, y = rng.choice(ws), rng.choice(ws)
        if x == y:
            continue
        pats = [alt_pattern(x, y, rng.choice(wrappers))]
        u = rng.random()
        if u < 0.25:
            pats.append(rng.choice(ALT_SECOND_PATTERNS))
        elif u < 0.4:
            x2, y2 = rng.choice(ws), rng.choice(ws)
            if x2 != y2:
                pats.append(alt_pattern(x2, y2, rng.choice(wrappers)))
        if len(pats) == 2 and rng.random() < 0.5:
            pats.reverse()
        emit(cases, r, pats, [(rng.choice(both), rng.choice((0, 1, 2, 3, 3, 4)))])
    blocks.append(("C19-alt-sampled",
                   "SAMPLED (not exhaustive; seed-derived): %d cases; required list of length 1..2 over {a, b, c}; X != Y words of length 1..4 over {a, b, c, '.'} admitting it; "
                   "pattern pre ((X) | (Y))u suf with no wrapper (weight 3) or one of the %d wrappers; with probability 1/4 a second pattern from the list of the pattern-pairs block, "
                   "with probability 0.15 a second pattern of the same family (either order); depth_limit in {0, 1, 2, 3, 4}; symbol_priority in {[], [c, b]}" % (len(cases), len(ALT_WRAPPERS)),
                   False, cases))
    return blocks


def check_c19(rep, tier, seed):
    t0 = time.time()
    cpu0 = _children_cpu()
    frontend.ensure_repo_on_path()
    real()
    rng = random.Random(seed * 7919 + 19)
    rng_alt = random.Random(seed * 104729 + 1919)
    if tier == "quick":
        exh_blocks, samp_size, samp_req, n_single_samples, pair_exh_size, pair_exh_req, n_pair_samples, max_pics = [(3, 3)], 4, 3, 3000, 1, 3, 5000, 3
    else:
        exh_blocks, samp_size, samp_req, n_single_samples, pair_exh_size, pair_exh_req, n_pair_samples, max_pics = [(4, 3), (3, 4)], 5, 4, 60000, 2, 3, 60000, 5
    limits = (1, 2, 3)
    live_limits = (1, 3) if tier == "quick" else (1, 2, 3)
    prios = ((), ("c", "b"))

    def req_lists(n):
        return [w for k in range(n + 1) for w in itertools.product("abc", repeat=k)]

    pats = {}
    for n in range(1, samp_size + 1):
        pats[n] = [render_explicit(t) for t in enum_trees(n, ENUM_LEAVES) if eos_in_scope(t)]

    def upto(n):
        return [p for k in range(1, n + 1) for p in pats[k]]

    cases_single, seen = [], set()
    for (size, rl) in exh_blocks:
        for p in upto(size):
            for r in req_lists(rl):
                if (p, r) in seen:
                    continue
                seen.add((p, r))
                for pr in prios:
                    for dl in limits:
                        cases_single.append((r, (p,), pr, dl))
    small = upto(pair_exh_size)
    cases_pair = [(r, (p, q), pr, dl) for p in small for q in small for r in req_lists(pair_exh_req) for pr in prios for dl in limits]

    def sample(n, k, min_size):
        out, infeasible = [], 0
        pool_p = upto(samp_size)
        big = [p for m in range(min_size, samp_size + 1) for p in pats[m]]
        reqs = req_lists(samp_req)
        while len(out) < n:
            ps = tuple([rng.choice(big)] + [rng.choice(pool_p) for _ in range(k - 1)])
            if k > 1 and rng.random() < 0.5:
                ps = ps[::-1]
            r = rng.choice(reqs)
            if not _feasible(r, ps):
                if rng.random() >= 0.25:
                    continue
                infeasible += 1
            out.append((r, ps, rng.choice(prios), rng.choice(limits)))
        return out, infeasible

    max_exh = max(s for s, _ in exh_blocks)
    cases_ssamp, ssamp_inf = sample(n_single_samples, 1, min(samp_size, max_exh + 1))
    cases_psamp, psamp_inf = sample(n_pair_samples, 2, 1)
    clear_caches()
    # live combinations, as encoder/sequence.py builds them
    level, literal, prio = live_patterns()
    prio = tuple(prio if prio is not None else ["padding_data", "sequence_header"])
    generic = [p for (fn, path, p) in literal if fn == "make_matching_sequence"]
    tc = []
    for (fn, path, p) in literal:
        if fn == "make_sequence" and p not in tc:
            tc.append(p)
    pic_types = [n for n in data_unit_names() if "picture" in n]
    pic_lists = [()] + [(t,) * k for t in pic_types for k in range(1, max_pics + 1)]
    level_distinct = []
    for _, p in level:
        if p not in level_distinct:
            level_distinct.append(p)
    cases_live = []
    for lv in level_distinct:
        for extra in [()] + [(p,) for p in tc]:
            for pics in pic_lists:
                for dl in live_limits:
                    cases_live.append((pics, tuple(generic) + (lv,) + extra, prio, dl))
    cases_wit = list(D7_WITNESSES)
    alt_blocks = alt_family_blocks(tier, rng_alt)
    clear_caches()

    group_wall = {}

    def run(pool, cases, chunk):
        t1 = time.time()
        r = _merge_c19(_pmap(pool, _c19_task, _chunks(cases, chunk), tier))
        group_wall[len(group_wall)] = round(time.time() - t1, 1)
        return r

    pool = _pool(C19_QUICK_WORKERS if tier == "quick" else None)
    try:
        tot_w = run(pool, cases_wit, 1)
        tot_live = run(pool, cases_live, 3)
        tot_s = run(pool, cases_single, 150)
        tot_ss = run(pool, cases_ssamp, 100)
        tot_p = run(pool, cases_pair, 150)
        tot_ps = run(pool, cases_psamp, 100)
        tot_alt = [run(pool, cases, 120) for (_, _, _, cases) in alt_blocks]
    finally:
        pool.close()
        pool.join()
    combos = "depth_limit in {1,2,3} x symbol_priority in {[], [c, b]}"

    def note(tot, extra=""):
        return "outcomes %s; failing cases by class: %s%s" % ({k: v for k, v in tot["stats"].items() if k != "shorter_only_beyond_limit"}, tot["by_key"] or "none", extra)

    rep.add_bounded("C19-single-pattern-exhaustive",
                    "EXHAUSTIVE: " + "; plus ".join("every in-scope pattern tree with <= %d nodes over {a, b, '.', '$'} [%d patterns, fully parenthesised] x every required list of "
                                                   "length <= %d over {a, b, c} [%d lists]" % (s, len(upto(s)), rl, len(req_lists(rl))) for (s, rl) in exh_blocks) + "; x " + combos,
                    evaluations=tot_s["evals"], exhaustive=True, distinct=tot_s["stats"].get("ok", 0),
                    samples=[_case_dict(c) for c in cases_single[:: max(1, len(cases_single) // 3)][:3]], note=note(tot_s))
    rep.add_bounded("C19-single-pattern-sampled",
                    "SAMPLED (not exhaustive; seed %d): %d cases, one in-scope pattern tree of %d..%d nodes, a required list of length <= %d over {a,b,c}, %s; candidates for which the "
                    "own reference finds no completion at all are kept only with probability 1/4 (%d kept)" % (seed, len(cases_ssamp), min(samp_size, max_exh + 1), samp_size, samp_req, combos, ssamp_inf),
                    evaluations=tot_ss["evals"], exhaustive=False, distinct=tot_ss["stats"].get("ok", 0),
                    samples=[_case_dict(c) for c in cases_ssamp[:2]], note=note(tot_ss))
    rep.add_bounded("C19-pattern-pairs-exhaustive",
                    "EXHAUSTIVE: every ordered pair of in-scope pattern trees with <= %d nodes [%d patterns, %d pairs] x every required list of length <= %d over {a,b,c} x %s"
                    % (pair_exh_size, len(small), len(small) ** 2, pair_exh_req, combos),
                    evaluations=tot_p["evals"], exhaustive=True, distinct=tot_p["stats"].get("ok", 0), note=note(tot_p))
    rep.add_bounded("C19-pattern-pairs-sampled",
                    "SAMPLED (not exhaustive; seed %d): %d cases, an ordered pair of in-scope pattern trees with <= %d nodes [%d patterns], a required list of length <= %d over {a,b,c}, %s; "
                    "candidates without any completion kept only with probability 1/4 (%d kept)" % (seed, len(cases_psamp), samp_size, len(upto(samp_size)), samp_req, combos, psamp_inf),
                    evaluations=tot_ps["evals"], exhaustive=False, distinct=tot_ps["stats"].get("ok", 0),
                    samples=[_case_dict(c) for c in cases_psamp[:2]], note=note(tot_ps))
    rep.add_bounded("C19-live-combinations",
                    "every distinct live level pattern [%d of %d table rows] combined, as encoder.sequence.make_sequence does, with %s and with no / each test-case pattern %s; "
                    "required lists: [] and k copies (k = 1..%d) of each of %s; symbol_priority %s (read from the encoder's call); depth_limit in %s (3 is what the encoder uses)"
                    % (len(level_distinct), len(level), generic, tc, max_pics, pic_types, list(prio), list(live_limits)),
                    evaluations=tot_live["evals"], exhaustive=True, distinct=tot_live["stats"].get("ok", 0),
                    samples=[_case_dict(c) for c in cases_live[:: max(1, len(cases_live) // 3)][:3]], note=note(tot_live))
    rep.add_bounded("C19-design-witnesses", "the two D7 witnesses of DESIGN.md section 7, written with explicit parentheses",
                    evaluations=tot_w["evals"], exhaustive=True, distinct=tot_w["cases"],
                    samples=[_case_dict(c) for c in cases_wit], note=note(tot_w))
    for (name, domain, exhaustive, cases), tot in zip(alt_blocks, tot_alt):
        rep.add_bounded(name, domain, evaluations=tot["evals"], exhaustive=exhaustive, distinct=tot["stats"].get("ok", 0),
                        samples=[_case_dict(c) for c in cases[:: max(1, len(cases) // 3)][:3]], note=note(tot))
    parts = (("witnesses", tot_w), ("live", tot_live), ("single", tot_s), ("single-sampled", tot_ss), ("pairs", tot_p), ("pairs-sampled", tot_ps)) + tuple(
        (name[len("C19-"):], tot) for (name, _, _, _), tot in zip(alt_blocks, tot_alt))
    rep.extra_coverage["C19_failing_cases_by_class"] = {n: t["by_key"] for n, t in parts}
    rep.extra_coverage["C19_distinct_nontrivial_means"] = "calls in which the real function returned a sequence (the rest raised ImpossibleSequenceError)"
    rep.extra_coverage["C19_results_longer_than_a_sequence_needing_more_consecutive_insertions_than_depth_limit"] = sum(
        t["stats"].get("shorter_only_beyond_limit", 0) for _, t in parts)
    rep.extra_coverage["C19_wall_s"] = round(time.time() - t0, 1)
    rep.extra_coverage["C19_wall_s_by_part"] = dict(zip([n for n, _ in parts], [group_wall[i] for i in range(len(parts))]))
    rep.extra_coverage["C19_worker_cpu_s"] = round(_children_cpu() - cpu0, 1)
    for n, t in parts:
        _report(rep, "C19-" + n, t, C19_KNOWN, max_unexplained=3)


def _merge_c19(results):
    tot = _merge(results)
    st = {}
    for r in results:
        for k, v in r["stats"].items():
            st[k] = st.get(k, 0) + v
    tot["stats"] = st
    return tot


# =====================================================================================================
# 7. registration
# =====================================================================================================

_COMMON_ASSUMPTIONS = [
    "BOUNDED stand-in, not a proof: nothing is claimed beyond the enumerated/sampled domains listed under coverage.bounded_checks",
    "trusted: this module's own reference semantics of the pattern language (Brzozowski derivatives over normalised terms; '$' is an end-of-input "
    "letter that no symbol and no wildcard matches, a word w matches iff w$^k is in the language for some k); it is cross-checked on every enumerated "
    "trace against a second own implementation (directed Thompson automaton) and the run aborts with a checker error if the two disagree",
    "pattern strings are rendered from own syntax trees and re-read with an own parser; the real tokenizer/parser is exercised only as part of Matcher(pattern). "
    "Patterns relying on the relative precedence of '|' and concatenation without parentheses are NOT generated (the docstring leaves it undefined); "
    "empty patterns, empty groups '()' and empty alternation branches are not generated",
    "symbols are str; the END_OF_SEQUENCE ('') and WILDCARD ('.') constants are never fed to match_symbol by the C18 check",
]

REGISTER = {
    "C18": dict(
        extra=[check_c18],
        level="other",
        assumptions=_COMMON_ASSUMPTIONS + [
            "C18 bounds: pattern trees <= 5 nodes (quick) / <= 6 (thorough) over {a,b,'.','$'}; words of length <= 4 / <= 5 over {a,b,c}; the live level and "
            "call-site patterns with words of length <= 4 / <= 5 over the data-unit names. Larger patterns, longer words and other alphabets are not covered",
            "valid_next_symbols() is read as a description of a symbol set: END_OF_SEQUENCE is listed iff the word so far matches; WILDCARD is listed iff a symbol "
            "named nowhere in the pattern keeps a match possible; a named symbol keeps a match possible iff it or WILDCARD is listed; nothing else is listed",
            "a failing case is attributed to the recorded defect D4 only if the own bidirectional-epsilon Thompson automaton reproduces the whole observed trace exactly",
        ],
        manifest=dict(
            category="other",
            technique="bounded exhaustive comparison of the real Matcher with Brzozowski-derivative semantics (own pattern generator, own parser, own automaton "
                      "cross-check); explained-by predicate for the known bidirectional-epsilon defect",
            text="Bounded, not a proof. For every pattern tree of <= 5 (quick) / <= 6 (thorough) nodes over {a, b, ., $} with ?, *, +, |, concatenation and grouping "
                 "($ only where everything after it is optional), and every symbol word of length <= 4 / <= 5 over {a, b, c}: after every symbol the real "
                 "match_symbol answer, is_complete() and valid_next_symbols() agree with derivative semantics (prefix-of-a-match, whole-word match, exactly the "
                 "symbols that keep a match possible). Same for the live level patterns and every pattern literal used in the package, over all words of length "
                 "<= 4 / <= 5 of data-unit names.",
            note="Level 'other' (bounded). Failures reproduced exactly by the bidirectional-epsilon automaton are the recorded finding D4; anything else is a VIOLATION.",
        ),
    ),
    "C19": dict(
        extra=[check_c19],
        level="other",
        assumptions=_COMMON_ASSUMPTIONS + [
            "C19 bounds (quick / thorough). EXHAUSTIVE: single patterns of <= 3 nodes x required lists of length <= 3 over {a,b,c} / single patterns of <= 4 nodes x lists "
            "of length <= 3 plus patterns of <= 3 nodes x lists of length <= 4; ordered pattern pairs of <= 1 / <= 2 nodes x lists of length <= 3. Only SAMPLED with the run's "
            "seed (biased towards cases that have some completion): 3000 / 60000 single patterns of 4 / 5 nodes and 5000 / 60000 ordered pairs of patterns of <= 4 / <= 5 nodes, "
            "lists of length <= 3 / <= 4. Everywhere depth_limit in {1,2,3} and symbol_priority in {[], [c,b]}. Plus the live level x encoder x test-case pattern "
            "combinations with 0..3 / 0..5 identical picture or fragment symbols (depth_limit {1,3} / {1,2,3}) and the two DESIGN.md D7 witnesses",
            "C19 'two alternatives' family (blocks C19-alt-*; the exact word sets, pair counts and (symbol_priority, depth_limit) grids are stated in each block's domain text): "
            "patterns pre ((X) | (Y))u suf where X != Y are plain concatenations of length 1..4 over {a, b, c, '.'} that each admit the required list as a subsequence "
            "('.' standing for any symbol); EXHAUSTIVE over unordered pairs {X, Y} for required [b] (no wildcard: all words with a b; with wildcards: all words of length <= 3 and "
            "all p b s of length <= 4), for two required symbols ([b,b], [b,a], [a,b], [b,c]; words without wildcard up to length 4, with wildcard up to length 3), with 9 "
            "prefix/suffix/?/* wrappers (quick: only pairs of different length), and as one of TWO patterns together with 8 fixed second patterns (both orders); only the "
            "unordered pair is enumerated (X | Y, not also Y | X); a seeded SAMPLE (10000 / 60000) covers the rest of the family (all 12 required lists of length 1..2, "
            "length-4 words with wildcards, wrappers, two patterns of the family, depth_limit 0..4). Longer alternatives, more than two alternatives and deeper nesting are not covered",
            "'shortest' is judged among the sequences that have an embedding of the required list with at most depth_limit consecutive inserted symbols (the search space the "
            "function documents); results that are longer than some sequence needing MORE consecutive insertions are counted in the evidence but not reported as violations",
            "WILDCARD in a returned sequence is read as 'a symbol named by no pattern' (it must be matched by a '.' in every pattern); the preference among equally "
            "short results (symbol_priority order) is not part of the property and is not checked",
            "a returned sequence is not required to respect depth_limit itself; a result where impossibility was permitted is accepted if it is sound and shortest",
            "failing cases are attributed to D7 / to the inherited D4 / to both only by the explained-by predicates described in this module's docstring",
            "encoder/sequence.py is only READ (with ast) to obtain the pattern literals and the symbol_priority it passes; make_sequence itself is not executed, so a change of "
            "how the encoder composes its arguments is not covered here",
            "termination is not checked: a call that does not return within the run's time limit is a checker error, not a verdict",
        ],
        manifest=dict(
            category="other",
            technique="bounded exhaustive + seeded-sample comparison of the real make_matching_sequence with an own complete breadth-first reference search over "
                      "derivative states; explained-by predicates (greedy-commit search; bidirectional-epsilon automaton) for the known defects",
            text="Bounded, not a proof. Exhaustively for single patterns of <= 3 (quick) / <= 4 (thorough) nodes and ordered pattern pairs of <= 1 / <= 2 nodes with all "
                 "required lists of length <= 3 over {a,b,c} (thorough also length 4 for patterns of <= 3 nodes), for a seeded sample of larger single patterns and pairs "
                 "(<= 4 / <= 5 nodes), depth limits 1..3 and two symbol priorities, and for the live level/encoder/test-case pattern combinations with up to 3 / 5 pictures "
                 "or fragments, and for the 'two alternatives' family (X) | (Y) with X, Y concatenations of length 1..4 over {a, b, c, .} that each contain / admit the one or "
                 "two required symbols (all unordered pairs in the stated sub-families, depth limits 0..4, optional common prefix/suffix, one level of ? or *, a second pattern): "
                 "a returned list contains the required symbols in order, matches every pattern and is as short as the shortest sequence reachable with at "
                 "most depth_limit consecutive insertions; ImpossibleSequenceError is raised only if no such sequence exists.",
            note="Level 'other' (bounded, partly sampled). Known defects D7 (greedy commitment) and inherited D4 are recognised only through exact reproduction by "
                 "deliberately defective reference searches.",
        ),
    ),
}
