"""C10 - concatenated sequences are validated and decoded independently (bounded stand-in, never counted as proved).

The deductive part of C10 (props.py) proves that reset_state removes every entry of the state except the I/O part and that
parse_sequence depends on nothing else.  What it cannot see is state OUTSIDE the State dictionary: a module-level table that a
sequence modifies (e.g. a default quantisation matrix of vc2_data_tables that a custom matrix is written into through an alias)
survives reset_state.  This module checks the statement itself natively, with a frame condition on the module-level tables.

clause -> oracle -> domain
  concat     for sequences S1..Sk (each accepted alone): the validator accepts S1+..+Sk and the pictures handed to the output
             callback are exactly pictures(S1) ++ .. ++ pictures(Sk) (sample values, in order)
  verdict    a non-conformant sequence X at position i: the concatenation is rejected, and the pictures output before the
             rejection are exactly those of the conformant sequences before X followed by those X outputs alone
  frame      decoding changes no module-level table: a snapshot of every dict / list / set held in an attribute of vc2_data_tables
             or in an UPPER_CASE attribute of a vc2_conformance module (constants by convention; lower-case attributes may be
             legitimate caches) is equal before and after all decodes of the check
  domain     sequences from small encoder configurations (HQ lossless / HQ lossy / LD lossy, symmetric and asymmetric transforms,
             default and custom quantisation matrices, pictures and fragments, 1-3 pictures, noise content so that the
             quantisation matrix matters), plus 'mixed' sequences spliced at description level from two configurations of the same
             format: a default-matrix picture followed by a custom-matrix picture (and the reverse); every ordered pair (quick) /
             every ordered pair and a seeded sample of triples (thorough); non-conformant X = a conformant sequence with its
             last byte dropped (truncated end-of-sequence) or a corrupted parse-info prefix.
Bounds: frames 8x4..16x8, transform depth <= 2, at most 3 sequences per stream.  Deterministic for a fixed seed."""
import copy
import itertools
import random
from io import BytesIO

from bounded import c04_lossless as L


def _case(mode, wi, wih, d, dh, qm, frag, seed, w=8, h=4, n=1):
    return dict(mode=mode, wi=wi, wih=wih, d=d, dh=dh, qm=qm, frag=frag, seed=seed, w=w, h=h, n=n, cdf=1, pcm=0, sx=2, sy=1, yexc=255, cexc=255, yoff=0, coff=128)


def _pictures(case, first):
    rng = random.Random(case["seed"])
    w, h = case["w"], case["h"]
    return [{"Y": [[rng.randrange(256) for _ in range(w)] for _ in range(h)],
             "C1": [[rng.randrange(256) for _ in range(w // 2)] for _ in range(h)],
             "C2": [[rng.randrange(256) for _ in range(w // 2)] for _ in range(h)], "pic_num": first + i} for i in range(case["n"])]


def _nvals(d, dh):
    return (1 + dh) + 3 * d


def _sequences(tier, seed):
    """-> [(name, description-level Sequence)]"""
    rng = random.Random("c10-%s" % seed)
    out = []
    shapes = [(1, 1, 1, 0), (4, 4, 2, 0), (3, 3, 1, 1), (1, 4, 1, 1)] + ([(0, 0, 2, 0), (2, 2, 1, 2)] if tier != "quick" else [])
    k = 0
    for (wi, wih, d, dh) in shapes:
        for mode in ("lossless", "hq", "ld"):
            for custom in (False, True):
                for frag in ((0, 1) if tier != "quick" else (0,) if (k % 3) else (1,)):
                    k += 1
                    qm = [rng.choice([0, 1, 3, 7, 12]) for _ in range(_nvals(d, dh))] if custom else None
                    c = _case(mode, wi, wih, d, dh, qm, frag, rng.randrange(1 << 30), n=1 + k % 3)
                    try:
                        seq = L.encode_sequence(c, _pictures(c, 10 * k), 60)
                    except Exception:
                        continue  # no default matrix for this shape etc.: not a sequence of the domain
                    out.append(("%s wavelet %d/%d depth %d+%d %s matrix%s" % (mode, wi, wih, d, dh, "custom" if custom else "default", " fragments" if frag else ""), seq))
    # mixed: default-matrix picture then custom-matrix picture (and the reverse) inside ONE sequence
    for (wi, wih, d, dh) in shapes[:3]:
        for mode in ("hq", "lossless"):
            a = _case(mode, wi, wih, d, dh, None, 0, rng.randrange(1 << 30))
            b = _case(mode, wi, wih, d, dh, [rng.choice([1, 3, 7, 12]) for _ in range(_nvals(d, dh))], 0, rng.randrange(1 << 30))
            try:
                sa, sb = L.encode_sequence(a, _pictures(a, 0), 60), L.encode_sequence(b, _pictures(b, 1), 60)
            except Exception:
                continue
            for first, second, nm in ((sa, sb, "default then custom"), (sb, sa, "custom then default")):
                seq = copy.deepcopy(first)
                pics = [copy.deepcopy(du) for du in second["data_units"] if "picture_parse" in du]
                units = list(seq["data_units"])
                units[-1:-1] = pics  # before the end of sequence
                n = 0
                for du in units:
                    if "picture_parse" in du:
                        du["picture_parse"]["picture_header"]["picture_number"] = n
                        n += 1
                seq["data_units"] = units
                out.append(("mixed %s wavelet %d/%d depth %d+%d: %s matrix" % (mode, wi, wih, d, dh, nm), seq))
    return out


def _snapshot():
    import sys

    snap = {}
    for mname, mod in list(sys.modules.items()):
        if mod is None or not (mname == "vc2_data_tables" or mname.startswith("vc2_data_tables.") or mname == "vc2_conformance" or mname.startswith("vc2_conformance.")):
            continue
        for attr, val in list(vars(mod).items()):
            if attr.startswith("__") or not isinstance(val, (dict, list, set)):
                continue
            if not mname.startswith("vc2_data_tables") and attr != attr.upper():
                continue  # only tables named as constants: a lower-case module attribute may be a legitimate cache (memoisation changes no result)
            try:
                snap[(mname, attr)] = repr(val) if len(repr(val)) < 2000000 else None
            except Exception:
                snap[(mname, attr)] = None
    return snap


def _decode(data):
    """-> (verdict, pictures): verdict None = accepted, else the ConformanceError class name."""
    from vc2_conformance.decoder import ConformanceError, init_io, parse_stream
    from vc2_conformance.pseudocode.state import State

    out = []

    def cb(picture, video_parameters, picture_coding_mode):
        out.append({k: [list(r) for r in picture[k]] for k in ("Y", "C1", "C2", "pic_num")} if False else
                   {"Y": [list(r) for r in picture["Y"]], "C1": [list(r) for r in picture["C1"]], "C2": [list(r) for r in picture["C2"]], "pic_num": picture["pic_num"]})

    state = State(_output_picture_callback=cb)
    init_io(state, BytesIO(data))
    try:
        parse_stream(state)
    except ConformanceError as e:
        return type(e).__name__, out
    return None, out


def check(rep, tier, seed):
    from pyvc import frontend

    frontend.ensure_repo_on_path()
    seqs = _sequences(tier, seed)
    if len(seqs) < 12:
        raise RuntimeError("C10 bounded check: only %d sequences could be built" % len(seqs))
    alone = []
    before = None
    for name, seq in seqs:
        data = L.serialise(seq)
        verdict, pics = _decode(data)
        alone.append((name, data, verdict, pics))
        if len(alone) == 3:
            before = _snapshot()  # after a warm-up: registries filled while modules are imported lazily (decorator bookkeeping) are complete by now
    good = [a for a in alone if a[2] is None]
    if len(good) < 10:
        raise RuntimeError("C10 bounded check: only %d of %d generated sequences are accepted alone" % (len(good), len(alone)))
    n_concat = n_bad = 0
    viol = {"concat": 0, "verdict": 0}
    combos = list(itertools.permutations(range(len(good)), 2)) + [(i, i) for i in range(len(good))]
    rng = random.Random("c10-combos-%s" % seed)
    triples = [tuple(rng.randrange(len(good)) for _ in range(3)) for _ in range(60 if tier == "quick" else 600)]
    if tier == "quick" and len(combos) > 500:
        combos = rng.sample(combos, 500)
    mixed = [i for i, g in enumerate(good) if g[0].startswith("mixed")]
    combos += [(m, j) for m in mixed for j in range(len(good))] + [(j, m) for m in mixed for j in range(len(good))]
    for combo in combos + triples:
        parts = [good[i] for i in combo]
        verdict, pics = _decode(b"".join(p[1] for p in parts))
        want = [pic for p in parts for pic in p[3]]
        n_concat += 1
        if (verdict is not None or pics != want) and viol["concat"] < 3:
            viol["concat"] += 1
            first = next((k for k, (a, b) in enumerate(zip(pics, want)) if a != b), min(len(pics), len(want)))
            rep.violation("c10-concat-%d" % viol["concat"], {
                "what": "the concatenation of individually accepted sequences is not accepted with exactly the concatenation of their pictures",
                "inputs": {"sequences": [p[0] for p in parts], "stream_hex": b"".join(p[1] for p in parts).hex()[:6000]},
                "expected": {"verdict": "accepted", "pictures": len(want)},
                "observed": {"verdict": verdict or "accepted", "pictures": len(pics), "first_differing_picture": first}})
    # a non-conformant sequence at each position
    for t in range(40 if tier == "quick" else 400):
        k = rng.choice([2, 3])
        idx = [rng.randrange(len(good)) for _ in range(k)]
        pos = rng.randrange(k)
        parts = [good[i] for i in idx]
        x = bytearray(parts[pos][1])
        if t % 2:
            x = x[:-1] if pos == k - 1 else x[:-1] + b""  # truncated end of sequence (at the end of the stream: truncated; elsewhere the next prefix is misplaced)
        else:
            x[0] ^= 0xFF  # corrupted parse-info prefix of the first data unit
        vx, px = _decode(bytes(x))
        if vx is None:
            continue
        data = b"".join(bytes(x) if j == pos else parts[j][1] for j in range(k))
        verdict, pics = _decode(data)
        want = [pic for p in parts[:pos] for pic in p[3]] + px
        n_bad += 1
        if (verdict is None or pics != want) and viol["verdict"] < 3:
            viol["verdict"] += 1
            rep.violation("c10-verdict-%d" % viol["verdict"], {
                "what": "a non-conformant sequence inside a concatenation is not rejected where it stands (or the pictures output before the rejection differ)",
                "inputs": {"sequences": [p[0] for p in parts], "non_conformant_position": pos, "stream_hex": data.hex()[:6000]},
                "expected": {"verdict": vx, "pictures": len(want)}, "observed": {"verdict": verdict or "accepted", "pictures": len(pics)}})
    after = _snapshot()
    changed = sorted("%s.%s" % k for k in before if k in after and before[k] is not None and before[k] != after[k])
    if changed:
        rep.violation("c10-frame-module-tables", {
            "what": "decoding changed module-level tables, which survive reset_state: later sequences (and later streams of the same process) are no longer decoded independently",
            "inputs": {"streams": "the %d sequences of this check, alone and concatenated" % len(alone)}, "expected": "unchanged", "observed": changed[:20]})
    rep.add_bounded("C10.concat", "every ordered pair (quick: a seeded sample of 500, plus every pair involving a default+custom-matrix 'mixed' sequence) and seeded triples of %d individually "
                    "accepted sequences (%s): accepted, output == concatenation of the outputs alone" % (len(good), "; ".join(sorted(set(g[0].split(" wavelet")[0] for g in good)))),
                    n_concat, False, distinct=n_concat)
    rep.add_bounded("C10.verdict", "a truncated or prefix-corrupted sequence at a seeded position among 2-3 sequences: rejected there, earlier pictures unchanged", n_bad, False, distinct=n_bad)
    rep.add_eval_fact("the dict/list/set tables of vc2_data_tables and the UPPER_CASE dict/list/set attributes of vc2_conformance.* are unchanged by all decodes of this check", not changed,
                      "%d attributes compared" % len([k for k in before if before[k] is not None]))


REGISTER = {"C10": dict(extra=[check], assumptions=[
    "BOUNDED (never counted as proved): the statement itself - accept the concatenation, output the concatenation of the pictures, reject a non-conformant sequence where it stands - "
    "is executed on seeded small sequences (bounded/c10_concatenation.py: frames 8x4, depth <= 2, <= 3 sequences), including sequences that mix default and custom quantisation "
    "matrices; a frame condition checks that no module-level table of vc2_data_tables / vc2_conformance changes while decoding (state outside the State dictionary is invisible to the proof)"])}
