"""C20 (deserialiser side): contracts for vc2_conformance.bitstream.io.BitstreamReader.

Same tape view as the validator's reader (c20_decoder_io): position
    rpos(self) = 8*(_byte_offset - 1) + 7 - _next_bit
(`_byte_offset` advances even at EOF - derived from the code), and the same spec functions
(tbit / bitsval / ue_val / ue_end, and vbit / bitsvalb / ueb_val / ueb_end inside bounded blocks)
appear in the postconditions, so "both readers agree on every bit string" is the syntactic
identity of the two contracts' result clauses.
"""
from pyvc.api import *
from contracts.c20_common import *

R = "vc2_conformance.bitstream.io.BitstreamReader."
register_class("BitstreamReader", "vc2_conformance.bitstream.io.BitstreamReader")
READER = "obj:BitstreamReader"

fields(
    _file="ref:file",
    _next_bit="int",
    _byte_offset="int",
    _current_byte="optint",
    _bits_remaining="optint",
    fpos="int",
)


@inline
def rpos(self):
    return 8 * (self._byte_offset - 1) + 7 - self._next_bit


@inline
def rtape(self):
    return content(self._file)


@inline
def rinv(self):
    f = self._file
    cb = self._current_byte
    return (
        0 <= self._next_bit and self._next_bit <= 7 and self._byte_offset >= 1 and fpos(f) >= 0
        and implies(cb is not None, fpos(f) == self._byte_offset and self._byte_offset <= flen(f)
                    and cb == content(f)[self._byte_offset - 1] and 0 <= cb and cb <= 255)
        and implies(cb is None, fpos(f) == self._byte_offset - 1 and fpos(f) >= flen(f))
    )


@inline
def rbounded(self):
    return self._bits_remaining is not None


@inline
def rlimit(self):
    """Tape position of the end of the current bounded block (meaningful only when rbounded)."""
    return rpos(self) + imax0(self._bits_remaining)


FRAME_R = ["self._next_bit", "self._byte_offset", "self._current_byte", "self._bits_remaining", "self._file.fpos"]
COMMON_R = [
    "rinv(self)",
    "rtape(self) == old(rtape(self))",
    "flen(self._file) == old(flen(self._file))",
    "self._file == old(self._file)",
    "rbounded(self) == old(rbounded(self))",
    "implies(rbounded(self), rlimit(self) == old(rlimit(self)))",
]


@spec(R + "_read_byte")
class _r_read_byte:
    args = {"self": READER}
    requires = ["fpos(self._file) == self._byte_offset and self._byte_offset >= 0"]
    modifies = ["self._next_bit", "self._byte_offset", "self._current_byte", "self._file.fpos"]
    raises = {}
    ensures = [
        "rinv(self)",
        "self._next_bit == 7",
        "self._byte_offset == old(self._byte_offset) + 1",
        "(self._current_byte is not None) == (old(self._byte_offset) < flen(self._file))",
        "rtape(self) == old(rtape(self))",
        "flen(self._file) == old(flen(self._file))",
    ]


@spec(R + "__init__")
class _r_init:
    args = {"self": READER, "file": "file"}
    requires = ["fpos(file) >= 0"]
    modifies = ["self._file", "self._next_bit", "self._byte_offset", "self._current_byte", "self._bits_remaining", "file.fpos"]
    raises = {}
    ensures = ["rinv(self)", "self._file == file", "rpos(self) == 8 * old(fpos(file))", "not rbounded(self)",
               "content(file) == old(content(file))", "flen(file) == old(flen(file))"]


@spec(R + "is_end_of_stream")
class _r_eos:
    args = {"self": READER}
    result = "bool"
    requires = ["rinv(self)"]
    modifies = []
    raises = {}
    ensures = ["result == (rpos(self) >= 8 * flen(self._file))"]


@spec(R + "tell")
class _r_tell:
    args = {"self": READER}
    result = "tuple:int,int"
    requires = ["rinv(self)"]
    modifies = []
    raises = {}
    ensures = ["8 * result[0] + 7 - result[1] == rpos(self)", "0 <= result[1] and result[1] <= 7"]


@spec(R + "bounded_block_begin")
class _r_bbb:
    args = {"self": READER, "length": "int"}
    requires = ["rinv(self)"]
    modifies = ["self._bits_remaining"]
    raises = {"Exception": "rbounded(self)"}
    raises_exact = True
    ensures = ["rbounded(self)", "self._bits_remaining == length", "rinv(self)"]


@spec(R + "bounded_block_end")
class _r_bbe:
    args = {"self": READER}
    result = "int"
    requires = ["rinv(self)"]
    modifies = ["self._bits_remaining"]
    raises = {"Exception": "not rbounded(self)"}
    raises_exact = True
    ensures = ["not rbounded(self)", "result == imax0(old(self._bits_remaining))", "result == old(rlimit(self)) - rpos(self)", "rinv(self)"]


@spec(R + "read_bit")
class _r_read_bit:
    args = {"self": READER}
    result = "int"
    requires = ["rinv(self)"]
    modifies = FRAME_R
    raises = {"EOFError": "(not rbounded(self) or self._bits_remaining >= 1) and self._current_byte is None"}
    raises_exact = True
    ensures = COMMON_R + [
        "0 <= result and result <= 1",
        "implies(not old(rbounded(self)), result == tbit(old(rtape(self)), old(rpos(self))) and rpos(self) == old(rpos(self)) + 1)",
        "implies(old(rbounded(self)), result == vbit(old(rtape(self)), old(rpos(self)), old(rlimit(self))) "
        "and rpos(self) == imin(old(rpos(self)) + 1, old(rlimit(self))) and self._bits_remaining == old(self._bits_remaining) - 1)",
        "old(rpos(self)) < 8 * flen(self._file) or (old(rbounded(self)) and old(self._bits_remaining) <= 0)",
    ]
    ghost = {"entry": ['use("bitof_def", self._current_byte, self._next_bit) if self._current_byte is not None else None',
                       "unfold(tbit, rtape(self), rpos(self))"]}


INV_R = COMMON_R


@spec(R + "read_nbits")
class _r_read_nbits:
    args = {"self": READER, "bits": "int"}
    result = "int"
    requires = ["rinv(self)"]
    modifies = FRAME_R
    raises = {"EOFError": None}
    ensures = COMMON_R + [
        "implies(not old(rbounded(self)), result == bitsval(old(rtape(self)), old(rpos(self)), bits) and rpos(self) == old(rpos(self)) + imax0(bits))",
        "implies(old(rbounded(self)), result == bitsvalb(old(rtape(self)), old(rpos(self)), old(rlimit(self)), bits) "
        "and rpos(self) == imin(old(rpos(self)) + imax0(bits), old(rlimit(self))) and self._bits_remaining == old(self._bits_remaining) - imax0(bits))",
        "result >= 0",
    ]
    invariants = {
        1: INV_R + [
            "value >= 0",
            "implies(not old(rbounded(self)), value == bitsval(old(rtape(self)), old(rpos(self)), i) and rpos(self) == old(rpos(self)) + i)",
            "implies(old(rbounded(self)), value == bitsvalb(old(rtape(self)), old(rpos(self)), old(rlimit(self)), i) "
            "and rpos(self) == imin(old(rpos(self)) + i, old(rlimit(self))) and self._bits_remaining == old(self._bits_remaining) - i)",
        ]
    }
    ghost = {
        "entry": ["unfold(bitsval, rtape(self), rpos(self), 0)", "unfold(bitsvalb, rtape(self), rpos(self), rlimit(self), 0)"],
        "loop1.body_end": [
            "unfold(bitsval, old(rtape(self)), old(rpos(self)), i + 1)",
            "unfold(bitsvalb, old(rtape(self)), old(rpos(self)), old(rlimit(self)), i + 1)",
            'use("bor_bit", bitsval(old(rtape(self)), old(rpos(self)), i), tbit(old(rtape(self)), old(rpos(self)) + i))',
            'use("bor_bit", bitsvalb(old(rtape(self)), old(rpos(self)), old(rlimit(self)), i), vbit(old(rtape(self)), old(rpos(self)) + i, old(rlimit(self))))',
        ],
        "exit": ["unfold(bitsval, old(rtape(self)), old(rpos(self)), bits) if bits <= 0 else None",
                 "unfold(bitsvalb, old(rtape(self)), old(rpos(self)), old(rlimit(self)), bits) if bits <= 0 else None"],
    }


@spec(R + "read_uint_lit")
class _r_read_uint_lit:
    args = {"self": READER, "num_bytes": "int"}
    result = "int"
    requires = ["rinv(self)"]
    modifies = FRAME_R
    raises = {"EOFError": None}
    ensures = COMMON_R + [
        "implies(not old(rbounded(self)), result == bitsval(old(rtape(self)), old(rpos(self)), 8 * num_bytes) and rpos(self) == old(rpos(self)) + imax0(8 * num_bytes))",
        "implies(old(rbounded(self)), result == bitsvalb(old(rtape(self)), old(rpos(self)), old(rlimit(self)), 8 * num_bytes))",
    ]


@spec(R + "read_uint")
class _r_read_uint:
    args = {"self": READER}
    result = "int"
    requires = ["rinv(self)"]
    modifies = FRAME_R
    raises = {"EOFError": None}
    ensures = COMMON_R + [
        "implies(not old(rbounded(self)), result == ue_val(old(rtape(self)), old(rpos(self)), 1) and rpos(self) == ue_end(old(rtape(self)), old(rpos(self))))",
        "implies(old(rbounded(self)), result == ueb_val(old(rtape(self)), old(rpos(self)), old(rlimit(self)), 1) "
        "and rpos(self) == ueb_end(old(rtape(self)), old(rpos(self)), old(rlimit(self))))",
        "result >= 0",
    ]
    invariants = {
        1: INV_R + [
            "value >= 1",
            "implies(not old(rbounded(self)), ue_val(old(rtape(self)), old(rpos(self)), 1) == ue_val(rtape(self), rpos(self), value) "
            "and ue_end(old(rtape(self)), old(rpos(self))) == ue_end(rtape(self), rpos(self)))",
            "implies(old(rbounded(self)), ueb_val(old(rtape(self)), old(rpos(self)), old(rlimit(self)), 1) == ueb_val(rtape(self), rpos(self), rlimit(self), value) "
            "and ueb_end(old(rtape(self)), old(rpos(self)), old(rlimit(self))) == ueb_end(rtape(self), rpos(self), rlimit(self)))",
        ]
    }
    ghost = {
        "loop1.head": [
            "unfold(ue_val, rtape(self), rpos(self), value)", "unfold(ue_end, rtape(self), rpos(self))",
            "unfold(ueb_val, rtape(self), rpos(self), rlimit(self), value)", "unfold(ueb_end, rtape(self), rpos(self), rlimit(self))",
        ],
    }


@spec(R + "read_sint")
class _r_read_sint:
    args = {"self": READER}
    result = "int"
    requires = ["rinv(self)"]
    modifies = FRAME_R
    raises = {"EOFError": None}
    ensures = COMMON_R + [
        "implies(not old(rbounded(self)) and ue_val(old(rtape(self)), old(rpos(self)), 1) == 0, "
        "result == 0 and rpos(self) == ue_end(old(rtape(self)), old(rpos(self))))",
        "implies(not old(rbounded(self)) and ue_val(old(rtape(self)), old(rpos(self)), 1) != 0, "
        "rpos(self) == ue_end(old(rtape(self)), old(rpos(self))) + 1 and "
        "result == (1 - 2 * tbit(old(rtape(self)), ue_end(old(rtape(self)), old(rpos(self))))) * ue_val(old(rtape(self)), old(rpos(self)), 1))",
        "implies(old(rbounded(self)) and ueb_val(old(rtape(self)), old(rpos(self)), old(rlimit(self)), 1) == 0, "
        "result == 0 and rpos(self) == ueb_end(old(rtape(self)), old(rpos(self)), old(rlimit(self))))",
        "implies(old(rbounded(self)) and ueb_val(old(rtape(self)), old(rpos(self)), old(rlimit(self)), 1) != 0, "
        "rpos(self) == imin(ueb_end(old(rtape(self)), old(rpos(self)), old(rlimit(self))) + 1, old(rlimit(self))) and "
        "result == (1 - 2 * vbit(old(rtape(self)), ueb_end(old(rtape(self)), old(rpos(self)), old(rlimit(self))), old(rlimit(self)))) "
        "* ueb_val(old(rtape(self)), old(rpos(self)), old(rlimit(self)), 1))",
    ]


@spec(R + "seek")
class _r_seek:
    args = {"self": READER, "bytes": "int", "bits": "int"}
    requires = ["rinv(self)", "0 <= bits and bits <= 7", "bytes >= 0"]
    modifies = FRAME_R
    raises = {"Exception": "rbounded(self) and 8 * bytes + 7 - bits > rpos(self) and self._bits_remaining - (8 * bytes + 7 - bits - rpos(self)) < 0"}
    raises_exact = True
    ensures = [
        "rinv(self)", "self._file == old(self._file)", "rtape(self) == old(rtape(self))", "flen(self._file) == old(flen(self._file))",
        "rpos(self) == 8 * bytes + 7 - bits",
        "rbounded(self) == old(rbounded(self))",
        "implies(rbounded(self), rlimit(self) == old(rlimit(self)))",
    ]


# ---- native generators (replay / bounded stand-in) ------------------------------------------------


def gen_reader(rng):
    import io
    from vc2_conformance.bitstream.io import BitstreamReader

    f = io.BytesIO(bytes(rng.choice([0, 0, 255, 128, 1, rng.randrange(256)]) for _ in range(rng.randint(0, 6))))
    r = BitstreamReader(f)
    try:
        for _ in range(rng.randint(0, 12)):
            r.read_bit()
        if rng.random() < 0.5:
            r.bounded_block_begin(rng.randint(-2, 30))
            for _ in range(rng.randint(0, 4)):
                r.read_bit()
    except EOFError:
        pass
    return r


def gen_file(rng):
    import io

    f = io.BytesIO(bytes(rng.randrange(256) for _ in range(rng.randint(0, 5))))
    f.seek(rng.randint(0, len(f.getvalue())))
    return f


GENERATORS = {"obj:BitstreamReader": gen_reader, "file": gen_file}
