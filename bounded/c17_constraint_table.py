"""C17 "Constraint-table queries follow set semantics" -- BOUNDED stand-in (never a proof).

Three groups of checks of vc2_conformance/constraint_table.py (+ decoder/assertions.py:
assert_level_constraint), each against a reference written from the property statement:

(1) ValueSet / AnyValue against Python frozensets over a small universe: every program of at
    most N construction / add_value / add_range / union steps is executed on the real class
    and queried with `in` for every probe value; is_disjoint, union, equality (soundness only)
    on pairs; iteration, iter_values, str and repr must denote the same set.
(2) filter_constraint_table / is_allowed_combination / allowed_values_for against the
    definition "a combination is allowed iff some column contains every given value", the
    property's equivalence  v in allowed_values_for(T,k,vals) <=> is_allowed(T, vals+{k:v}),
    and the validator's one-value-at-a-time check (the real assert_level_constraint run on the
    enumerated table) against "every prefix is an allowed combination".
(3) read_constraints_from_csv against an independent reader of the documented CSV format, on
    seeded random CSV texts and on the shipped level_constraints.csv.

The reference never calls or copies the code under check.  All bounds are stated in the
`domain` strings of the evidence.
"""
import ast
import itertools
import multiprocessing
import os
import random
import shutil
import tempfile
import traceback
from collections import OrderedDict
from enum import IntEnum

ANY = "<ANY>"  # model of AnyValue: contains everything
MAX_FAIL_PER_KIND = 3  # replay files written per kind of failure
NPROC = max(1, min(16, os.cpu_count() or 1))


# ------------------------------------------------------------------------------------------------
# loading the code under check (VERIF_REPO aware)
# ------------------------------------------------------------------------------------------------
def _load():
    from pyvc import frontend

    frontend.ensure_repo_on_path()
    import vc2_conformance.constraint_table as ct

    return ct


def _load_validator():
    from pyvc import frontend

    frontend.ensure_repo_on_path()
    import vc2_conformance.decoder.assertions as assertions
    import vc2_conformance.level_constraints as level_constraints
    from vc2_conformance.decoder.exceptions import ValueNotAllowedInLevel
    from vc2_conformance.pseudocode.state import State

    return assertions, level_constraints, ValueNotAllowedInLevel, State


class _Fails(object):
    """Failure collector: keeps the first few payloads of each kind and counts all of them."""

    def __init__(self):
        self.count = {}
        self.kept = {}

    def add(self, kind, payload):
        """payload: a dict or a zero-argument callable building it (only built for the cases that are kept)"""
        self.count[kind] = self.count.get(kind, 0) + 1
        lst = self.kept.setdefault(kind, [])
        if len(lst) < MAX_FAIL_PER_KIND:
            lst.append(payload() if callable(payload) else payload)

    def merge(self, other):
        for k, n in other.count.items():
            self.count[k] = self.count.get(k, 0) + n
        for k, lst in other.kept.items():
            mine = self.kept.setdefault(k, [])
            for p in lst:
                if len(mine) < MAX_FAIL_PER_KIND:
                    mine.append(p)

    def total(self):
        return sum(self.count.values())


def _pool_map(fn, jobs):
    """Run jobs in a fork pool (the code under check was imported before the fork)."""
    jobs = list(jobs)
    if NPROC == 1 or len(jobs) <= 1:
        return [fn(j) for j in jobs]
    ctx = multiprocessing.get_context("fork")
    with ctx.Pool(NPROC) as pool:
        return list(pool.imap_unordered(fn, jobs, chunksize=1))


# ================================================================================================
# (1) ValueSet
# ================================================================================================
class _E(IntEnum):
    """Stand-in for the IntEnum members (Levels, Profiles, ...) the real level tables hold."""

    one = 1
    three = 3


class _Atom(object):
    __slots__ = ("kind", "arg", "model", "text")

    def __init__(self, kind, arg, model, text):
        self.kind = kind  # "v" single value, "r" inclusive range
        self.arg = arg  # the value, or the (lo, hi) tuple
        self.model = model  # frozenset: what the property statement says this atom denotes
        self.text = text


def _atoms_int(n):
    """All single values and all inclusive ranges lo <= hi over 0..n-1 (incl. lo == hi)."""
    out = [_Atom("v", v, frozenset([v]), repr(v)) for v in range(n)]
    for lo in range(n):
        for hi in range(lo, n):
            out.append(_Atom("r", (lo, hi), frozenset(range(lo, hi + 1)), repr((lo, hi))))
    return out


def _atoms_str():
    return [_Atom("v", s, frozenset([s]), repr(s)) for s in ("a", "b", "c")]


def _atoms_mixed():
    """bools, ints and IntEnum members as single values; ranges with int, bool and enum bounds
    (bool/IntEnum compare and hash as their integer value, so the frozenset model merges them
    exactly as Python set semantics demands)."""
    vals = [False, True, 0, 1, 2, 3, _E.one, _E.three]
    out = [_Atom("v", v, frozenset([int(v)]), repr(v)) for v in vals]
    for lo in range(4):
        for hi in range(lo, 4):
            out.append(_Atom("r", (lo, hi), frozenset(range(lo, hi + 1)), repr((lo, hi))))
    out.append(_Atom("r", (False, True), frozenset([0, 1]), "(False, True)"))
    out.append(_Atom("r", (_E.one, _E.three), frozenset([1, 2, 3]), "(_E.one, _E.three)"))
    return out


_UNIVERSES = {}


def _universe(name):
    """name -> (atoms, probes, flavour)"""
    if name not in _UNIVERSES:
        if name.startswith("int"):
            n = int(name[3:])
            _UNIVERSES[name] = (_atoms_int(n), list(range(-1, n + 1)), "int")
        elif name == "str":
            _UNIVERSES[name] = (_atoms_str(), ["a", "b", "c", "d", ""], "str")
        elif name == "mixed":
            _UNIVERSES[name] = (_atoms_mixed(), [-1, 0, 1, 2, 3, 4, False, True, _E.one, _E.three], "mixed")
        else:
            raise ValueError(name)
    return _UNIVERSES[name]


def _modes(m, policy, rng=None):
    """Ways of building a set from a sequence of m atoms.
    (j, ops): the first j atoms are constructor arguments, each further atom a is applied by
       'M' the add_value/add_range method, 'R' vs = vs + ValueSet(a), 'L' vs = ValueSet(a) + vs.
    ('S', j): ValueSet(first j atoms) + ValueSet(the other atoms)."""
    if policy == "full":
        out = []
        for j in range(m + 1):
            for ops in itertools.product("MRL", repeat=m - j):
                out.append((j, ops))
        for j in range(1, m - 1):
            out.append(("S", j))
        return out
    # restricted: homogeneous modes, the middle split and one seeded random mixed mode
    out = [(m, ()), (0, ("M",) * m), (0, ("R",) * m), (0, ("L",) * m)]
    if m >= 3:
        out.append(("S", m // 2))
    j = rng.randrange(0, m)
    out.append((j, tuple(rng.choice("MRL") for _ in range(m - j))))
    return out


def _build(VS, atoms, mode):
    if mode[0] == "S":
        j = mode[1]
        return VS(*[a.arg for a in atoms[:j]]) + VS(*[a.arg for a in atoms[j:]])
    j, ops = mode
    vs = VS(*[a.arg for a in atoms[:j]])
    for a, op in zip(atoms[j:], ops):
        if op == "M":
            if a.kind == "v":
                vs.add_value(a.arg)
            else:
                vs.add_range(a.arg[0], a.arg[1])
        elif op == "R":
            vs = vs + VS(a.arg)
        else:
            vs = VS(a.arg) + vs
    return vs


def _program_text(atoms, mode):
    if mode[0] == "S":
        j = mode[1]
        return "vs = ValueSet(%s) + ValueSet(%s)" % (", ".join(a.text for a in atoms[:j]), ", ".join(a.text for a in atoms[j:]))
    j, ops = mode
    parts = ["vs = ValueSet(%s)" % ", ".join(a.text for a in atoms[:j])]
    for a, op in zip(atoms[j:], ops):
        if op == "M":
            parts.append("vs.add_value(%s)" % a.text if a.kind == "v" else "vs.add_range%s" % a.text)
        elif op == "R":
            parts.append("vs = vs + ValueSet(%s)" % a.text)
        else:
            parts.append("vs = ValueSet(%s) + vs" % a.text)
    return "; ".join(parts)


def _parse_str(s, flavour):
    """Reader of the documented str() form: '{<no values>}' or '{1, 2, 3, 10-20}'."""
    if s == "{<no values>}":
        return frozenset()
    if not (s.startswith("{") and s.endswith("}")):
        raise ValueError("not of the documented form: %r" % (s,))
    out = set()
    for part in s[1:-1].split(", "):
        if flavour == "int" and "-" in part:
            lo, hi = part.split("-")
            out.update(range(int(lo), int(hi) + 1))
        else:
            out.add(ast.literal_eval(part))
    return frozenset(out)


def _expand_items(items):
    out = set()
    for it in items:
        if isinstance(it, tuple):
            out.update(range(int(it[0]), int(it[1]) + 1))
        else:
            out.add(it)
    return frozenset(out)


def _check_set(ct, vs, model, probes, flavour, views):
    """-> list of (kind, expected, observed) for one real ValueSet against its model set."""
    bad = []
    got = [x in vs for x in probes]
    exp = [x in model for x in probes]
    if got != exp:
        bad.append(("valueset-membership", dict(zip(map(repr, probes), exp)), dict(zip(map(repr, probes), got))))
    if views:
        ex = sorted(model, key=repr)
        it = _expand_items(list(vs))
        if it != model:
            bad.append(("valueset-iter", ex, sorted(it, key=repr)))
        if flavour != "str":
            iv = frozenset(vs.iter_values())
            if iv != model:
                bad.append(("valueset-iter_values", ex, sorted(iv, key=repr)))
        if flavour in ("int", "str"):
            s = str(vs)
            try:
                ps = _parse_str(s, flavour)
            except Exception as e:  # malformed text is a failure of the documented form
                ps = "unparsable %r (%r)" % (s, e)
            if ps != model:
                bad.append(("valueset-str", ex, s))
            r = repr(vs)
            back = eval(r, {"ValueSet": ct.ValueSet, "AnyValue": ct.AnyValue})
            if [x in back for x in probes] != exp or isinstance(back, ct.AnyValue):
                bad.append(("valueset-repr", ex, r))
    return bad


def _w_programs(job):
    """All programs whose atom sequence starts with the given prefix of atom indices."""
    uname, m, prefix, policy, seed = job
    ct = _load()
    atoms, probes, flavour = _universe(uname)
    fails = _Fails()
    n_eval = 0
    states = set()
    rng = random.Random(seed * 7919 + m * 1000003 + sum((i + 1) * 1009 ** k for k, i in enumerate(prefix)))
    rest = m - len(prefix)
    full_modes = _modes(m, "full") if policy == "full" else None
    for tail in itertools.product(range(len(atoms)), repeat=rest):
        seq = [atoms[i] for i in tuple(prefix) + tail]
        model = frozenset().union(*[a.model for a in seq]) if seq else frozenset()
        states.add(model)
        modes = full_modes if full_modes is not None else _modes(m, "restricted", rng)
        for mi, mode in enumerate(modes):
            n_eval += 1
            try:
                vs = _build(ct.ValueSet, seq, mode)
                # the derived views (iteration, str, repr) are checked on the constructor form and on the
                # method-only form of every sequence, membership on every form
                bad = _check_set(ct, vs, model, probes, flavour, views=(mi == 0 or mode == (m, ()) or mode == (0, ("M",) * m)))
            except Exception:
                bad = [("valueset-exception", "no exception", traceback.format_exc(limit=4))]
            for kind, exp, obs in bad:
                fails.add(kind, lambda: {"what": "%s: ValueSet does not denote the union of its listed values and inclusive ranges" % kind,
                                 "inputs": {"program": _program_text(seq, mode), "universe": uname},
                                 "expected": exp, "observed": obs})
    return n_eval, states, fails


def _small_sets(ct, atoms, max_atoms, lo=0, hi=None):
    """[(object, model, text)] for the sequences number lo..hi-1 of the family of all sequences of <= max_atoms
    atoms, built alternately through the constructor and through the methods."""
    out = []
    k = -1
    for m in range(max_atoms + 1):
        for idx in itertools.product(range(len(atoms)), repeat=m):
            k += 1
            if k < lo or (hi is not None and k >= hi):
                continue
            seq = [atoms[i] for i in idx]
            mode = (m, ()) if k % 2 == 0 else (0, ("M",) * m)
            model = frozenset().union(*[a.model for a in seq]) if seq else frozenset()
            out.append((_build(ct.ValueSet, seq, mode), model, _program_text(seq, mode)[5:]))
    return out


def _w_pairs(job):
    """is_disjoint / union / equality on pairs A (a slice of the left family) x B (right family)."""
    uname, left_atoms, left_slice, right_atoms, seed = job
    ct = _load()
    atoms, probes, flavour = _universe(uname)
    fails = _Fails()
    left = _small_sets(ct, atoms, left_atoms, left_slice[0], left_slice[1])
    right = _small_sets(ct, atoms, right_atoms)
    snap = [([x in o for x in probes], sorted(map(repr, o))) for (o, _, _) in left + right]
    n_eval = 0
    n_overlap = 0
    eq_incomplete = 0
    for (A, mA, tA) in left:
        for (B, mB, tB) in right:
            n_eval += 1
            inputs = {"A": tA, "B": tB, "universe": uname}
            try:
                exp = not (mA & mB)
                n_overlap += 0 if exp else 1
                d1 = A.is_disjoint(B)
                d2 = B.is_disjoint(A)
                if d1 is not exp or d2 is not exp:
                    fails.add("valueset-is_disjoint", lambda: {"what": "is_disjoint disagrees with the intersection of the two sets being empty",
                                                       "inputs": inputs, "expected": exp, "observed": {"A.is_disjoint(B)": d1, "B.is_disjoint(A)": d2}})
                U = A + B
                mU = mA | mB
                got = [x in U for x in probes]
                if got != [x in mU for x in probes] or isinstance(U, ct.AnyValue):
                    fails.add("valueset-union", lambda: {"what": "A + B does not contain exactly the union", "inputs": inputs,
                                                 "expected": sorted(mU, key=repr), "observed": dict(zip(map(repr, probes), got))})
                e = A == B
                ne = A != B
                if e is ne or (e and mA != mB):
                    fails.add("valueset-eq", lambda: {"what": "A == B although the sets differ (or == and != agree)", "inputs": inputs,
                                              "expected": mA == mB, "observed": {"==": e, "!=": ne}})
                if e and hash(A) != hash(B):
                    fails.add("valueset-hash", lambda: {"what": "equal ValueSets with different hashes", "inputs": inputs, "expected": True, "observed": False})
                if mA == mB and not e:
                    eq_incomplete += 1
            except Exception:
                fails.add("valueset-exception", lambda: {"what": "unexpected exception from ValueSet pair operations", "inputs": inputs,
                                                 "expected": "no exception", "observed": traceback.format_exc(limit=4)})
    # the operands must not have been changed by is_disjoint / + / ==
    for (o, m, t), s in zip(left + right, snap):
        if ([x in o for x in probes], sorted(map(repr, o))) != s:
            fails.add("valueset-operand-mutated", lambda: {"what": "is_disjoint/+/== changed an operand", "inputs": {"A": t, "universe": uname},
                                                   "expected": s, "observed": ([x in o for x in probes], sorted(map(repr, o)))})
    return n_eval, n_overlap, eq_incomplete, fails


def _check_anyvalue(ct, uname, max_atoms):
    """AnyValue: contains everything; either-way union gives AnyValue; disjoint only from the empty set."""
    atoms, probes, flavour = _universe(uname)
    fails = _Fails()
    n = 0
    odd = list(probes) + ["zzz", None, (1, 2), 10 ** 30, 2.5]
    for (A, mA, tA) in _small_sets(ct, atoms, max_atoms):
        n += 1
        inputs = {"A": tA, "universe": uname}
        try:
            any1 = ct.AnyValue()
            obs = {
                "A+Any is AnyValue": isinstance(A + any1, ct.AnyValue),
                "Any+A is AnyValue": isinstance(any1 + A, ct.AnyValue),
                "A+Any contains all": all(x in (A + any1) for x in odd),
                "Any+A contains all": all(x in (any1 + A) for x in odd),
                "A.is_disjoint(Any)": A.is_disjoint(any1),
                "Any.is_disjoint(A)": any1.is_disjoint(A),
                "A==Any": A == any1,
                "Any==A": any1 == A,
                "A!=Any": A != any1,
                "A unchanged": [x in A for x in probes] == [x in mA for x in probes],
            }
            exp = {
                "A+Any is AnyValue": True, "Any+A is AnyValue": True, "A+Any contains all": True, "Any+A contains all": True,
                "A.is_disjoint(Any)": not mA, "Any.is_disjoint(A)": not mA, "A==Any": False, "Any==A": False, "A!=Any": True,
                "A unchanged": True,
            }
            if obs != exp:
                fails.add("anyvalue-combine", lambda: {"what": "AnyValue does not behave as the set of all values when combined with a ValueSet",
                                               "inputs": inputs, "expected": exp, "observed": obs})
        except Exception:
            fails.add("anyvalue-exception", lambda: {"what": "unexpected exception combining AnyValue", "inputs": inputs,
                                             "expected": "no exception", "observed": traceback.format_exc(limit=4)})
    # AnyValue on its own
    n += 1
    a = ct.AnyValue()
    b = ct.AnyValue()
    a.add_value(1)
    a.add_range(2, 3)
    obs = {
        "contains": all(x in a for x in odd),
        "Any+Any": isinstance(a + b, ct.AnyValue),
        "Any.is_disjoint(Any)": a.is_disjoint(b),
        "Any==Any": a == b,
        "Any!=Any": a != b,
        "hash": hash(a) == hash(b),
        "is ValueSet": isinstance(a, ct.ValueSet),
    }
    exp = {"contains": True, "Any+Any": True, "Any.is_disjoint(Any)": False, "Any==Any": True, "Any!=Any": False, "hash": True, "is ValueSet": True}
    if obs != exp:
        fails.add("anyvalue-alone", lambda: {"what": "AnyValue alone does not behave as the set of all values", "inputs": {"program": "a = AnyValue(); a.add_value(1); a.add_range(2, 3); b = AnyValue()"},
                                     "expected": exp, "observed": obs})
    return n, fails


def _part_valueset(rep, tier, seed):
    ct = _load()
    thorough = tier == "thorough"
    n = 9 if thorough else 7
    uname = "int%d" % n
    atoms, probes, _ = _universe(uname)
    na = len(atoms)
    total = _Fails()

    # ---- programs of <= 3 atoms in every build mode; (thorough) 4 atoms in a restricted set of modes
    jobs = [(uname, 0, (), "full", seed), (uname, 1, (), "full", seed)]
    jobs += [(uname, 2, (i,), "full", seed) for i in range(na)]
    jobs += [(uname, 3, (i, j), "full", seed) for i in range(na) for j in range(na)]
    if thorough:
        jobs += [(uname, 4, (i, j), "restricted", seed) for i in range(na) for j in range(na)]
    jobs += [("str", m, (), "full", seed) for m in range(4)]
    jobs += [("mixed", m, (), "full", seed) for m in range(3)] + [("mixed", 3, (i,), "full", seed) for i in range(len(_universe("mixed")[0]))]
    n_eval = 0
    states = {}
    for (job, (ne, st, fl)) in zip(jobs, _ordered(_w_programs, jobs)):
        n_eval += ne
        states.setdefault(job[0], set()).update(st)
        total.merge(fl)
    max_ops = 4 if thorough else 3
    rep.add_bounded(
        "C17.valueset.programs",
        "EXHAUSTIVE: every sequence of <= 3 atoms (an atom = a single value or an inclusive range lo <= hi, incl. lo == hi, adjacent and overlapping ranges) over the "
        "integer universe 0..%d (%d atoms), each built in every mode (first j atoms as constructor arguments, each later atom by add_value/add_range, by vs + ValueSet(atom) "
        "or by ValueSet(atom) + vs, plus ValueSet(first j) + ValueSet(rest)); %s`x in vs` compared with the frozenset union for every x in -1..%d; iteration, iter_values, str "
        "and repr compared with the same set on the constructor and method-only forms. Same for the string universe {'a','b','c'} (values only, <= 3 atoms) and for a mixed "
        "universe (False, True, 0..3, two IntEnum members equal to 1 and 3, ranges over 0..3 and with bool/enum bounds, <= 3 atoms)"
        % (n - 1, na, ("every sequence of 4 atoms in 6 modes (constructor only, methods only, right unions only, left unions only, 2+2 split, one seeded random mixed mode); "
                       if thorough else ""), n),
        n_eval, True, distinct=sum(len(s) for s in states.values()),
        samples=_samples_valueset(ct),
        note="distinct = number of distinct denoted sets reached (%s); <= %d operations; each evaluation is one program run on the real class followed by %d membership queries"
             % (", ".join("%s: %d" % (k, len(v)) for k, v in sorted(states.items())), max_ops, len(probes)))

    # ---- pairs: is_disjoint, union, equality soundness
    fam2 = 1 + na + na * na
    fam3 = fam2 + na ** 3
    step = max(1, fam2 // (NPROC * 4))
    jobs = [(uname, 2, (lo, min(fam2, lo + step)), 2, seed) for lo in range(0, fam2, step)]
    step3 = max(1, (fam3 - fam2) // (NPROC * 4))
    jobs += [(uname, 3, (lo, min(fam3, lo + step3)), 1, seed) for lo in range(fam2, fam3, step3)]
    jobs += [("str", 2, (0, 13), 2, seed), ("mixed", 2, (0, 1 + 20 + 400), 2, seed)]
    n_pairs = n_overlap = eq_inc = 0
    for (ne, no, ei, fl) in _pool_map(_w_pairs, jobs):
        n_pairs += ne
        n_overlap += no
        eq_inc += ei
        total.merge(fl)
    rep.add_bounded(
        "C17.valueset.pairs",
        "EXHAUSTIVE: all pairs (A, B) of ValueSets with A, B each built from <= 2 atoms, and A from exactly 3 atoms with B from <= 1 atom, over the integer universe 0..%d "
        "(also <= 2 x <= 2 atoms over the string and mixed universes): A.is_disjoint(B) and B.is_disjoint(A) == (intersection empty); A + B contains exactly the union (probes -1..%d); "
        "A == B implies equal sets and != is its negation; equal objects hash equally; no operand is changed" % (n - 1, n),
        n_pairs, True, distinct=n_overlap,
        samples=_samples_pairs(ct),
        note="distinct = pairs with a non-empty intersection. Equality is only checked for soundness: the property and the docstrings do not promise that equal sets compare "
             "equal, and %d enumerated pairs denote the same set but compare unequal (e.g. ValueSet(1) vs ValueSet((1, 1)), ValueSet((0, 1), (2, 3)) vs ValueSet((0, 3)))" % eq_inc)
    rep.extra_coverage["C17_equal_sets_comparing_unequal"] = eq_inc

    # ---- AnyValue
    n_any = 0
    for un, k in ((uname, 2), ("str", 2), ("mixed", 2)):
        ne, fl = _check_anyvalue(ct, un, k)
        n_any += ne
        total.merge(fl)
    rep.add_bounded(
        "C17.anyvalue",
        "EXHAUSTIVE over every ValueSet A of <= 2 atoms (integer universe 0..%d, string and mixed universes): A + AnyValue() and AnyValue() + A are AnyValue and contain every probe "
        "(ints, strings, None, a tuple, a float, 10**30); is_disjoint with AnyValue is true exactly for the empty A, both ways; AnyValue is never equal to a ValueSet; "
        "AnyValue alone: contains everything after add_value/add_range, Any + Any is Any, never disjoint from itself, equal to every AnyValue" % (n - 1),
        n_any, True, distinct=n_any)
    return total


def _ordered(fn, jobs):
    """pool map that keeps job order (jobs are tagged with their index)."""
    res = _pool_map(_Tag(fn), list(enumerate(jobs)))
    res.sort(key=lambda t: t[0])
    return [r for (_, r) in res]


class _Tag(object):
    def __init__(self, fn):
        self.fn = fn

    def __call__(self, ij):
        return ij[0], self.fn(ij[1])


# ================================================================================================
# (2) constraint tables
# ================================================================================================
def _m_matches(col, vals):
    """A column contains a combination iff it lists every given key with the given value in its set.
    Documented special case: a column with no entries at all ('catch all') contains every combination."""
    if len(col) == 0:
        return True
    for k, v in vals.items():
        if k not in col:
            return False
        if col[k] is not ANY and v not in col[k]:
            return False
    return True


def _m_allowed(table, vals):
    return any(_m_matches(col, vals) for col in table)


def _m_values_for(table, key, vals):
    """Values the columns containing `vals` list for `key` (used only where the property's equivalence does
    not apply: catch-all columns, key already chosen, any_value substitution)."""
    out = set()
    for col in table:
        if _m_matches(col, vals) and key in col:
            if col[key] is ANY:
                return ANY
            out |= col[key]
    return frozenset(out)


def _runs(values):
    """maximal runs of consecutive integers"""
    out = []
    for v in sorted(values):
        if out and out[-1][1] == v - 1:
            out[-1][1] = v
        else:
            out.append([v, v])
    return [tuple(r) for r in out]


def _cell_variants(ct, u):
    """For every subset of 0..u-1: the model frozenset and three real ValueSets denoting it
    (values only; maximal ranges only; ranges for runs of >= 2 and values for the rest)."""
    out = []
    for bits in range(1 << u):
        s = frozenset(i for i in range(u) if bits >> i & 1)
        runs = _runs(s)
        v0 = ct.ValueSet(*sorted(s))
        v1 = ct.ValueSet(*runs)
        v2 = ct.ValueSet(*[r if r[0] != r[1] else r[0] for r in runs])
        out.append((s, (v0, v1, v2), ("ValueSet(%s)" % ", ".join(map(repr, sorted(s))), "ValueSet(%s)" % ", ".join(map(repr, runs)),
                                      "ValueSet(%s)" % ", ".join(repr(r if r[0] != r[1] else r[0]) for r in runs))))
    return out


def _table_from_digits(digits, ncols, keys, cells, special, rot):
    """digits: one per (column, key).  digit < len(cells): that subset; then the specials in `special`
    ('ANY' -> AnyValue cell, 'MISSING' -> key absent from the column)."""
    real, model, text = [], [], []
    p = 0
    for c in range(ncols):
        rc, mc, tc = {}, {}, []
        for k in keys:
            d = digits[p]
            if d < len(cells):
                s, variants, texts = cells[d]
                w = (rot + p) % 3
                rc[k] = variants[w]
                mc[k] = s
                tc.append("%r: %s" % (k, texts[w]))
            else:
                sp = special[d - len(cells)]
                if sp == "ANY":
                    rc[k] = special_any[0]
                    mc[k] = ANY
                    tc.append("%r: AnyValue()" % (k,))
            p += 1
        real.append(rc)
        model.append(mc)
        text.append("{%s}" % ", ".join(tc))
    return real, model, "[%s]" % ", ".join(text)


special_any = [None]  # the shared AnyValue() cell object (set by the worker)


def _install_table(vmods, table):
    assertions, level_constraints = vmods[0], vmods[1]
    assertions.LEVEL_CONSTRAINTS = table
    level_constraints.LEVEL_CONSTRAINTS = table


class _SpyList(list):
    """a table that notes being looked at"""

    seen = 0

    def __iter__(self):
        self.seen += 1
        return list.__iter__(self)

    def __getitem__(self, i):
        self.seen += 1
        return list.__getitem__(self, i)

    def __len__(self):
        self.seen += 1
        return list.__len__(self)


def _canary_patch(ct, vmods):
    """The enumerated table must really be the one assert_level_constraint consults (whatever it then answers)."""
    assertions, level_constraints, VNA, State = vmods
    saved = (getattr(assertions, "LEVEL_CONSTRAINTS", None), level_constraints.LEVEL_CONSTRAINTS)
    spy = _SpyList([{"c17_canary": ct.ValueSet(41)}])
    try:
        _install_table(vmods, spy)
        try:
            assertions.assert_level_constraint(State(), "c17_canary", 41)
        except Exception:
            pass  # the behaviour itself is judged by the enumerated checks, not here
        if not spy.seen:
            raise RuntimeError("C17 checker: substituting the constraint table consulted by assert_level_constraint had no effect")
    finally:
        assertions.LEVEL_CONSTRAINTS, level_constraints.LEVEL_CONSTRAINTS = saved


def _check_table(ct, vmods, real, model, ttext, keys, u, fails, counters, do_validator=True):
    """All queries on one table.  Domain of already-chosen values: 0..u-1; of the queried value: 0..u."""
    nokey = "c17_key_in_no_column"
    has_catch_all = any(len(col) == 0 for col in model)
    inputs0 = {"table": ttext}
    cache = {}
    idmap = dict((id(col), i) for i, col in enumerate(real))

    def allowed_real(vals):
        """real filter_constraint_table + is_allowed_combination, checked against the definition"""
        key = frozenset(vals.items())
        if key in cache:
            return cache[key]
        counters["queries"] += 1
        exp_idx = [i for i, col in enumerate(model) if _m_matches(col, vals)]
        flt = ct.filter_constraint_table(real, dict(vals))
        got_idx = []
        ok = isinstance(flt, list)
        if ok:
            for ent in flt:  # must be the containing columns themselves (an equal copy is tolerated, order is not compared)
                i = idmap.get(id(ent))
                if i is None or i in got_idx:
                    hit = [j for j, col in enumerate(real) if col == ent and j not in got_idx]
                    if not hit:
                        ok = False
                        break
                    i = hit[0]
                got_idx.append(i)
        if not ok or sorted(got_idx) != exp_idx:
            fails.add("table-filter", lambda: {"what": "filter_constraint_table does not return exactly the columns containing the given values",
                                       "inputs": dict(inputs0, values=dict(vals)), "expected": exp_idx, "observed": repr(flt)})
        ia = ct.is_allowed_combination(real, dict(vals))
        if ia is not bool(exp_idx):
            fails.add("table-is_allowed", lambda: {"what": "is_allowed_combination disagrees with 'some column contains every given value'",
                                           "inputs": dict(inputs0, values=dict(vals)), "expected": bool(exp_idx), "observed": ia})
        cache[key] = ia
        return ia

    r = len(keys)
    has_any = any(c is ANY for col in model for c in col.values())
    for ki, k in enumerate(keys + [nokey]):
        others = [x for x in keys if x != k]
        if k is nokey:
            # a key no column lists: nothing chosen, and one complete assignment
            choices = [(None,) * r, tuple(range(r))] if u >= r else [(None,) * r]
            choices = [tuple(None if c is None else c % u for c in ch) for ch in choices]
        else:
            # every partial assignment of the other keys (None = not chosen)
            choices = itertools.product([None] + list(range(u)), repeat=len(others))
        for choice in choices:
            vals = dict((o, c) for o, c in zip(others, choice) if c is not None)
            counters["avf"] += 1
            S = ct.allowed_values_for(real, k, dict(vals))
            if not isinstance(S, ct.ValueSet):
                fails.add("table-allowed_values_for-type", lambda: {"what": "allowed_values_for did not return a ValueSet", "inputs": dict(inputs0, key=k, values=vals),
                                                            "expected": "ValueSet", "observed": repr(S)})
                continue
            mv = _m_values_for(model, k, vals) if (has_catch_all or has_any) else None
            for v in range(u + 1):
                lhs = v in S
                ext = dict(vals)
                ext[k] = v
                rhs_real = allowed_real(ext)
                if has_catch_all:
                    exp = True if mv is ANY else (v in mv)
                else:
                    exp = _m_allowed(model, ext)  # the property's equivalence
                if lhs is not exp or (not has_catch_all and lhs is not rhs_real):
                    fails.add("table-allowed_values_for", lambda: {
                        "what": "v in allowed_values_for(T, k, vals) differs from is_allowed_combination(T, vals + {k: v})" if not has_catch_all
                        else "allowed_values_for differs from the union of the values listed for the key by the columns containing vals",
                        "inputs": dict(inputs0, key=k, values=vals, v=v), "expected": exp,
                        "observed": {"v in allowed_values_for": lhs, "is_allowed_combination(extended)": rhs_real}})
            # any_value substitution as documented: the substitute is returned exactly when AnyValue is allowed
            if has_any or has_catch_all or not vals:
                if mv is None:
                    mv = _m_values_for(model, k, vals)
                counters["avf"] += 1
                sub = ct.ValueSet(12345)
                S2 = ct.allowed_values_for(real, k, dict(vals), sub)
                if (S2 is sub) is not (mv is ANY) or isinstance(S, ct.AnyValue) is not (mv is ANY):
                    fails.add("table-any_value", lambda: {"what": "allowed_values_for(any_value=...) substitutes exactly when AnyValue is allowed",
                                                  "inputs": dict(inputs0, key=k, values=vals), "expected": mv is ANY,
                                                  "observed": {"substituted": S2 is sub, "default result is AnyValue": isinstance(S, ct.AnyValue)}})
    allowed_real({})

    if do_validator and vmods and not has_catch_all:
        assertions, level_constraints, VNA, State = vmods
        _install_table(vmods, real)

        def walk(prefix, depth):
            k = keys[depth]
            for v in range(u):
                counters["validator"] += 1
                st = State()
                if depth:
                    st["_level_constrained_values"] = OrderedDict(prefix)
                ext = OrderedDict(prefix)
                ext[k] = v
                exp = _m_allowed(model, ext)  # the prefix ending here is an allowed combination
                exc = None
                try:
                    assertions.assert_level_constraint(st, k, v)
                    acc = True
                except VNA as e:
                    acc = False
                    exc = e
                after = list(st.get("_level_constrained_values", {}).items())
                want_after = list(ext.items()) if exp else list(prefix)
                if acc is not exp or after != want_after:
                    fails.add("validator-sequence", lambda: {
                        "what": "one-at-a-time check (assert_level_constraint) does not accept exactly the sequences whose every prefix is an allowed combination",
                        "inputs": dict(inputs0, sequence=list(ext.items())), "expected": {"accepted": exp, "recorded": want_after},
                        "observed": {"accepted": acc, "recorded": after}})
                elif exc is not None and (getattr(exc, "key", k) != k or getattr(exc, "value", v) != v):
                    fails.add("validator-exception-fields", lambda: {"what": "ValueNotAllowedInLevel names another key/value than the rejected one",
                                                             "inputs": dict(inputs0, sequence=list(ext.items())), "expected": [k, v],
                                                             "observed": [getattr(exc, "key", None), getattr(exc, "value", None)]})
                if acc and exp and depth + 1 < r:
                    walk(list(ext.items()), depth + 1)

        walk([], 0)


def _w_tables(job):
    """job: (ncols, nkeys, u, specials, index iterable spec, seed)"""
    ncols, nkeys, u, specials, spec, sym, seed = job
    ct = _load()
    vmods = None if _VALIDATOR_BROKEN else _load_validator()
    cells = _cell_variants(ct, u)
    special_any[0] = ct.AnyValue()
    keys = ["k%d" % i for i in range(nkeys)]
    base = len(cells) + len(specials)
    ncell = ncols * nkeys
    fails = _Fails()
    counters = {"tables": 0, "queries": 0, "avf": 0, "validator": 0, "nontrivial": 0}
    saved = (getattr(vmods[0], "LEVEL_CONSTRAINTS", None), vmods[1].LEVEL_CONSTRAINTS) if vmods else None
    if spec[0] == "range":
        indices = range(spec[1], spec[2])
    else:
        rng = random.Random(seed * 104729 + spec[1] + 1000 * (ncols + 10 * nkeys + 100 * u + 1000 * len(specials)))
        indices = (rng.randrange(base ** ncell) for _ in range(spec[2]))
    colbase = base ** nkeys
    try:
        for idx in indices:
            if sym:
                # columns in non-decreasing order of their code (tables are lists, but a column permutation of a table is the
                # same set of combinations; the filter-order check still runs on every kept table)
                cs = [(idx // colbase ** c) % colbase for c in range(ncols)]
                if any(cs[i] > cs[i + 1] for i in range(ncols - 1)):
                    continue
            digits = []
            x = idx
            for _ in range(ncell):
                digits.append(x % base)
                x //= base
            real, model, ttext = _table_from_digits(digits, ncols, keys, cells, specials, idx)
            counters["tables"] += 1
            if len(set(ttext[1:-1].split("}, {"))) > 1 or (ncols == 1 and any(col and all(c is ANY or c for c in col.values()) for col in model)):
                counters["nontrivial"] += 1
            try:
                _check_table(ct, vmods, real, model, ttext, keys, u, fails, counters)
            except Exception:
                fails.add("table-exception", lambda: {"what": "unexpected exception from the constraint-table functions", "inputs": {"table": ttext},
                                              "expected": "no exception", "observed": traceback.format_exc(limit=6)})
    finally:
        if vmods:
            vmods[0].LEVEL_CONSTRAINTS, vmods[1].LEVEL_CONSTRAINTS = saved
    # the shared cell objects must not have been modified by any query
    for s, variants, texts in cells:
        for v, t in zip(variants, texts):
            if [x in v for x in range(-1, u + 1)] != [x in s for x in range(-1, u + 1)]:
                fails.add("table-cell-mutated", lambda: {"what": "a query modified a ValueSet of the table", "inputs": {"cell": t}, "expected": sorted(s),
                                                 "observed": [x for x in range(-1, u + 1) if x in v]})
    return counters, fails


def _split_jobs(ncols, nkeys, u, specials, sym, seed, sample=None, pieces=None):
    base = (1 << u) + len(specials)
    total = base ** (ncols * nkeys)
    pieces = pieces or NPROC * 4
    if sample is not None:
        per = max(1, sample // pieces)
        return [(ncols, nkeys, u, specials, ("sample", i, per), sym, seed) for i in range(pieces)], per * pieces
    step = max(1, -(-total // pieces))
    return [(ncols, nkeys, u, specials, ("range", lo, min(total, lo + step)), sym, seed) for lo in range(0, total, step)], total


def _part_tables(rep, tier, seed):
    ct = _load()
    if not _VALIDATOR_BROKEN:
        _canary_patch(ct, _load_validator())
    else:
        rep.extra_assumptions.append("the validator modules could not be imported (reported as a violation); the one-at-a-time clause was NOT exercised in this run")
    thorough = tier == "thorough"
    total = _Fails()
    plain, special = [], []
    # (ncols, nkeys, universe size, symmetric reduction, sample or None)
    for nk in (1, 2, 3):
        plain.append((1, nk, 4, False, None))
    plain += [(2, 1, 4, False, None)]
    if thorough:
        plain += [(2, 2, 4, False, None), (2, 3, 3, False, None), (2, 3, 4, False, 250000), (2, 2, 5, True, None), (3, 2, 3, True, None), (3, 2, 4, False, 300000),
                  (3, 3, 2, False, None), (3, 3, 3, False, 100000)]
    else:
        plain += [(2, 2, 4, True, None), (2, 3, 2, False, None), (2, 3, 3, False, 24000), (2, 3, 4, False, 6000), (3, 2, 3, True, None)]
    sp = ("ANY", "MISSING")
    special += [(1, 2, 3, False, None), (2, 1, 3, False, None), (2, 2, 3, False, None)]
    if thorough:
        special += [(2, 3, 2, False, None), (3, 2, 2, False, None), (2, 3, 3, False, 150000), (3, 3, 2, False, 150000), (3, 2, 3, False, 200000)]
    else:
        special += [(2, 3, 2, True, None), (3, 2, 2, True, None), (2, 3, 3, False, 6000)]

    def run(configs, specials):
        jobs, descr = [], []
        for (nc, nk, u, sym, sample) in configs:
            js, n = _split_jobs(nc, nk, u, specials, sym, seed, sample)
            jobs += js
            if sym:
                import math

                n = math.comb(((1 << u) + len(specials)) ** nk + nc - 1, nc)
            descr.append("%d column(s) x %d key(s) over 0..%d: %s" % (nc, nk, u - 1, ("%d seeded random tables" % n) if sample else
                                                                     ("all %d tables%s" % (n, " (one per multiset of columns, i.e. up to column order)" if sym else ""))))
        agg = {"tables": 0, "queries": 0, "avf": 0, "validator": 0, "nontrivial": 0}
        fl = _Fails()
        for (c, f) in _pool_map(_w_tables, jobs):
            for k in agg:
                agg[k] += c[k]
            fl.merge(f)
        return agg, fl, descr

    agg, fl, descr = run(plain, ())
    total.merge(fl)
    sampled = any(c[4] for c in plain)
    rep.add_bounded(
        "C17.tables.no-catch-all",
        "Tables without catch-all columns, every column listing every key, every cell any subset of the universe (built as values, as maximal ranges, or mixed): "
        + "; ".join(descr) + ". For every table: every partial assignment vals of the keys (values in the universe), every key k not in vals and a key no column lists, "
        "every v in the universe plus one value outside it: v in allowed_values_for(T, k, vals) == is_allowed_combination(T, vals + {k: v}) == (some column contains the "
        "combination); filter_constraint_table returns exactly the containing columns; and the real assert_level_constraint, run with the "
        "enumerated table in place of LEVEL_CONSTRAINTS, on every sequence of values for the keys in the fixed order k0, k1, k2 (distinct keys, values in the universe): a value is "
        "accepted and recorded iff the prefix ending with it is an allowed combination, and a rejected value leaves the recorded values unchanged",
        agg["tables"], not sampled, distinct=agg["nontrivial"],
        samples=_samples_tables(ct),
        note="evaluations = tables; on them %d filter/is_allowed queries, %d allowed_values_for calls, %d assert_level_constraint calls. distinct = tables with >= 2 different columns"
             % (agg["queries"], agg["avf"], agg["validator"]))
    agg2, fl, descr = run(special, sp)
    total.merge(fl)
    rep.add_bounded(
        "C17.tables.any-missing-catch-all",
        "Tables whose cells are any subset of the universe, an AnyValue cell, or absent (a column with no cells at all is the documented 'catch all' column): " + "; ".join(descr)
        + ". filter/is_allowed against 'a column contains a combination iff it lists every given key with a set containing the value, or is empty'; allowed_values_for against "
        "the property's equivalence when the table has no catch-all column and against the union of the sets the containing columns list for the key when it has one; the "
        "any_value substitute is returned exactly when AnyValue is allowed; the one-at-a-time validator check as above on the tables without a catch-all column",
        agg2["tables"], not any(c[4] for c in special), distinct=agg2["nontrivial"],
        note="evaluations = tables; %d filter/is_allowed queries, %d allowed_values_for calls, %d assert_level_constraint calls" % (agg2["queries"], agg2["avf"], agg2["validator"]))
    return total


# ================================================================================================
# (3) CSV
# ================================================================================================
_DITTO_CHARS = set(['"', "“", "”", "„", "‟", "″", "〃"])


def _csv_records(text):
    """Independent minimal RFC-4180 reader: comma separated, double-quoted fields with "" as an escaped
    quote, records end at CR, LF or CRLF outside quotes."""
    rows, row, field = [], [], []
    i, n = 0, len(text)
    inq = False
    started = False  # a field has been started on this record
    while i < n:
        c = text[i]
        if inq:
            if c == '"':
                if i + 1 < n and text[i + 1] == '"':
                    field.append('"')
                    i += 1
                else:
                    inq = False
            else:
                field.append(c)
        elif c == '"':
            inq = True
            started = True
        elif c == ",":
            row.append("".join(field))
            field = []
            started = True
        elif c in "\r\n":
            if c == "\r" and i + 1 < n and text[i + 1] == "\n":
                i += 1
            if started or field:
                row.append("".join(field))
            rows.append(row)
            row, field, started = [], [], False
        else:
            field.append(c)
            started = True
        i += 1
    if inq:
        raise ValueError("unterminated quoted field")
    if started or field:
        row.append("".join(field))
        rows.append(row)
    return rows


def _m_cell(cell, left):
    """Documented cell format -> ('any',) | ('set', [atoms]) where an atom is ('v', x) or ('r', lo, hi)."""
    s = cell.strip()
    if s and all(ch in _DITTO_CHARS or ch.isspace() for ch in s):
        if left is None:
            raise ValueError("ditto in the first value column: not covered by the documented format")
        return left
    if s == "any":
        return ("any",)
    if s == "":
        return ("set", [])
    atoms = []
    for tok in s.split(","):
        t = tok.strip()
        if t == "TRUE":
            atoms.append(("v", True))
        elif t == "FALSE":
            atoms.append(("v", False))
        elif t.isdigit():
            atoms.append(("v", int(t)))
        else:
            lo, sep, hi = t.partition("-")
            if not (sep and lo.strip().isdigit() and hi.strip().isdigit()):
                raise ValueError("cell %r is not of the documented format" % (cell,))
            atoms.append(("r", int(lo), int(hi)))
    return ("set", atoms)


def _m_read_csv(text):
    """Independent reader of the documented table format -> list (one per value column) of {key: cell model}."""
    out = []
    for row in _csv_records(text):
        if all((not c.strip()) or c.strip().startswith("#") for c in row):
            continue  # empty rows and rows of only '#'-prefixed (or empty) cells are skipped
        while len(out) < len(row) - 1:
            out.append({})
        left = None
        for i, cell in enumerate(row[1:]):
            left = _m_cell(cell, left)
            out[i][row[0]] = left
    return out


def _cell_member(cm, x):
    if cm[0] == "any":
        return True
    for a in cm[1]:
        if a[0] == "v":
            if x == a[1]:
                return True
        elif a[1] <= x <= a[2]:
            return True
    return False


def _cell_points(cm):
    pts = set()
    if cm[0] == "set":
        for a in cm[1]:
            pts.update(a[1:])
    return pts


def _compare_csv(ct, real, model, fails, inputs, kindprefix):
    """cell by cell comparison of the real table with the independently read one; returns cells compared"""
    n = 0
    if not isinstance(real, list) or len(real) != len(model):
        fails.add(kindprefix + "-shape", lambda: {"what": "number of columns read from the CSV differs", "inputs": inputs, "expected": len(model),
                                          "observed": len(real) if isinstance(real, list) else repr(real)})
        return n
    for ci, (rc, mc) in enumerate(zip(real, model)):
        if sorted(rc.keys()) != sorted(mc.keys()):
            fails.add(kindprefix + "-keys", lambda: {"what": "keys of a column read from the CSV differ", "inputs": dict(inputs, column=ci),
                                             "expected": sorted(mc.keys()), "observed": sorted(rc.keys())})
            continue
        for k, cm in mc.items():
            n += 1
            rv = rc[k]
            is_any = isinstance(rv, ct.AnyValue)
            ok = isinstance(rv, ct.ValueSet) and is_any is (cm[0] == "any")
            detail = None
            if ok and not is_any:
                items = list(rv)
                pts = set(_cell_points(cm))
                for it in items:
                    pts.update(it if isinstance(it, tuple) else (it,))
                probes = set([True, False])
                for p in pts:
                    probes.update((p - 1, p, p + 1))
                diff = sorted(x for x in probes if (x in rv) is not _cell_member(cm, x))
                # written booleans must come back as bool, written integers as int
                want_types = set(type(a[1]).__name__ for a in cm[1] if a[0] == "v") | set("int" for a in cm[1] if a[0] == "r")
                got_types = set(type(z).__name__ for it in items for z in (it if isinstance(it, tuple) else (it,)))
                if diff or not got_types <= want_types:
                    ok = False
                    detail = {"differing probe values": diff[:12], "types read": sorted(got_types), "types written": sorted(want_types), "read": repr(rv)}
            elif ok and is_any:
                ok = all(x in rv for x in (0, 1, 10 ** 9, True, "x"))
            if not ok:
                fails.add(kindprefix + "-cell", lambda: {"what": "cell read from the CSV does not contain exactly the values, ranges, 'any' or ditto content written in the file",
                                                 "inputs": dict(inputs, column=ci, key=k), "expected": repr(cm), "observed": detail or repr(rv)})
    return n


def _gen_csv(rng):
    """Own writer: a random table in the documented format. -> (text, description of features used)"""
    ncols = rng.randint(1, 5)
    nrows = rng.randint(1, 7)
    eol = rng.choice(["\n", "\r\n"])
    lines = []
    feats = set()

    def q(cell, force=False):
        if force or "," in cell or '"' in cell or rng.random() < 0.15:
            return '"' + cell.replace('"', '""') + '"'
        return cell

    def token():
        r = rng.random()
        if r < 0.5:
            return str(rng.choice([0, 1, 2, 3, 5, 7, 8, 9, 10, 16, 64, 255, 1920, rng.randint(0, 40)]))
        if r < 0.8:
            lo = rng.randint(0, 30)
            feats.add("range")
            return "%d-%d" % (lo, lo + rng.choice([0, 1, 2, 5, 100]))
        feats.add("bool")
        return rng.choice(["TRUE", "FALSE"])

    def comment_row():
        w = rng.randint(1, ncols + 1)
        cells = [rng.choice(["# note", "#", "# (11.2.1)", "", " "]) for _ in range(w)]
        if rng.random() < 0.5:
            cells[0] = "# c"
        feats.add("comment/empty row")
        return ",".join(q(c) for c in cells)

    for r in range(nrows):
        while rng.random() < 0.25:
            lines.append(comment_row() if rng.random() < 0.7 else "")
        cells = ["key%d" % r if rng.random() < 0.8 else "k %d" % r]
        for c in range(ncols):
            x = rng.random()
            if x < 0.15:
                cells.append("")
                feats.add("empty cell")
            elif x < 0.30:
                cells.append("any")
                feats.add("any")
            elif x < 0.50 and c > 0:
                cells.append(rng.choice(['"', '"', "“"]))
                feats.add("ditto")
            else:
                k = rng.choice([1, 1, 1, 2, 3, 4])
                if k > 1:
                    feats.add("list")
                cells.append(",".join(token() for _ in range(k)))
        lines.append(",".join([q(cells[0])] + [q(c) for c in cells[1:]]))
    while rng.random() < 0.3:
        lines.append(comment_row())
    text = eol.join(lines) + (eol if rng.random() < 0.8 else "")
    return text, feats


def _w_csv(job):
    lo, hi, seed, tmpdir = job
    ct = _load()
    fails = _Fails()
    n_files = n_cells = 0
    feats_seen = {}
    for i in range(lo, hi):
        rng = random.Random(seed * 15485863 + i)
        text, feats = _gen_csv(rng)
        model = _m_read_csv(text)
        path = os.path.join(tmpdir, "t%d.csv" % i)
        with open(path, "w", encoding="utf-8", newline="") as f:
            f.write(text)
        n_files += 1
        for ft in feats:
            feats_seen[ft] = feats_seen.get(ft, 0) + 1
        inputs = {"csv_text": text}
        try:
            real = ct.read_constraints_from_csv(path)
            n_cells += _compare_csv(ct, real, model, fails, inputs, "csv")
        except Exception:
            fails.add("csv-exception", lambda: {"what": "read_constraints_from_csv raised on a table in the documented format", "inputs": inputs,
                                        "expected": "no exception", "observed": traceback.format_exc(limit=6)})
        os.unlink(path)
    return n_files, n_cells, feats_seen, fails


def _part_csv(rep, tier, seed):
    ct = _load()
    thorough = tier == "thorough"
    total = _Fails()
    nfiles = 6000 if thorough else 800
    tmpdir = tempfile.mkdtemp(prefix="c17_csv_")
    try:
        step = max(1, nfiles // (NPROC * 2))
        jobs = [(lo, min(nfiles, lo + step), seed, tmpdir) for lo in range(0, nfiles, step)]
        nf = nc = 0
        feats = {}
        for (a, b, fs, fl) in _pool_map(_w_csv, jobs):
            nf += a
            nc += b
            for k, v in fs.items():
                feats[k] = feats.get(k, 0) + v
            total.merge(fl)
    finally:
        shutil.rmtree(tmpdir, ignore_errors=True)
    rep.add_bounded(
        "C17.csv.random",
        "SAMPLED (seeded, seed=%d): %d CSV texts from an own writer: 1..5 value columns x 1..7 key rows plus interleaved empty / '#'-comment rows; cells: empty, 'any', ditto "
        "(\" or “, never in the first value column), or 1..4 comma-separated tokens each a non-negative integer, an inclusive range lo-hi with lo <= hi, TRUE or FALSE; random "
        "quoting, LF or CRLF; rectangular rows, unique keys. Each file is read by read_constraints_from_csv and by an independent reader of the documented format; compared "
        "cell by cell: AnyValue vs ValueSet, membership on every written/read endpoint +-1 and True/False, and the Python types of the values read (bool vs int)" % (seed, nf),
        nf, False, distinct=nc,
        samples=_samples_csv(ct, seed),
        note="distinct = cells compared; files using each feature: %s" % ", ".join("%s: %d" % kv for kv in sorted(feats.items())))

    # ---- the shipped level_constraints.csv
    import vc2_conformance

    lc = None
    if not _VALIDATOR_BROKEN:
        import vc2_conformance.level_constraints as lc

    path = os.path.join(os.path.dirname(os.path.abspath(vc2_conformance.__file__)), "level_constraints.csv")
    with open(path, encoding="utf-8", newline="") as f:
        text = f.read()
    model = _m_read_csv(text)
    fl = _Fails()
    n1 = n2 = 0
    try:
        n1 = _compare_csv(ct, ct.read_constraints_from_csv(path), model, fl, {"csv_file": path}, "levelcsv")
    except Exception:
        tb = traceback.format_exc(limit=8)
        fl.add("levelcsv-exception", lambda: {"what": "read_constraints_from_csv raised on the shipped level_constraints.csv", "inputs": {"csv_file": path},
                                              "expected": "no exception", "observed": tb})
    if lc is not None:
        n2 = _compare_csv(ct, lc.LEVEL_CONSTRAINTS, model, fl, {"csv_file": path, "table": "vc2_conformance.level_constraints.LEVEL_CONSTRAINTS"}, "leveltable")
    total.merge(fl)
    ncell = sum(len(c) for c in model)
    rep.add_eval_fact("C17.level_constraints.csv read by read_constraints_from_csv equals the independent parse cell by cell",
                      sum(v for k, v in fl.count.items() if k.startswith("levelcsv")) == 0 and n1 == ncell,
                      "%d columns, %d cells (%d 'any', %d ditto-derived or plain sets)" % (len(model), ncell, sum(1 for c in model for v in c.values() if v[0] == "any"),
                                                                                        sum(1 for c in model for v in c.values() if v[0] != "any")))
    rep.add_eval_fact("C17.the live LEVEL_CONSTRAINTS table equals the independent parse of level_constraints.csv cell by cell",
                      sum(v for k, v in fl.count.items() if k.startswith("leveltable")) == 0 and n2 == ncell, "%d cells" % n2)
    if lc is None:
        return total

    # ---- the property's equivalence on the live level table, along seeded random one-at-a-time walks
    keys = []
    for c in model:
        for k in c:
            if k not in keys:
                keys.append(k)
    rng = random.Random(seed * 32452843 + 17)
    nwalks = 1500 if thorough else 300
    table = lc.LEVEL_CONSTRAINTS
    n_q = 0
    n_rej = 0
    mtable = [dict((k, ANY if v[0] == "any" else _CellSet(v)) for k, v in c.items()) for c in model]
    if any(len(c) == 0 for c in mtable):
        rep.extra_assumptions.append("the live level table has a catch-all column; the equivalence walk on it was skipped")
        nwalks = 0
    for w in range(nwalks):
        col = rng.choice(model)
        order = [k for k in keys if rng.random() < 0.25]
        vals = OrderedDict()
        for k in order:
            cm = col.get(k, ("set", []))
            pts = sorted(_cell_points(cm)) or [0, 1]
            if rng.random() < 0.75:
                v = rng.choice(pts) if cm[0] == "set" else rng.randint(0, 20)
            else:
                v = rng.choice(pts) + rng.choice([-1, 1, 2, 7])
            if cm[0] == "set" and any(isinstance(a[1], bool) for a in cm[1] if a[0] == "v") and rng.random() < 0.8:
                v = rng.choice([True, False])
            n_q += 1
            ext = dict(vals)
            ext[k] = v
            exp = _m_allowed(mtable, ext)
            S = ct.allowed_values_for(table, k, dict(vals))
            lhs = v in S
            rhs = ct.is_allowed_combination(table, ext)
            if lhs is not exp or rhs is not exp:
                total.add("leveltable-equivalence", lambda: {"what": "on the live level table: v in allowed_values_for(T, k, vals) / is_allowed_combination(T, vals + {k: v}) differ from the independent parse",
                                                    "inputs": {"key": k, "v": v, "values": dict(vals)}, "expected": exp,
                                                    "observed": {"v in allowed_values_for": lhs, "is_allowed_combination": rhs}})
            if not exp:
                n_rej += 1
                break
            vals[k] = v
    rep.add_bounded(
        "C17.leveltable.walks",
        "SAMPLED (seeded): %d random one-at-a-time walks over the live LEVEL_CONSTRAINTS table (random subset of keys in file order; values drawn from a random column's cell "
        "or perturbed by -1/+1/+2/+7): at each step v in allowed_values_for(T, k, chosen) == is_allowed_combination(T, chosen + {k: v}) == membership in the independently "
        "parsed CSV model" % nwalks, n_q, False, distinct=n_rej, note="distinct = walks ended by a rejected value")
    return total


class _CellSet(object):
    """frozenset-like view of a CSV cell model (values and inclusive ranges) for the table model"""

    def __init__(self, cm):
        self.cm = cm

    def __contains__(self, x):
        return _cell_member(self.cm, x)


# ------------------------------------------------------------------------------------------------
# samples: a few of the enumerated cases, re-run here so that the evidence shows observed results
# ------------------------------------------------------------------------------------------------
def _samples_valueset(ct):
    atoms = dict((a.text, a) for a in _universe("int7")[0])
    out = []
    for texts, mode in (((("(0, 1)", "(3, 4)", "(1, 3)")), (1, ("M", "R"))), (("2", "(0, 1)", "(3, 3)"), ("S", 1)), (("(2, 5)", "5", "(6, 6)"), (0, ("L", "M", "R")))):
        seq = [atoms[t] for t in texts]
        vs = _build(ct.ValueSet, seq, mode)
        out.append("%s -> members among -1..7: %r, str: %s" % (_program_text(seq, mode), [x for x in range(-1, 8) if x in vs], str(vs)))
    return out


def _samples_pairs(ct):
    out = []
    for a, b in ((((0, 6),), ((2, 3),)), ((1, (3, 4)), (2, (5, 6))), (((0, 2),), ((3, 4),))):
        A, B = ct.ValueSet(*a), ct.ValueSet(*b)
        out.append("%r.is_disjoint(%r) = %r; union members among -1..7: %r" % (A, B, A.is_disjoint(B), [x for x in range(-1, 8) if x in (A + B)]))
    return out


def _samples_tables(ct):
    T = [{"k0": ct.ValueSet(0, 1), "k1": ct.ValueSet((2, 3))}, {"k0": ct.ValueSet(1), "k1": ct.ValueSet(0)}]
    S = ct.allowed_values_for(T, "k1", {"k0": 0})
    return ["T = %r: allowed_values_for(T, 'k1', {'k0': 0}) = %r; is_allowed_combination(T, {'k0': 0, 'k1': v}) for v in 0..4 = %r"
            % (T, S, [ct.is_allowed_combination(T, {"k0": 0, "k1": v}) for v in range(5)])]


def _samples_csv(ct, seed):
    text, _ = _gen_csv(random.Random(seed * 15485863 + 0))
    d = tempfile.mkdtemp(prefix="c17_csv_")
    try:
        path = os.path.join(d, "sample.csv")
        with open(path, "w", encoding="utf-8", newline="") as f:
            f.write(text)
        return ["csv text %r is read as %r" % (text, ct.read_constraints_from_csv(path))]
    finally:
        shutil.rmtree(d, ignore_errors=True)


# ================================================================================================
# observations outside the statement (recorded, never a verdict)
# ================================================================================================
def _observations(rep):
    ct = _load()
    obs = {}
    try:
        a = ct.ValueSet((5, 3))
        obs["reversed range (lo > hi), excluded by the bound lo <= hi"] = {
            "ValueSet((5, 3)) contains any of 2..6": any(x in a for x in range(2, 7)),
            "ValueSet((5, 3)).is_disjoint(ValueSet(5))": a.is_disjoint(ct.ValueSet(5)),
        }
    except Exception as e:
        obs["reversed range (lo > hi), excluded by the bound lo <= hi"] = repr(e)
    try:
        obs["string queried against an integer range (mixed incomparable types, excluded)"] = repr("a" in ct.ValueSet((1, 3)))
    except Exception as e:
        obs["string queried against an integer range (mixed incomparable types, excluded)"] = "raises " + type(e).__name__
    T = [{"k": ct.ValueSet(1), "j": ct.ValueSet(0)}, {"k": ct.ValueSet(2), "j": ct.ValueSet(0)}]
    obs["repeated key (excluded: sequences have distinct keys)"] = {
        "table": "[{'k': ValueSet(1), 'j': ValueSet(0)}, {'k': ValueSet(2), 'j': ValueSet(0)}]",
        "2 in allowed_values_for(T, 'k', {'k': 1}) (what a second assert_level_constraint('k', 2) after k=1 consults)": 2 in ct.allowed_values_for(T, "k", {"k": 1}),
        "is_allowed_combination(T, {'k': 2})": ct.is_allowed_combination(T, {"k": 2}),
    }
    rep.extra_coverage["C17_observations_outside_the_checked_bounds"] = obs


# ================================================================================================
# hook
# ================================================================================================
def check_c17(rep, tier, seed):
    _load()
    total = _Fails()
    try:
        _load_validator()
    except Exception:
        tb = traceback.format_exc(limit=12)
        if "constraint_table.py" not in tb:
            raise  # not attributable to the code under check: a checker error
        # importing the validator loads the level table through read_constraints_from_csv: its failure is a finding
        _VALIDATOR_BROKEN.append(tb)
        total.add("levelcsv-exception", {"what": "loading vc2_conformance.level_constraints / decoder.assertions (which reads level_constraints.csv through "
                                                 "read_constraints_from_csv) raised", "inputs": {"import": "vc2_conformance.decoder.assertions"},
                                         "expected": "no exception", "observed": tb})
    total.merge(_part_valueset(rep, tier, seed))
    total.merge(_part_tables(rep, tier, seed))
    total.merge(_part_csv(rep, tier, seed))
    _observations(rep)
    for kind in sorted(total.kept):
        rep.say("C17 %s: %d failing case(s)" % (kind, total.count[kind]))
        for i, payload in enumerate(total.kept[kind]):
            payload = dict(payload)
            payload["failing_cases_of_this_kind"] = total.count[kind]
            rep.violation("%s-%d" % (kind, i), payload)
    rep.extra_coverage["C17_failing_cases_by_kind"] = dict(total.count)
    rep.extra_coverage["explanation"] = (
        "BOUNDED stand-in, not a proof: the real ValueSet/AnyValue class, filter_constraint_table, is_allowed_combination, allowed_values_for, "
        "assert_level_constraint and read_constraints_from_csv of the tree under check were executed on the enumerated / seeded-random inputs listed under "
        "bounded_checks and compared with an independent set-semantics model (Python frozensets; own CSV reader); 'evaluations' counts programs, pairs, tables "
        "and files run on the real code; the two 'obligations' are the ground comparisons of the shipped level_constraints.csv with the independent parse")
    rep.extra_coverage["trusted_base"] = ["CPython 3.12 (set/frozenset semantics as reference)", "the independent model and CSV reader in /verif/bounded/c17_constraint_table.py"]
    rep.extra_coverage["checker_cmd"] = "./verif check C17 --tier %s  (bounded enumeration in a %d-process fork pool; no solver involved)" % (tier, NPROC)


_VALIDATOR_BROKEN = []


REGISTER = {
    "C17": dict(
        extra=[check_c17],
        level="other",
        assumptions=[
            "BOUNDED stand-in, not a proof: every claim is limited to the enumerated / sampled domains listed under bounded_checks",
            "ValueSet: integer universes 0..6 (quick) / 0..8 (thorough), <= 3 operations in every build mode (thorough: 4 operations in 6 build modes); ranges always have lo <= hi "
            "(a reversed range is outside the bound; see C17_observations_outside_the_checked_bounds); strings only as single values; bool/IntEnum members only where they "
            "compare as integers; values of mutually incomparable types (a string against an integer range) are outside the bound",
            "equality of ValueSets is checked for soundness only (== implies same set); neither the property nor the docstrings promise that equal sets compare equal, and they do not",
            "constraint tables (columns x keys over universe), quick tier: exhaustive 1x1, 1x2, 1x3, 2x1 over 0..3, 2x2 over 0..3 and 3x2 over 0..2 up to column order, 2x3 over 0..1; "
            "seeded samples of 2x3 over 0..2 (24000 tables) and over 0..3 (6000). Thorough tier: exhaustive 2x2 over 0..3, 2x3 over 0..2, 3x3 over 0..1, 2x2 over 0..4 and 3x2 over 0..2 "
            "up to column order; seeded samples of 2x3 over 0..3 (250000), 3x2 over 0..3 (300000), 3x3 over 0..2 (100000). Tables with AnyValue cells / missing keys / catch-all "
            "columns: exhaustive up to 2x2 over 0..2, 2x3 and 3x2 over 0..1; sampled 2x3 over 0..2 (thorough also 3x3 over 0..1 and 3x2 over 0..2). String keys. The exact "
            "counts of each run are in the domain strings",
            "the validator clause runs the real assert_level_constraint with the module global LEVEL_CONSTRAINTS (in decoder/assertions.py and level_constraints.py) replaced by the "
            "enumerated table (a canary confirms the replacement is effective), on a fresh State per sequence, keys distinct and in one fixed order; sequences that check the same "
            "key twice (as the validator does for per-picture and per-slice values) are NOT covered",
            "a 'catch-all column' is read as a column with no cells at all (the code comment's 'catch all' rule); a key missing from a non-empty column means the column does not "
            "contain any combination mentioning that key (module docstring: the 'pickleable' example)",
            "CSV: an independent RFC-4180 reader and an independent reader of the documented cell format; generated files are rectangular, have unique keys, non-negative integers, "
            "ranges with lo <= hi, upper-case TRUE/FALSE, lower-case 'any', no ditto in the first value column; '-5' style negative numbers are outside the documented format",
            "trusted: CPython set/frozenset semantics as the reference model; the csv dialect of the shipped file is plain RFC-4180",
        ],
        manifest=dict(
            category="other",
            technique="bounded exhaustive / seeded enumeration of the real ValueSet, constraint-table and CSV functions against an independent set-semantics model",
            text="Bounded stand-in: ValueSet membership/union/is_disjoint exhaustively for all programs of <= 3 (thorough 4) operations over 0..6 (0..8); the allowed_values_for <=> "
                 "is_allowed_combination equivalence and the validator's one-at-a-time acceptance exhaustively for small tables (<= 2x3 over 0..2/0..3, 3x2), with AnyValue cells, missing "
                 "keys and catch-all columns against the documented semantics; read_constraints_from_csv against an independent reader on seeded random CSVs and on the shipped "
                 "level_constraints.csv (every cell).",
            note="Not a proof. Not covered: reversed ranges, incomparable mixed types, repeated keys in the one-at-a-time check, larger tables/universes, CSV text outside the documented format.",
        ),
    ),
}
