"""C02 / C01 / C10: picture_parse, fragments, reset_state, parse_sequence, parse_stream."""
from pyvc.api import *
from contracts.c02_common import *
from contracts.c02_stream import FRAME_IO, IO_POST, is_parse_code, seq_keys_consistent  # noqa: F401
from contracts.c02_sequence_header import coding_params_known, hdr_known, vp_full  # noqa: F401
from contracts.c02_picture import ld_code, hq_code, qm_shape, tp_known, wavelet_known, slices_known, TP_MOD, TP_KEYS  # noqa: F401
from contracts.c02_transform_data import slice_ctx, transforms_ok, FRAME_IOB  # noqa: F401
from vc2_conformance.decoder.exceptions import *  # noqa: F401,F403

PS = "vc2_conformance.decoder.picture_syntax."
FS = "vc2_conformance.decoder.fragment_syntax."
S_ = "vc2_conformance.decoder.stream."
ST = "vc2_conformance.pseudocode.state."
PD = "vc2_conformance.pseudocode.picture_decoding."


@inline
def numbering_ok(state):
    return (has(state, "_num_pictures_in_sequence") and state["_num_pictures_in_sequence"] >= 0
            and has(state, "_last_picture_number") == has(state, "_last_picture_number_offset"))


PIC_PRE = ["dinv(state)", 'not has(state, "_recorded_bytes")', "hdr_known(state)", "numbering_ok(state)",
           'has(state, "parse_code") and (ld_code(state["parse_code"]) or hq_code(state["parse_code"]))']
NUM_MOD = ['state["picture_number"]', 'state["_last_picture_number"]', 'state["_last_picture_number_offset"]', 'state["_num_pictures_in_sequence"]']
TD_MOD = FRAME_IOB + ['state["quantizer"]', "all_grids()", 'state["y_transform"]', 'state["c1_transform"]', 'state["c2_transform"]']


@spec(PS + "picture_header")
class _ph:
    args = {"state": STATE}
    requires = PIC_PRE
    modifies = FRAME_IO + NUM_MOD
    raises = {"ConformanceError": None}
    ensures = IO_POST + ["hdr_known(state)", "numbering_ok(state)", 'has(state, "picture_number") and has(state, "_last_picture_number")',
                         'state["_last_picture_number"] == state["picture_number"]',
                         'state["_num_pictures_in_sequence"] == old(state["_num_pictures_in_sequence"]) + 1']


@spec(PS + "wavelet_transform")
class _wt:
    args = {"state": STATE}
    requires = PIC_PRE
    modifies = TP_MOD + TD_MOD
    raises = {"ConformanceError": None}
    ensures = IO_POST + ["hdr_known(state)", "tp_known(state)", "slice_ctx(state)"]


@spec(PS + "picture_parse")
class _ppic:
    args = {"state": STATE}
    requires = PIC_PRE
    modifies = TP_MOD + TD_MOD + NUM_MOD
    raises = {"ConformanceError": None}
    ensures = IO_POST + ["hdr_known(state)", "tp_known(state)", "slice_ctx(state)", "numbering_ok(state)", 'has(state, "picture_number")',
                         'state["_num_pictures_in_sequence"] == old(state["_num_pictures_in_sequence"]) + 1']


@spec(PD + "picture_decode")
class _pdec:
    args = {"state": STATE}
    requires = ["slice_ctx(state)", "hdr_known(state)", 'has(state, "picture_number")', 'has(state, "video_parameters")']
    modifies = ['state["current_picture"]']
    raises = {}
    ensures = ['has(state, "current_picture")']
    trusted = ("inverse wavelet transform, clipping, offsetting and the output callback: array-heavy code outside this property's verified subset "
               "(its exception-freedom is exercised by the bounded round trips of C11 and proved in part under C09); the callback is assumed not to touch `state`")


# ---- fragments -----------------------------------------------------------------------------------------


@inline
def frag_ok(state):
    """Invariant on the fragmented-picture bookkeeping between data units."""
    r = state["_fragment_slices_remaining"]
    return (has(state, "_fragment_slices_remaining") and r >= 0
            and implies(r > 0, hdr_known(state) and tp_known(state) and transforms_ok(state) and coding_params_known(state)
                        and has(state, "fragment_slices_received") and state["fragment_slices_received"] >= 0
                        and state["fragment_slices_received"] + r == state["slices_x"] * state["slices_y"]
                        and has(state, "_picture_initial_fragment_offset") and has(state, "_last_picture_number")
                        and has(state, "_last_picture_number_offset") and has(state, "fragmented_picture_done") and not state["fragmented_picture_done"]
                        and has(state, "_level_constrained_values")))


FRAG_PRE = PIC_PRE + ["frag_ok(state)"]
FRAG_KEYS = ["fragment_data_length", "fragment_slice_count", "fragment_x_offset", "fragment_y_offset", "_picture_initial_fragment_offset"]


@spec(FS + "fragment_header")
class _fh:
    args = {"state": STATE}
    requires = FRAG_PRE
    modifies = FRAME_IO + NUM_MOD + ['state["%s"]' % k for k in FRAG_KEYS]
    raises = {"ConformanceError": None}
    ensures = IO_POST + ["hdr_known(state)", "numbering_ok(state)", "frag_ok(state)",
                         'has(state, "picture_number") and has(state, "fragment_slice_count") and state["fragment_slice_count"] >= 0',
                         'state["_fragment_slices_remaining"] == old(state["_fragment_slices_remaining"])',
                         # (14.2) a new picture only starts when the previous one is complete
                         'implies(state["fragment_slice_count"] == 0, old(state["_fragment_slices_remaining"]) == 0 and has(state, "_picture_initial_fragment_offset") '
                         'and has(state, "_last_picture_number") and state["_last_picture_number"] == state["picture_number"])',
                         # (14.2) slices arrive contiguously in raster order and never exceed the picture
                         'implies(state["fragment_slice_count"] != 0, state["fragment_slice_count"] <= state["_fragment_slices_remaining"] '
                         'and has(state, "fragment_x_offset") and has(state, "fragment_y_offset") '
                         'and state["fragment_y_offset"] * state["slices_x"] + state["fragment_x_offset"] == state["fragment_slices_received"] '
                         'and state["picture_number"] == state["_last_picture_number"])']


@spec(FS + "initialize_fragment_state")
class _ifs:
    args = {"state": STATE}
    requires = ["wavelet_known(state)", "coding_params_known(state)", 'has(state, "slices_x") and has(state, "slices_y") and state["slices_x"] >= 1 and state["slices_y"] >= 1']
    modifies = ['state["y_transform"]', 'state["c1_transform"]', 'state["c2_transform"]', 'state["fragment_slices_received"]',
                'state["_fragment_slices_remaining"]', 'state["fragmented_picture_done"]']
    raises = {}
    ensures = ["transforms_ok(state)", 'has(state, "fragment_slices_received") and state["fragment_slices_received"] == 0',
               'has(state, "_fragment_slices_remaining") and state["_fragment_slices_remaining"] == state["slices_x"] * state["slices_y"]',
               'has(state, "fragmented_picture_done") and not state["fragmented_picture_done"]']


@spec(FS + "fragment_data")
class _fd:
    args = {"state": STATE}
    requires = FRAG_PRE + ['has(state, "fragment_slice_count") and state["fragment_slice_count"] >= 1',
                           'state["fragment_slice_count"] <= state["_fragment_slices_remaining"]',
                           'has(state, "fragment_x_offset") and has(state, "fragment_y_offset")',
                           'state["fragment_y_offset"] * state["slices_x"] + state["fragment_x_offset"] == state["fragment_slices_received"]']
    modifies = FRAME_IOB + ['state["_level_constrained_values"]', 'state["quantizer"]', "all_grids()", 'state["fragment_slices_received"]',
                            'state["_fragment_slices_remaining"]', 'state["fragmented_picture_done"]']
    raises = {"ConformanceError": None}
    ensures = IO_POST + ["hdr_known(state)", "frag_ok(state)", "slice_ctx(state)", 'has(state, "fragmented_picture_done")',
                         # (14.4) the picture is done exactly when every slice has arrived
                         'state["fragmented_picture_done"] == (state["_fragment_slices_remaining"] == 0)',
                         'state["_fragment_slices_remaining"] == old(state["_fragment_slices_remaining"]) - state["fragment_slice_count"]']
    invariants = {
        1: IO_POST + ["slice_ctx(state)", "hdr_known(state)", 'has(state, "fragment_slices_received") and has(state, "_fragment_slices_remaining") and has(state, "fragmented_picture_done")',
                      'state["fragment_slices_received"] == old(state["fragment_slices_received"]) + s',
                      'state["_fragment_slices_remaining"] == old(state["_fragment_slices_remaining"]) - s',
                      'state["fragment_slices_received"] + state["_fragment_slices_remaining"] == state["slices_x"] * state["slices_y"]',
                      'state["fragmented_picture_done"] == (state["_fragment_slices_remaining"] == 0)',
                      'has(state, "_picture_initial_fragment_offset") and has(state, "_last_picture_number") and has(state, "_last_picture_number_offset")'],
    }


@spec(FS + "fragment_parse")
class _fp:
    args = {"state": STATE}
    requires = FRAG_PRE
    modifies = TP_MOD + TD_MOD + NUM_MOD + ['state["%s"]' % k for k in FRAG_KEYS] + [
        'state["fragment_slices_received"]', 'state["_fragment_slices_remaining"]', 'state["fragmented_picture_done"]']
    raises = {"ConformanceError": None}
    ensures = IO_POST + ["hdr_known(state)", "numbering_ok(state)", "frag_ok(state)", 'has(state, "fragmented_picture_done")',
                         'implies(state["fragmented_picture_done"], slice_ctx(state) and has(state, "picture_number"))']
