#!/bin/sh
# runs every claimed check (quick tier) on /repo as it is; prints one line per property
cd /verif
TIER="${1:-quick}"
for pid in $(python3 -c "import json;print(' '.join(c['property_id'] for c in json.load(open('MANIFEST.json'))['checks']))"); do
  out=$(./verif check $pid --tier $TIER 2>&1); rc=$?
  echo "$pid rc=$rc $(echo "$out" | grep -E 'HELD|VIOLATION|CHECKER' | head -2 | cut -c1-160)"
done
