"""C09 - BOUNDED native stand-in that always runs next to the proofs (never counted as proved).

The contracts of contracts/c09_picture_output.py use quantifiers over whole arrays, which have no native
evaluation; if an edit takes clip_component / offset_component / idwt_pad_removal / picture_decode out of the
verified subset the deductive verdict becomes 'undecided'.  This module then still exercises the same
postconditions on the real functions:

* unit level: clip/offset of generated arrays (every depth 1..16, boundary values -2^(d-1)-1, -2^(d-1),
  2^(d-1)-1, 2^(d-1), +-1, 0, huge) and padding removal for all small sizes;
* stream level: small HQ / LD / fragmented streams with hand-chosen coefficients (including the values that
  synthesise exactly +-2^(d-1)) are decoded with the real parse_stream; every callback call is checked for
  count, order, picture number, component sizes and sample range;
* stream-level DOMAIN check (check_domain, second half of this file): streams written by an independent writer of
  the standard's syntax over a systematic domain (every dwt_depth x dwt_depth_ho incl. horizontal-only transforms,
  odd / unaligned sizes, 4:4:4 / 4:2:2 / 4:2:0, frames / fields, LD / HQ, pictures / fragments, several sequences,
  extreme / zero / dangling payloads) are decoded by the real init_io + parse_stream and every clause of the
  statement is judged on every callback call against an oracle written from (11.6.2) / (11.6.3)."""
import copy
import multiprocessing
import random
import time
from io import BytesIO


def _sint_bits(v):
    return 1 if v == 0 else 2 * ((abs(v) + 1).bit_length() - 1) + 2


def _len_bytes(cs):
    return (sum(map(_sint_bits, cs)) + 7) // 8


def _streams(rng, tier):
    """[(description, bytes, expected [(picture_number, (w, h), (cw, ch))], luma_depth, chroma_depth)]"""
    import vc2_data_tables as tables
    from vc2_conformance import bitstream as bs

    PC = tables.ParseCodes

    def hdr(w, h, pcm=0):
        vp = bs.SourceParameters(frame_size=bs.FrameSize(custom_dimensions_flag=True, frame_width=w, frame_height=h),
                                 clean_area=bs.CleanArea(custom_clean_area_flag=True, clean_width=w, clean_height=h))
        return bs.DataUnit(parse_info=bs.ParseInfo(parse_code=PC.sequence_header),
                           sequence_header=bs.SequenceHeader(video_parameters=vp, picture_coding_mode=pcm))

    def hq(n, depth, sx, sy, slices, wavelet=tables.WaveletFilters.haar_no_shift):
        scaler = max(1, -(-max(_len_bytes(c) for sl in slices for c in sl) // 255))  # lengths are 8-bit counts of `scaler` bytes
        return bs.DataUnit(parse_info=bs.ParseInfo(parse_code=PC.high_quality_picture), picture_parse=bs.PictureParse(
            picture_header=bs.PictureHeader(picture_number=n),
            wavelet_transform=bs.WaveletTransform(
                transform_parameters=bs.TransformParameters(wavelet_index=wavelet, dwt_depth=depth, slice_parameters=bs.SliceParameters(
                    slices_x=sx, slices_y=sy, slice_prefix_bytes=0, slice_size_scaler=scaler)),
                transform_data=bs.TransformData(hq_slices=[
                    bs.HQSlice(qindex=0, slice_y_length=-(-_len_bytes(y) // scaler), slice_c1_length=-(-_len_bytes(c1) // scaler), slice_c2_length=-(-_len_bytes(c2) // scaler),
                               y_transform=y, c1_transform=c1, c2_transform=c2) for (y, c1, c2) in slices]))))

    def eos():
        return bs.DataUnit(parse_info=bs.ParseInfo(parse_code=PC.end_of_sequence))

    def ser(units):
        f = BytesIO()
        bs.autofill_and_serialise_stream(f, bs.Stream(sequences=[bs.Sequence(data_units=list(units))]))
        return f.getvalue()

    out = []
    B = [127, -128, 128, -129, 0, 1, -1, 126, 129, 2 ** 20, -(2 ** 20)]
    # default custom format: base video format 0 is 4:2:0 8 bit (chroma is half size in both directions)
    nrounds = 6 if tier == "quick" else 40
    for r in range(nrounds):
        w, h = rng.choice([(4, 2), (8, 6), (6, 8), (16, 6), (16, 10), (2, 2), (8, 4)])
        depth = rng.choice([0, 1, 2]) if (w, h) != (2, 2) else 0
        cw, ch = w // 2, h // 2
        # a single slice holds the whole padded picture: coefficient counts are those of the padded component
        scale = 2 ** depth
        pw, ph = -(-w // scale) * scale, -(-h // scale) * scale
        pcw, pch = -(-cw // scale) * scale, -(-ch // scale) * scale
        mode = r % 3
        def coeffs(n):
            if mode == 0:
                return [rng.choice(B) for _ in range(n)]
            if mode == 1:
                v = rng.choice([128, -128, 127, -129])
                return [v] + [0] * (n - 1) if depth else [v if i % 3 == 0 else rng.choice([0, 1, -1, 5]) for i in range(n)]
            return [rng.randint(-140, 140) for _ in range(n)]
        n0 = rng.choice([0, 7, 2 ** 32 - 1])
        units = [hdr(w, h), hq(n0, depth, 1, 1, [(coeffs(pw * ph), coeffs(pcw * pch), coeffs(pcw * pch))]),
                 hq((n0 + 1) % 2 ** 32, depth, 1, 1, [(coeffs(pw * ph), coeffs(pcw * pch), coeffs(pcw * pch))]), eos()]
        out.append(("hq %dx%d depth %d mode %d" % (w, h, depth, mode), ser(units), [(n0, (w, h), (cw, ch)), ((n0 + 1) % 2 ** 32, (w, h), (cw, ch))], 8, 8))
    # fields: each picture is half the frame height
    units = [hdr(8, 4, pcm=1), hq(0, 1, 1, 1, [([128] + [0] * 15, [0] * 4, [-128] + [0] * 3)]), hq(1, 1, 1, 1, [([0] * 16, [127] * 4, [0] * 4)]), eos()]
    out.append(("fields 8x4", ser(units), [(0, (8, 2), (4, 1)), (1, (8, 2), (4, 1))], 8, 8))
    return out


def check(rep, tier, seed):
    from pyvc import frontend

    frontend.ensure_repo_on_path()
    from vc2_conformance.pseudocode import picture_decoding as pd
    from vc2_conformance.pseudocode.state import State
    from vc2_conformance.decoder import io as dio
    from vc2_conformance import decoder
    from contracts import c02_corpus

    rng = random.Random(seed)
    evals = 0
    fails = 0

    def fail(name, what, inputs, observed):
        nonlocal fails
        fails += 1
        if fails <= 3:
            rep.violation("%s-%d" % (name, fails), {"what": what, "inputs": inputs, "observed": observed})

    # ---- unit level: clip + offset
    for depth in range(1, 17):
        half = 2 ** (depth - 1)
        vals = [-half - 1, -half, half - 1, half, 0, 1, -1, 2 ** 40, -(2 ** 40), half + 1]
        for trial in range(6 if tier == "quick" else 40):
            h, w = rng.randint(1, 4), rng.randint(1, 5)
            if trial == 0:
                grid = [[half if (x, y) == (0, 0) else rng.randint(-half, half - 1) for x in range(w)] for y in range(h)]  # exactly one sample one above the top
            elif trial == 1:
                grid = [[-half - 1 if (x, y) == (w - 1, h - 1) else rng.randint(-half, half - 1) for x in range(w)] for y in range(h)]
            else:
                grid = [[rng.choice(vals) for x in range(w)] for y in range(h)]
            for c in ("Y", "C1", "C2"):
                st = State(luma_depth=depth if c == "Y" else 3, color_diff_depth=depth if c != "Y" else 5)
                g = copy.deepcopy(grid)
                evals += 1
                try:
                    pd.clip_component(st, g, c)
                    ok1 = all(-half <= v <= half - 1 for row in g for v in row) and [len(r) for r in g] == [w] * h
                    ok1 = ok1 and all(g[y][x] == min(max(grid[y][x], -half), half - 1) for y in range(h) for x in range(w))
                    g2 = copy.deepcopy(g)
                    pd.offset_component(st, g2, c)
                    ok2 = all(g2[y][x] == g[y][x] + half for y in range(h) for x in range(w))
                    ok3 = all(0 <= v <= 2 ** depth - 1 for row in g2 for v in row)
                    obs = None if (ok1 and ok2 and ok3) else {"clipped": g, "offset": g2}
                except Exception as e:  # noqa
                    obs = repr(e)
                if obs is not None:
                    fail("clip-offset", "clip_component/offset_component leave a sample outside [0, 2^depth - 1] (or change the shape / the wrong samples)",
                         {"depth": depth, "component": c, "array": grid}, obs)
    # ---- unit level: padding removal
    sizes = range(1, 6) if tier == "quick" else range(1, 9)
    for w in sizes:
        for h in sizes:
            for ew in (0, 1, 3):
                for eh in (0, 1, 3):
                    for c in ("Y", "C1"):
                        st = State(luma_width=w if c == "Y" else 50, luma_height=h if c == "Y" else 50,
                                   color_diff_width=w if c != "Y" else 60, color_diff_height=h if c != "Y" else 60)
                        g = [[y * 100 + x for x in range(w + ew)] for y in range(h + eh)]
                        evals += 1
                        try:
                            pd.idwt_pad_removal(st, g, c)
                            ok = g == [[y * 100 + x for x in range(w)] for y in range(h)]
                            obs = None if ok else g
                        except Exception as e:  # noqa
                            obs = repr(e)
                        if obs is not None:
                            fail("pad-removal", "idwt_pad_removal does not leave exactly the picture's width x height (top-left part)",
                                 {"width": w, "height": h, "extra_columns": ew, "extra_rows": eh, "component": c}, obs)
    rep.add_bounded("clip/offset/padding removal (unit level, native)", "depths 1..16 x boundary-valued arrays up to 4x5 x 3 components; sizes 1..%d squared x extra rows/columns {0,1,3}" % max(sizes),
                    evals, False, distinct=evals)

    # ---- stream level
    n_streams = 0
    n_pics = 0
    streams = _streams(rng, tier)
    corpus = c02_corpus._streams()
    for name in sorted(corpus):
        streams.append(("corpus:" + name, corpus[name], None, 8, 8))
    for (desc, data, expected, ld, cd) in streams:
        got = []

        def cb(picture, video_parameters, picture_coding_mode, got=got):
            got.append((copy.deepcopy(dict(picture)), dict(video_parameters), picture_coding_mode))

        st = State(_output_picture_callback=cb)
        dio.init_io(st, BytesIO(data))
        accepted = True
        try:
            decoder.parse_stream(st)
        except decoder.ConformanceError:
            accepted = False
        n_streams += 1
        problems = []
        for i, (pic, vp, pcm) in enumerate(got):
            n_pics += 1
            fh = vp["frame_height"] // (2 if pcm == 1 else 1)
            fw = vp["frame_width"]
            from vc2_data_tables import ColorDifferenceSamplingFormats as CD
            cwid = fw // (2 if vp["color_diff_format_index"] != CD.color_4_4_4 else 1)
            chei = fh // (2 if vp["color_diff_format_index"] == CD.color_4_2_0 else 1)
            for c, (ew, eh), depth_bits in (("Y", (fw, fh), vp["luma_excursion"]), ("C1", (cwid, chei), vp["color_diff_excursion"]), ("C2", (cwid, chei), vp["color_diff_excursion"])):
                a = pic.get(c)
                if a is None or len(a) != eh or any(len(r) != ew for r in a):
                    problems.append("picture %d component %s is not %dx%d" % (i, c, ew, eh))
                    continue
                top = 2 ** depth_bits.bit_length() - 1  # 2^depth - 1 with depth = intlog2(excursion + 1) (video_depth)
                if any((not isinstance(v, int)) or v < 0 or v > top for r in a for v in r):
                    problems.append("picture %d component %s has a sample outside [0, %d]" % (i, c, top))
        if expected is not None:
            if not accepted:
                problems.append("a conformant stream was rejected")
            if [p["pic_num"] for (p, _, _) in got] != [e[0] for e in expected]:
                problems.append("picture numbers output %r, stream carries %r" % ([p["pic_num"] for (p, _, _) in got], [e[0] for e in expected]))
            for (p, _, _), e in zip(got, expected):
                if (len(p["Y"][0]), len(p["Y"])) != e[1] or (len(p["C1"][0]), len(p["C1"])) != e[2]:
                    problems.append("picture %d has size %r / %r, expected %r / %r" % (p["pic_num"], (len(p["Y"][0]), len(p["Y"])), (len(p["C1"][0]), len(p["C1"])), e[1], e[2]))
        if problems:
            fail("stream", "a decoded picture is not well-formed", {"stream": desc, "stream_hex": data.hex()}, problems[:5])
    rep.add_bounded("decoded pictures of small streams (native parse_stream)", "%d streams (seeded coefficient patterns incl. +-2^(depth-1) boundaries, sizes needing row-only / column-only padding, "
                    "fields, plus the validator corpus), %d pictures checked" % (n_streams, n_pics), n_streams, False, distinct=n_pics)


# =====================================================================================================================
# Stream-level DOMAIN check: real streams -> real decoder -> every clause of the statement on every callback call
# =====================================================================================================================
#
# The streams are written by the small VC-2 stream WRITER below, which follows SMPTE ST 2042-1 clause by clause and
# uses nothing of vc2_conformance (not the serialiser, not the encoder, not slice_sizes): a change of the code under
# check cannot make the inputs "self-consistently wrong".  The ORACLE is the statement of C09 read with (11.6.2)
# picture_dimensions and (11.6.3) video_depth:
#
#   S  size      Y is luma_width x luma_height, C1 and C2 are color_diff_width x color_diff_height where
#                luma = frame_width x frame_height, colour difference = luma with the width halved for 4:2:2 and 4:2:0
#                and the height halved for 4:2:0, and both heights halved again when pictures are fields;
#                each component is a list of `height` lists of exactly `width` entries
#   R  range     every entry is a Python int v with 0 <= v <= 2**depth - 1, depth = intlog2(excursion + 1) of the
#                luma excursion for Y and of the colour-difference excursion for C1, C2 (custom or preset signal range)
#   N  number    picture["pic_num"] == the 32-bit picture number written into the picture header / fragment headers
#   O  one each  the k-th callback call belongs to the k-th picture of the stream (picture data unit or fragmented picture)
#                and does not happen before the payload of that picture's LAST data unit has begun to be consumed (position
#                of the file object; read-ahead can only make the position larger, so this bound is safe); at the end of the
#                stream there were exactly as many calls as pictures.  Sequence headers (also repeated), padding, auxiliary
#                data, the first fragment (transform parameters only) and incomplete fragment sets never produce a call.
#
# A stream the validator rejects (ConformanceError) is outside the domain of the statement: counted per family, and
# if more than a third of a family is rejected the check stops with a checker error (never a pass).  Any other
# exception of the decoder on a stream is reported as a violation (a picture data unit without its output).

WORKERS = 6
_CHUNK = 24

_PARSE_CODES = {"seq": 0x00, "eos": 0x10, "aux": 0x20, "pad": 0x30, ("ld", "pic"): 0xC8, ("hq", "pic"): 0xE8, ("ld", "frag"): 0xCC, ("hq", "frag"): 0xEC}
_PROFILES = {"ld": 0, "hq": 3}
# (11.4.9 / table 11.5) preset signal ranges: luma offset, luma excursion, colour difference offset, excursion
_PRESET_SIGNAL_RANGES = {1: (0, 255, 128, 255), 2: (16, 219, 128, 224), 3: (64, 876, 512, 896), 4: (256, 3504, 2048, 3584)}
# (annex B) the base video formats used here: frame width, height, colour difference format, preset signal range
_BASE_FORMATS = {0: (640, 480, 2, 1), 1: (176, 120, 2, 1), 2: (176, 144, 2, 1)}

D_WIDTHS = {"quick": [1, 2, 3, 4, 5, 6, 7, 8, 9, 11, 13, 20], "thorough": [1, 2, 3, 4, 5, 6, 7, 8, 9, 10, 11, 12, 13, 15, 16, 17, 20, 24]}
D_HEIGHTS = {"quick": [1, 2, 3, 4, 5], "thorough": [1, 2, 3, 4, 5, 6, 7]}
D_SHAPES = {"quick": [(d, dh) for d in (0, 1, 2) for dh in (0, 1, 2, 3)], "thorough": [(d, dh) for d in (0, 1, 2, 3) for dh in (0, 1, 2, 3, 4)]}
D_GRIDS = [(1, 1), (2, 1), (3, 2), (1, 2), (7, 5), (2, 2), (4, 3), (5, 1), (1, 1), (2, 1), (3, 2), (16, 9)]  # (7,5), (16,9): more slices than coefficients
D_ROUNDS = {"quick": 1, "thorough": 1}  # a further round draws sampling format, coding mode and slice grid instead of rotating them
D_FAMILIES = [("hq", "pic"), ("ld", "pic"), ("hq", "frag"), ("ld", "frag")]


# --------------------------------------------------------------------------------------------------------------------
# the standard, written out: codes (annex A), dimensions (11.6.2, 11.6.3, 13.2.3, 13.5.6.2), syntax (10 - 14)
# --------------------------------------------------------------------------------------------------------------------
def _uint_code(v):
    """(A.4.3) interleaved exp-Golomb: every bit of v + 1 below its leading one is preceded by a 0, then a 1 ends the code."""
    return "".join("0" + c for c in bin(v + 1)[3:]) + "1"


def _sint_code(v):
    """(A.4.4) magnitude, then a sign bit (1 = negative) unless the value is 0."""
    return _uint_code(-v) + "1" if v < 0 else (_uint_code(v) + "0" if v else "1")


class _W(object):
    """Bit string writer (most significant bit first)."""

    def __init__(self):
        self.s = []

    def bit(self, b):
        self.s.append("1" if b else "0")

    def nbits(self, n, v):
        if n:
            assert 0 <= v < (1 << n)
            self.s.append(format(v, "0%db" % n))

    def uint(self, v):
        self.s.append(_uint_code(v))

    def raw(self, bits):
        self.s.append(bits)

    def align(self):
        n = sum(map(len, self.s)) % 8
        if n:
            self.s.append("0" * (8 - n))

    def data(self, b):
        self.align()
        if b:
            self.s.append(format(int.from_bytes(b, "big"), "0%db" % (8 * len(b))))

    def getvalue(self):
        self.align()
        bits = "".join(self.s)
        return int(bits, 2).to_bytes(len(bits) // 8, "big") if bits else b""


def _intlog2(n):
    """(5.5.3) ceil(log2(n))."""
    return (n - 1).bit_length()


def _picture_dimensions(fw, fh, cdf, pcm):
    """(11.6.2)"""
    lw, lh = fw, fh
    cw, ch = lw, lh
    if cdf in (1, 2):
        cw //= 2
    if cdf == 2:
        ch //= 2
    if pcm == 1:
        lh //= 2
        ch //= 2
    return lw, lh, cw, ch


def _levels(d, dh):
    """(13.1.1) the subbands in stream order: (level, number of orientations)."""
    return [(0, 1)] + [(lv, 1) for lv in range(1, dh + 1)] + [(lv, 3) for lv in range(dh + 1, dh + d + 1)]


def _subband_size(w, h, d, dh, level):
    """(13.2.3) subband_width / subband_height of a component of w x h samples."""
    sw = 1 << (d + dh)
    pw = sw * -(-w // sw)
    sh = 1 << d
    ph = sh * -(-h // sh)
    bw = pw // sw if level == 0 else pw // (1 << (d + dh - level + 1))
    bh = ph // sh if level <= dh else ph // (1 << (d + dh - level + 1))
    return bw, bh


def _slice_coefficients(w, h, d, dh, sx, sy, nx, ny):
    """(13.5.6.2) number of coefficients of one component that lie in slice (sx, sy)."""
    n = 0
    for level, norient in _levels(d, dh):
        bw, bh = _subband_size(w, h, d, dh, level)
        n += norient * ((bw * (sx + 1)) // nx - (bw * sx) // nx) * ((bh * (sy + 1)) // ny - (bh * sy) // ny)
    return n


def _sequence_header_bytes(q, major):
    """(11.1) parse_parameters, base_video_format, source_parameters, picture_coding_mode."""
    w = _W()
    w.uint(major)
    w.uint(0)
    w.uint(_PROFILES[q["profile"]])
    w.uint(0)  # level: unconstrained
    w.uint(q["base"])
    bw, bh, bcdf, bsr = _BASE_FORMATS[q["base"]]
    hf = q["hdr"]
    # frame_size (11.4.3)
    custom = (q["fw"], q["fh"]) != (bw, bh)
    w.bit(custom)
    if custom:
        w.uint(q["fw"])
        w.uint(q["fh"])
    # color_diff_sampling_format (11.4.4)
    custom = q["cdf"] != bcdf or hf["redundant_cdf"]
    w.bit(custom)
    if custom:
        w.uint(q["cdf"])
    # scan_format (11.4.5)
    w.bit(hf["scan"] is not None)
    if hf["scan"] is not None:
        w.uint(hf["scan"])
    # frame_rate (11.4.6)
    w.bit(hf["frame_rate"] is not None)
    if hf["frame_rate"] is not None:
        w.uint(hf["frame_rate"][0])
        if hf["frame_rate"][0] == 0:
            w.uint(hf["frame_rate"][1])
            w.uint(hf["frame_rate"][2])
    # pixel_aspect_ratio (11.4.7)
    w.bit(hf["par"] is not None)
    if hf["par"] is not None:
        w.uint(hf["par"][0])
        if hf["par"][0] == 0:
            w.uint(hf["par"][1])
            w.uint(hf["par"][2])
    # clean_area (11.4.8): must lie inside the frame
    custom = (q["fw"], q["fh"]) != (bw, bh) or hf["clean"] is not None
    w.bit(custom)
    if custom:
        cl = (q["fw"], q["fh"], 0, 0)
        if hf["clean"] == "inner":  # a smaller clean area changes nothing about the decoded picture
            cl = (max(1, q["fw"] - 2), max(1, q["fh"] - 1), min(1, q["fw"] - max(1, q["fw"] - 2)), q["fh"] - max(1, q["fh"] - 1))
        for v in cl:
            w.uint(v)
    # signal_range (11.4.9)
    sr = q["sr"]
    custom = not (isinstance(sr, int) and sr == bsr and not hf["redundant_sr"])
    w.bit(custom)
    if custom:
        if isinstance(sr, int):
            w.uint(sr)
        else:
            w.uint(0)
            for v in sr:
                w.uint(v)
    # color_spec (11.4.10)
    cs = hf["color_spec"]
    w.bit(cs is not None)
    if cs is not None:
        w.uint(cs[0])
        if cs[0] == 0:
            for idx in cs[1:]:
                w.bit(idx is not None)
                if idx is not None:
                    w.uint(idx)
    w.uint(q["pcm"])
    return w.getvalue()


def _transform_parameters(w, t, profile, major):
    """(12.4.1) transform_parameters incl. (12.4.4.1) extended_transform_parameters, (12.4.5.2), (12.4.5.3)."""
    w.uint(t["wi"])
    w.uint(t["d"])
    if major >= 3:
        flag = t["wih"] != t["wi"] or t["redundant_flags"]
        w.bit(flag)
        if flag:
            w.uint(t["wih"])
        flag = t["dh"] != 0 or t["redundant_flags"]
        w.bit(flag)
        if flag:
            w.uint(t["dh"])
    w.uint(t["sx"])
    w.uint(t["sy"])
    if profile == "ld":
        w.uint(t["sb_num"])
        w.uint(t["sb_den"])
    else:
        w.uint(t["prefix"])
        w.uint(t["scaler"])
    w.bit(t["qm"] is not None)
    if t["qm"] is not None:
        for v in t["qm"]:
            w.uint(v)


def _coefficients(rng, n, mode, depth):
    half = 1 << (depth - 1)
    if mode == "zero" or n == 0:
        return [0] * n
    if mode == "dc":
        return [rng.choice((half, -half, half - 1, -half - 1, 3 * half, -3 * half))] + [0] * (n - 1)
    if mode == "one-over":  # everything in range except one value exactly one above the top (meaningful without a transform)
        c = [rng.randint(-half, half - 1) for _ in range(n)]
        c[rng.randrange(n)] = rng.choice((half, half, -half - 1))
        return c
    if mode == "boundary":
        pool = (half, -half, half - 1, -half - 1, half + 1, 0, 0, 1, -1)
    elif mode == "extreme":
        pool = (1 << 20, -(1 << 20), 8 * half, -8 * half, 0, 1, -1, half, -half, 0, 3, (1 << 31) - 1, -(1 << 31))
    elif mode == "noise":
        return [rng.randint(-2 * half, 2 * half) for _ in range(n)]
    else:  # small
        pool = (0, 0, 0, 1, -1, 2, -3)
    return [rng.choice(pool) for _ in range(n)]


def _fill(rng, n):
    k = rng.randrange(3)
    return "0" * n if k == 0 else ("1" * n if k == 1 else "".join(rng.choice("01") for _ in range(n)))


def _hq_component_bits(rng, t, n, mode, depth):
    return "".join(map(_sint_code, _coefficients(rng, n, mode, depth)))


def _slices(rng, q, t, dims, depths):
    """The slices of one picture in raster order, as byte strings ((13.5.3.1) ld_slice, (13.5.4) hq_slice).  Fills in
    the size fields of t (slice_size_scaler or slice_bytes) so that the chosen payloads fit (or are deliberately cut:
    a bounded block that ends early reads as zeros, (A.4.2))."""
    lw, lh, cw, ch = dims
    nx, ny = t["sx"], t["sy"]
    counts = [[(_slice_coefficients(lw, lh, t["d"], t["dh"], sx, sy, nx, ny), _slice_coefficients(cw, ch, t["d"], t["dh"], sx, sy, nx, ny)) for sx in range(nx)] for sy in range(ny)]
    modes = t["modes"]
    out = []
    if q["profile"] == "hq":
        comps = []
        for sy in range(ny):
            for sx in range(nx):
                ny_, nc_ = counts[sy][sx]
                comps.append([_hq_component_bits(rng, t, ny_, modes[0], depths[0]), _hq_component_bits(rng, t, nc_, modes[1], depths[1]), _hq_component_bits(rng, t, nc_, modes[2], depths[1])])
        need = max([1] + [-(-len(b) // 8) for c in comps for b in c])
        smallest = -(-need // 255)
        t["scaler"] = max(1, smallest if t["cut"] != "scaler" else rng.randint(1, max(1, smallest)))
        if t["cut"] is None and rng.random() < 0.3:
            t["scaler"] += rng.randrange(3)
        for c in comps:
            w = _W()
            w.data(bytes(rng.randrange(256) for _ in range(t["prefix"])))
            w.nbits(8, rng.choice(t["qindex"]))
            for b in c:
                units = -(-(-(-len(b) // 8)) // t["scaler"])
                if t["cut"] == "short":
                    units = rng.randint(0, units)
                elif rng.random() < 0.3:
                    units += rng.randrange(3)
                units = min(units, 255)
                w.nbits(8, units)
                nb = 8 * units * t["scaler"]
                w.raw((b + _fill(rng, max(0, nb - len(b))))[:nb])
            out.append(w.getvalue())
        return out
    # low delay: slice_bytes(sx, sy) from the fraction slice_bytes_numerator / slice_bytes_denominator (13.5.3.2)
    ns = nx * ny
    payload = []
    for sy in range(ny):
        for sx in range(nx):
            ny_, nc_ = counts[sy][sx]
            yb = "".join(map(_sint_code, _coefficients(rng, ny_, modes[0], depths[0])))
            c1 = _coefficients(rng, nc_, modes[1], depths[1])
            c2 = _coefficients(rng, nc_, modes[2], depths[1])
            cb = "".join(_sint_code(a) + _sint_code(b) for a, b in zip(c1, c2))
            payload.append((yb, cb))
    need_bits = max(len(yb) + len(cb) for yb, cb in payload) + 7 + 24
    per = -(-need_bits // 8)
    if t["cut"] == "short":
        per = rng.randint(1, per)
    elif t["cut"] == "scaler":
        per = 1
    t["sb_den"] = rng.choice((1, ns, ns, 3, 7))
    t["sb_num"] = per * t["sb_den"] + (rng.randrange(t["sb_den"]) if t["cut"] != "scaler" else 0)
    for i, (yb, cb) in enumerate(payload):
        sb = ((i + 1) * t["sb_num"]) // t["sb_den"] - (i * t["sb_num"]) // t["sb_den"]
        w = _W()
        w.nbits(7, rng.choice(t["qindex"]) & 127)
        length_bits = _intlog2(8 * sb - 7)
        left = 8 * sb - 7 - length_bits
        ylen = min(len(yb), left)
        if len(yb) + len(cb) < left and rng.random() < 0.5:
            ylen += rng.randrange(left - len(yb) - len(cb) + 1)  # slack behind the luma coefficients
        elif t["cut"] == "short" and rng.random() < 0.5:
            ylen = rng.randint(0, ylen)
        w.nbits(length_bits, ylen)
        w.raw((yb + _fill(rng, max(0, ylen - len(yb))))[:ylen])
        w.raw((cb + _fill(rng, max(0, left - ylen - len(cb))))[:left - ylen])
        b = w.getvalue()
        assert len(b) == sb, (len(b), sb)
        out.append(b)
    return out


def _u(n, v):
    return v.to_bytes(n, "big")


def _picture_data_units(rng, q, t, major, pic_num, dims, depths):
    """[(parse code, payload bytes)] of one coded picture: one picture data unit (12.1) or its fragments (14.1 - 14.4)."""
    slices = _slices(rng, q, t, dims, depths)
    tp = _W()
    _transform_parameters(tp, t, q["profile"], major)
    if t["frag"] == 0:
        return [(_PARSE_CODES[(q["profile"], "pic")], _u(4, pic_num) + tp.getvalue() + b"".join(slices))]
    code = _PARSE_CODES[(q["profile"], "frag")]
    tpb = tp.getvalue()
    units = [(code, _u(4, pic_num) + _u(2, len(tpb)) + _u(2, 0) + tpb)]
    i = 0
    while i < len(slices):
        k = t["frag"] if t["frag"] > 0 else rng.randint(1, min(len(slices) - i, 5))
        part = slices[i:i + k]
        body = b"".join(part)
        units.append((code, _u(4, pic_num) + _u(2, len(body)) + _u(2, len(part)) + _u(2, i % t["sx"]) + _u(2, i // t["sx"]) + body))
        i += len(part)
    return units


def _major_version(q):
    """(11.2.2) the smallest version that has every feature used."""
    v = 2 if q["profile"] == "hq" else 1
    for t in q["pictures"]:
        if t["frag"] != 0 or t["dh"] != 0 or t["wih"] != t["wi"]:
            v = 3
    return v


def _build_stream(spec):
    """bytes of the stream and, per coded picture in stream order, what the statement says about its output:
    dict(pic_num, Y=(w, h), C=(w, h), ydepth, cdepth, after=offset)."""
    rng = random.Random(spec["cseed"])
    data = bytearray()
    expected = []
    for q in spec["sequences"]:
        major = _major_version(q)
        hdr = _sequence_header_bytes(q, major)
        dims = _picture_dimensions(q["fw"], q["fh"], q["cdf"], q["pcm"])
        sr = _PRESET_SIGNAL_RANGES[q["sr"]] if isinstance(q["sr"], int) else q["sr"]
        depths = (_intlog2(sr[1] + 1), _intlog2(sr[3] + 1))
        units = [(_PARSE_CODES["seq"], hdr, None)]
        pn = q["pn0"]
        for i, t in enumerate(q["pictures"]):
            for extra in t["before"]:
                if extra == "seq":
                    units.append((_PARSE_CODES["seq"], hdr, None))
                else:
                    units.append((_PARSE_CODES[extra], bytes(rng.randrange(256) for _ in range(rng.choice((0, 1, 5, 14)))), None))
            pus = _picture_data_units(rng, q, t, major, pn, dims, depths)
            for j, (code, payload) in enumerate(pus):
                units.append((code, payload, (len(expected), j == len(pus) - 1)))
            expected.append({"pic_num": pn, "Y": [dims[0], dims[1]], "C": [dims[2], dims[3]], "ydepth": depths[0], "cdepth": depths[1]})
            pn = (pn + 1) & 0xFFFFFFFF
        for extra in q["trailing"]:
            units.append((_PARSE_CODES[extra], bytes(rng.randrange(256) for _ in range(3)), None))
        units.append((_PARSE_CODES["eos"], b"", None))
        prev = 0
        for k, (code, payload, mark) in enumerate(units):
            size = 13 + len(payload)
            nxt = 0 if code == _PARSE_CODES["eos"] else size
            if mark is not None and q["zero_next_offsets"]:
                nxt = 0  # (10.5.1) allowed for pictures and fragments
            if mark is not None:
                e = expected[mark[0]]
                e.setdefault("starts", []).append(len(data) + 13)  # first payload byte of each of its data units
            data += b"BBCD" + _u(1, code) + _u(4, nxt) + _u(4, prev) + payload
            prev = size
    # O: the call for picture k cannot come before the payload of its last data unit is read
    for e in expected:
        e["after"] = e["starts"][-1]
        del e["starts"]
    return bytes(data), expected


# --------------------------------------------------------------------------------------------------------------------
# the oracle
# --------------------------------------------------------------------------------------------------------------------
def _component_problems(a, w, h, depth, name):
    """Clauses S and R for one component."""
    if not isinstance(a, list) or len(a) != h or any((not isinstance(r, list)) or len(r) != w for r in a):
        shape = None
        if isinstance(a, list):
            shape = [len(a), sorted(set(len(r) if isinstance(r, list) else -1 for r in a))]
        return ["S: component %s must be %d wide and %d high; decoder gave [rows, row lengths] = %r" % (name, w, h, shape)]
    top = (1 << depth) - 1
    for y, r in enumerate(a):
        for x, v in enumerate(r):
            if type(v) is not int or v < 0 or v > top:
                return ["R: component %s sample (x=%d, y=%d) is %r, not an int in [0, %d] (depth %d)" % (name, x, y, v, top, depth)]
    return []


def _decode_and_judge(data, expected):
    """Runs the real decoder over the stream; returns (status, problems, stats).  status: 'ok' | 'rejected' | 'fail'."""
    from vc2_conformance.pseudocode.state import State
    from vc2_conformance import decoder

    f = BytesIO(data)
    problems = []
    calls = [0]
    stats = {"pictures": 0, "clipped": 0}

    def cb(picture, video_parameters, picture_coding_mode):
        k = calls[0]
        calls[0] += 1
        pos = f.tell()
        if k >= len(expected):
            problems.append("O: callback call %d but the stream holds only %d pictures" % (k + 1, len(expected)))
            return
        e = expected[k]
        stats["pictures"] += 1
        if not (e["after"] < pos):
            problems.append("O: output %d happened at file position %d, before the payload of the last data unit of picture %d (offset %d) was touched" % (k, pos, k, e["after"]))
        try:
            n = picture["pic_num"]
        except Exception:
            n = None
        if type(n) is not int or n != e["pic_num"]:
            problems.append("N: output %d carries picture number %r, the stream codes %d" % (k, n, e["pic_num"]))
        for name, (w, h), depth in (("Y", e["Y"], e["ydepth"]), ("C1", e["C"], e["cdepth"]), ("C2", e["C"], e["cdepth"])):
            try:
                a = picture[name]
            except Exception:
                a = None
            p = _component_problems(a, w, h, depth, name)
            if p:
                problems.append("output %d (picture number %r): %s" % (k, n, p[0]))
            elif any(v == 0 or v == (1 << depth) - 1 for r in a for v in r):
                stats["clipped"] += 1

    st = State(_output_picture_callback=cb)
    try:
        decoder.init_io(st, f)
        decoder.parse_stream(st)
    except decoder.ConformanceError as e:
        return "rejected", ["%s: %s" % (type(e).__name__, str(e)[:200])], stats
    except Exception as e:
        import traceback

        tb = traceback.extract_tb(e.__traceback__)
        where = "%s:%d %s" % (tb[-1].filename.split("/")[-1], tb[-1].lineno, tb[-1].name) if tb else ""
        problems.append("O: the decoder raised %s (%s) at %s after %d of %d outputs" % (type(e).__name__, str(e)[:120], where, calls[0], len(expected)))
        return "fail", problems, stats
    if calls[0] != len(expected):
        problems.append("O: %d pictures output for a stream of %d picture data units / completed fragmented pictures" % (calls[0], len(expected)))
    return ("fail" if problems else "ok"), problems, stats


def _run_chunk(task):
    start, specs = task
    res = []
    for j, spec in enumerate(specs):
        t0 = time.process_time()
        data, expected = _build_stream(spec)
        status, problems, stats = _decode_and_judge(data, expected)
        r = {"index": start + j, "family": spec["family"], "status": status, "problems": problems[:6], "nproblems": len(problems), "bytes": len(data),
             "pictures": stats["pictures"], "clipped": stats["clipped"], "expected_pictures": len(expected), "seconds": time.process_time() - t0}
        if status != "ok":
            r["stream_hex"] = data.hex() if len(data) <= 6000 else None
            r["expected"] = expected
        res.append(r)
    return res


# --------------------------------------------------------------------------------------------------------------------
# the domain (parent process; deterministic in seed and tier)
# --------------------------------------------------------------------------------------------------------------------
def _header_fields(rng):
    return {
        "redundant_cdf": rng.random() < 0.3, "redundant_sr": rng.random() < 0.3,
        "scan": rng.choice((None, None, 0, 1)),
        "frame_rate": rng.choice((None, None, (0, 25, 1), (0, 30000, 1001), (1,), (7,), (11,))),
        "par": rng.choice((None, None, (0, 3, 2), (1,), (3,), (6,))),
        "clean": rng.choice((None, None, "inner")),
        "color_spec": rng.choice((None, None, (0, None, None, None), (0, 1, 2, 3), (0, None, 3, None), (1,), (4,))),
    }


def _signal_range(rng):
    k = rng.randrange(10)
    if k < 4:
        return rng.choice((1, 2, 3, 4))
    if k < 7:  # different luma / colour difference depths
        yd, cd = rng.choice(((8, 10), (10, 8), (1, 2), (2, 1), (3, 12), (12, 7), (16, 8), (9, 16), (5, 6)))
    else:
        yd = cd = rng.choice((1, 2, 4, 7, 8, 9, 12, 16))
    # an excursion whose depth is yd: anything in [2**(yd-1), 2**yd - 1]
    ye = rng.choice(((1 << yd) - 1, max(1, 1 << (yd - 1)), rng.randint(max(1, 1 << (yd - 1)), (1 << yd) - 1)))
    ce = rng.choice(((1 << cd) - 1, max(1, 1 << (cd - 1)), rng.randint(max(1, 1 << (cd - 1)), (1 << cd) - 1)))
    return [rng.randrange(1 << yd), ye, rng.randrange(1 << cd), ce]


def _transform(rng, shape, family, wavelets, matrices, version3, grid=None):
    d, dh = shape
    wi = rng.choice(wavelets)
    wih = rng.choice(wavelets) if (version3 and rng.random() < 0.6) else wi
    sx, sy = grid or rng.choice(D_GRIDS)
    nq = 1 + dh + 3 * d
    has_default = (wi, wih, d, dh) in matrices
    qm = None if (has_default and rng.random() < 0.4) else [rng.choice((0, 0, 0, 1, 2, 4, 7)) for _ in range(nq)]
    ns = sx * sy
    if family[1] == "frag":
        frag = rng.choice((1, 1, 2, 3, ns, -1, max(1, ns // 2)))
        frag = min(frag, ns) if frag > 0 else frag
    else:
        frag = 0
    qk = rng.randrange(10)
    qindex = (0,) if qk < 5 else ((0, 1, 2, 3, 4, 5, 8) if qk < 7 else ((7, 12, 21, 40) if qk < 9 else (63, 100, 127)))
    kinds = ("zero", "extreme", "boundary", "dc", "noise", "small", "extreme", "boundary", "one-over")
    m = rng.choice(kinds)
    modes = [m, m, m] if rng.random() < 0.6 else [rng.choice(kinds) for _ in range(3)]
    return {"wi": wi, "wih": wih, "d": d, "dh": dh, "sx": sx, "sy": sy, "qm": qm, "frag": frag, "qindex": qindex, "modes": modes,
            "cut": rng.choice((None, None, None, None, "short", "scaler")), "prefix": rng.choice((0, 0, 0, 1, 3)), "redundant_flags": rng.random() < 0.25,
            "before": [], "scaler": 1, "sb_num": 1, "sb_den": 1}


def _sequence(rng, shape, w, h, family, cdf, pcm, wavelets, matrices, grid, shapes):
    """One sequence whose FIRST picture has the enumerated transform shape on components of base size w x h (the
    colour difference components are w x h, luma is larger by the sampling factors; for 4:4:4 both are w x h)."""
    fw = w * (2 if cdf >= 1 else 1)
    fh = h * (2 if cdf == 2 else 1) * (2 if pcm == 1 else 1)
    first = _transform(rng, shape, family, wavelets, matrices, True, grid)
    # version 3 is only legal (11.2.2) if something needs it: decide from the first picture, the others follow
    v3 = first["frag"] != 0 or first["dh"] != 0 or first["wih"] != first["wi"]
    npics = rng.choice((1, 1, 2, 3)) * (2 if pcm == 1 else 1)
    pics = [first]
    for _ in range(npics - 1):
        if rng.random() < 0.5:
            t = dict(first)
            t.update(modes=[rng.choice(("zero", "extreme", "boundary", "noise")) for _ in range(3)], before=[])
        else:
            other = rng.choice(shapes) if v3 else (rng.choice((0, 1, 2)), 0)
            fam2 = family if not v3 or rng.random() < 0.7 else (family[0], rng.choice(("pic", "frag")))
            t = _transform(rng, other, fam2, wavelets, matrices, v3)
            if not v3:
                t["wih"] = t["wi"]
                if t["qm"] is None and (t["wi"], t["wih"], t["d"], t["dh"]) not in matrices:
                    t["qm"] = [0] * (1 + t["dh"] + 3 * t["d"])
        if rng.random() < 0.2:
            t["before"] = [rng.choice(("pad", "aux", "seq"))] + ([rng.choice(("pad", "seq"))] if rng.random() < 0.3 else [])
        pics.append(t)
    if first["qm"] is None and (first["wi"], first["wih"], first["d"], first["dh"]) not in matrices:
        first["qm"] = [0] * (1 + first["dh"] + 3 * first["d"])
    if pcm == 1:
        pn0 = rng.choice((0, 2, 0xFFFFFFFE, 2 * rng.randrange(1 << 31)))
    else:
        pn0 = rng.choice((0, 1, 7, 0xFFFFFFFF, 0xFFFFFFFE, rng.randrange(1 << 32)))
    return {"profile": family[0], "base": 0, "fw": fw, "fh": fh, "cdf": cdf, "pcm": pcm, "sr": _signal_range(rng), "hdr": _header_fields(rng),
            "pictures": pics, "pn0": pn0, "trailing": [rng.choice(("pad", "aux"))] if rng.random() < 0.1 else [], "zero_next_offsets": rng.random() < 0.2,
            "base_size": [w, h], "shape": list(shape)}


def _domain(tier, seed):
    import vc2_data_tables as T

    wavelets = sorted(int(x) for x in T.WaveletFilters)
    matrices = set((int(a), int(b), c, d) for (a, b, c, d) in T.QUANTISATION_MATRICES)
    seqs = {fam: [] for fam in D_FAMILIES}
    n = 0
    for rnd in range(D_ROUNDS[tier]):
        for shape in D_SHAPES[tier]:
            for w in D_WIDTHS[tier]:
                for h in D_HEIGHTS[tier]:
                    for fam in D_FAMILIES:
                        rng = random.Random("c09/%d/%d/%d" % (seed, rnd, n))
                        # sampling format, coding mode and slice grid rotate so that every shape meets every one of them
                        cdf, pcm = (n // 4) % 3, (n // 12) % 2
                        grid = D_GRIDS[(n // 24 + n // 4) % len(D_GRIDS)]
                        if rnd:
                            cdf, pcm, grid = rng.randrange(3), rng.randrange(2), rng.choice(D_GRIDS)
                        seqs[fam].append(_sequence(rng, shape, w, h, fam, cdf, pcm, wavelets, matrices, grid, D_SHAPES[tier]))
                        n += 1
    specs = []
    for fam in D_FAMILIES:
        rng = random.Random("c09/streams/%d/%s%s" % (seed, fam[0], fam[1]))
        lst = seqs[fam]
        rng.shuffle(lst)
        i = 0
        while i < len(lst):
            k = rng.choice((1, 1, 2, 3))
            group = lst[i:i + k]
            if k > 1 and rng.random() < 0.3:  # a sequence of the other profile in between
                other = rng.choice([f for f in D_FAMILIES if f[0] != fam[0]])
                group.insert(1, dict(rng.choice(seqs[other])))
            specs.append({"family": "%s-%s" % fam, "sequences": group, "cseed": rng.randrange(1 << 40)})
            i += k
    # presets: a base video format without overrides (frame size, sampling format and signal range all implied)
    rng = random.Random("c09/presets/%d" % seed)
    for base in ((1,) if tier == "quick" else (1, 2, 1, 2)):
        fam = rng.choice(D_FAMILIES)
        q = _sequence(rng, rng.choice(((0, 1), (1, 1), (0, 2), (1, 0))), 1, 1, fam, 2, 0, wavelets, matrices, (2, 2), D_SHAPES[tier])
        q.update(base=base, fw=_BASE_FORMATS[base][0], fh=_BASE_FORMATS[base][1], cdf=2, pcm=rng.randrange(2), sr=1)
        q["pictures"] = q["pictures"][:1] * (2 if q["pcm"] else 1)
        for t in q["pictures"]:
            t["modes"] = [rng.choice(("zero", "small", "dc")) for _ in range(3)]
        q["pn0"] = 0
        specs.append({"family": "preset", "sequences": [q], "cseed": rng.randrange(1 << 40)})
    return specs


def _spec_size(spec):
    return sum(q["fw"] * q["fh"] * len(q["pictures"]) for q in spec["sequences"])


def check_domain(rep, tier, seed):
    from pyvc import frontend, runner

    frontend.ensure_repo_on_path()
    import vc2_conformance.decoder  # noqa: F401  imported before forking: the workers share the tree under check

    tier = tier if tier in D_ROUNDS else "thorough"
    t0 = time.time()
    specs = _domain(tier, seed)
    order = sorted(range(len(specs)), key=lambda i: -_spec_size(specs[i]))  # largest first: better balance
    tasks = []
    for a in range(0, len(order), _CHUNK):
        idx = order[a:a + _CHUNK]
        tasks.append((idx, [specs[i] for i in idx]))
    results = {}
    ctx = multiprocessing.get_context("fork")
    with ctx.Pool(WORKERS) as pool:
        for idx, res in pool.imap_unordered(_run_indexed, tasks):
            for i, r in zip(idx, res):
                results[i] = r
    wall = time.time() - t0

    fams = {}
    for i, spec in enumerate(specs):
        r = results[i]
        a = fams.setdefault(spec["family"], {"streams": 0, "ok": 0, "rejected": 0, "fail": 0, "pictures": 0, "clipped": 0, "sequences": 0, "seconds": 0.0,
                                             "reject_kinds": {}, "asym_unaligned": 0, "fails": [], "shapes": set(), "formats": set(), "sample": None})
        a["streams"] += 1
        a[r["status"]] += 1
        a["seconds"] += r["seconds"]
        if r["status"] == "rejected":
            k = r["problems"][0].split(":")[0]
            a["reject_kinds"][k] = a["reject_kinds"].get(k, 0) + 1
            continue
        a["pictures"] += r["pictures"]
        a["clipped"] += r["clipped"]
        a["sequences"] += len(spec["sequences"])
        for q in spec["sequences"]:
            lw, lh, cw, ch = _picture_dimensions(q["fw"], q["fh"], q["cdf"], q["pcm"])
            for t in q["pictures"]:
                a["shapes"].add((t["d"], t["dh"]))
                a["formats"].add((t["d"], t["dh"], q["cdf"], q["pcm"]))
                if t["dh"] and (lw % (1 << (t["d"] + t["dh"])) or cw % (1 << (t["d"] + t["dh"]))):
                    a["asym_unaligned"] += 1
        if r["status"] == "fail":
            a["fails"].append((r["bytes"], i))
        elif a["sample"] is None and len(spec["sequences"]) > 1:
            a["sample"] = {"stream": i, "bytes": r["bytes"], "pictures": r["pictures"],
                           "sequences": [{k: q[k] for k in ("profile", "fw", "fh", "cdf", "pcm", "sr", "pn0")} for q in spec["sequences"]]}

    for fam in sorted(fams):
        a = fams[fam]
        if 3 * a["rejected"] > a["streams"]:
            raise runner.CheckerError("C09 stream domain, family %s: the validator rejected %d of %d generated streams (%r) - the generator and the tree under check "
                                      "disagree about what a conformant stream is; nothing can be concluded" % (fam, a["rejected"], a["streams"], a["reject_kinds"]))
        rep.add_bounded(
            "C09 decoded pictures, family %s (independent stream writer -> real init_io/parse_stream -> clauses S, R, N, O on every callback call)" % fam,
            ("streams of 1-3 sequences; per sequence: first picture = every (dwt_depth, dwt_depth_ho) in %s x component width in %s x height in %s (colour difference "
             "size; luma larger by the sampling factor), 4:4:4 / 4:2:2 / 4:2:0 x frames / fields and slice grids %s rotating, %d round(s); seeded: 7x7 wavelet pairs, custom or preset "
             "signal ranges (luma and colour difference depths 1..16, also different), custom / default quantisation matrices, qindex 0..127, coefficient contents "
             "{zero, +-2^(depth-1) boundaries, DC only, noise, extreme up to +-2^31}, slice payloads cut short (dangling) or with slack, slice_size_scaler / slice_bytes fractions, "
             "fragment sizes {1, 2, 3, n/2, n, varying}, 1-3 further pictures per sequence with other transform shapes, padding / auxiliary / repeated sequence header units, "
             "picture numbers incl. wrap at 2^32 [%s tier]") % (D_SHAPES[tier], D_WIDTHS[tier], D_HEIGHTS[tier], sorted(set(D_GRIDS)), D_ROUNDS[tier], tier)
            if fam != "preset" else "base video formats 1, 2 (176x120, 176x144, 4:2:0, 8 bit full range) without any override, frames and fields, one small transform [%s tier]" % tier,
            a["streams"], False, distinct=a["pictures"], samples=[a["sample"]] if a["sample"] else [],
            note="%d streams decoded: %d accepted and well-formed, %d failing, %d rejected by the validator (outside the domain) %s; %d sequences, %d output pictures judged, "
                 "%d with a horizontal-only level on a width that is not a multiple of 2^(dwt_depth+dwt_depth_ho), %d components touching 0 or 2^depth-1, "
                 "%d distinct (dwt_depth, dwt_depth_ho), %d distinct (shape, sampling, coding mode); %.0f CPU-s"
                 % (a["streams"], a["ok"], a["fail"], a["rejected"], a["reject_kinds"] or "", a["sequences"], a["pictures"], a["asym_unaligned"], a["clipped"],
                    len(a["shapes"]), len(a["formats"]), a["seconds"]))
    rep.extra_coverage["c09_stream_domain"] = {"streams": len(specs), "pictures_judged": sum(a["pictures"] for a in fams.values()),
                                               "rejected": sum(a["rejected"] for a in fams.values()), "wall_s": round(wall, 1)}

    # ---- violations: smallest failing streams first, at most 2 per family and 5 in all
    reported = 0
    total_fail = sum(a["fail"] for a in fams.values())
    for fam in sorted(fams):
        for (nbytes, i) in sorted(fams[fam]["fails"])[:2]:
            if reported >= 5:
                break
            reported += 1
            r, spec = results[i], specs[i]
            rep.violation("stream-domain-%s-%d" % (fam, i), {
                "what": "C09: a picture output by the reference decoder is not well-formed (or not output exactly once, in order): " + r["problems"][0],
                "inputs": {"stream_hex": r.get("stream_hex") or "regenerate: bounded.c09_picture._build_stream(spec)", "spec": spec, "seed": seed, "tier": tier, "stream_index": i},
                "expected": {"per output, in order": r["expected"], "clauses": "S size per (11.6.2), R int in [0, 2^depth-1] per (11.6.3), N picture number as coded, O one output per picture in stream order"},
                "observed": r["problems"],
                "failing_streams_in_domain": total_fail,
                "reproduce": "cd /verif && [VERIF_REPO=<tree>] .venv/bin/python -c \"from pyvc import frontend; frontend.ensure_repo_on_path(); import json, bounded.c09_picture as m; "
                             "p = json.load(open('<this replay file>')); data, exp = m._build_stream(p['inputs']['spec']); print(m._decode_and_judge(data, exp))\""
                             "  (or, without this module: feed bytes.fromhex(inputs.stream_hex) to vc2_conformance.decoder.init_io / parse_stream with an _output_picture_callback and look at the picture)",
            })


def _run_indexed(task):
    idx, specs = task
    return idx, _run_chunk((0, specs))


REGISTER = {"C09": dict(extra=[check, check_domain])}
