"""C20, bounded stand-in for the primitives outside the verified subset (generator / bitarray based):
BitstreamReader.read_bitarray / read_bytes / try_read_bitarray and BitstreamWriter.write_bitarray /
write_bytes.  Exhaustive small scope against a list-of-bits reference written from the property
statement; also cross-reads everything with the validator's reader (decoder/io.py)."""
import io
import itertools


def _bits_of_bytes(bs):
    return [(b >> (7 - i)) & 1 for b in bs for i in range(8)]


def check(rep, tier, seed):
    from pyvc import frontend

    frontend.ensure_repo_on_path()
    from bitarray import bitarray
    from vc2_conformance.bitstream.io import BitstreamReader, BitstreamWriter
    from vc2_conformance.bitstream.exceptions import OutOfRangeError
    from vc2_conformance.decoder import io as dio
    from vc2_conformance.pseudocode.state import State

    N = 6 if tier == "quick" else 8
    evals = 0
    distinct = 0
    samples = []
    bad = []

    def fail(what, **inputs):
        bad.append(what)
        rep.violation("bitarray-bytes-" + str(len(bad)), {"what": what, "inputs": inputs})

    # ---- write_bitarray / read_bitarray / validator read_nbits, at every alignment, all lengths
    for prefix in range(0, 9):
        for n in range(-1, N + 1):
            for ln in range(0, N + 2):
                if ln > max(n, 0) + 1:
                    continue
                for bits in itertools.product([0, 1], repeat=ln):
                    evals += 1
                    f = io.BytesIO()
                    w = BitstreamWriter(f)
                    for _ in range(prefix):
                        w.write_bit(1)
                    before = w.tell()
                    try:
                        w.write_bitarray(n, bitarray(list(bits)))
                        raised = False
                    except OutOfRangeError:
                        raised = True
                    if raised != (ln > n):
                        fail("write_bitarray raises OutOfRangeError exactly when the value is longer than the length",
                             prefix=prefix, n=n, bits=list(bits), raised=raised)
                        continue
                    if raised:
                        if w.tell() != before:
                            fail("write_bitarray wrote bits although it raised", prefix=prefix, n=n, bits=list(bits))
                        continue
                    distinct += 1
                    w.flush()
                    want = [1] * prefix + list(bits) + [0] * (n - ln)
                    got = _bits_of_bytes(f.getvalue())[: len(want)]
                    if got != want:
                        fail("write_bitarray writes the bits right-padded with zeros", prefix=prefix, n=n, bits=list(bits), file=list(f.getvalue()))
                        continue
                    # pad the file so that readers do not hit EOF, then read back with both readers
                    data = f.getvalue() + b"\xAA"
                    r = BitstreamReader(io.BytesIO(data))
                    r.read_nbits(prefix)
                    ba = r.read_bitarray(n)
                    if list(ba) != want[prefix:] or r.tell() != w.tell():
                        fail("read_bitarray reads back what write_bitarray wrote at the same position", prefix=prefix, n=n, bits=list(bits), got=list(ba))
                    st = State()
                    dio.init_io(st, io.BytesIO(data))
                    dio.read_nbits(st, prefix)
                    v = dio.read_nbits(st, n)
                    if v != int("".join(map(str, want[prefix:])) or "0", 2) or dio.tell(st) != w.tell():
                        fail("validator read_nbits agrees with the written bit array", prefix=prefix, n=n, bits=list(bits), got=v)
                    if len(samples) < 3 and ln == 3:
                        samples.append({"prefix_bits": prefix, "n": n, "bits": list(bits)})
    rep.add_bounded("write_bitarray/read_bitarray/validator read_nbits agreement",
                    "exhaustive: start alignments 0..8 bits, lengths -1..%d, all bit arrays of length <= length+1" % N,
                    evals, True, distinct=distinct, samples=samples)

    # ---- write_bytes / read_bytes
    evals2 = 0
    alphabet = [0x00, 0xFF, 0xA5]
    K = 2 if tier == "quick" else 3
    for prefix in (0, 3, 8):
        for k in range(-1, K + 1):
            for ln in range(0, K + 2):
                for bs in itertools.product(alphabet, repeat=ln):
                    evals2 += 1
                    f = io.BytesIO()
                    w = BitstreamWriter(f)
                    for _ in range(prefix):
                        w.write_bit(0)
                    try:
                        w.write_bytes(k, bytes(bs))
                        raised = False
                    except OutOfRangeError:
                        raised = True
                    if raised != (ln > k):
                        fail("write_bytes raises OutOfRangeError exactly when the value is longer than the length", prefix=prefix, k=k, bytes=list(bs))
                        continue
                    if raised:
                        continue
                    w.flush()
                    want = [0] * prefix + _bits_of_bytes(bytes(bs) + b"\x00" * (k - ln))
                    if _bits_of_bytes(f.getvalue())[: len(want)] != want:
                        fail("write_bytes writes the bytes right-padded with zero bytes", prefix=prefix, k=k, bytes=list(bs))
                        continue
                    r = BitstreamReader(io.BytesIO(f.getvalue() + b"\x55"))
                    r.read_nbits(prefix)
                    got = r.read_bytes(k)
                    if got != bytes(bs) + b"\x00" * (k - ln) or r.tell() != w.tell():
                        fail("read_bytes reads back what write_bytes wrote", prefix=prefix, k=k, bytes=list(bs), got=list(got))
    rep.add_bounded("write_bytes/read_bytes agreement", "exhaustive: alignments {0,3,8}, lengths -1..%d, byte strings over {00,FF,A5} up to length+1" % K,
                    evals2, True, distinct=evals2, samples=[{"k": 2, "bytes": [0xA5, 0xFF]}])

    # ---- bounded blocks: reads past the end give 1s, writing 1s past the end is accepted, 0s rejected
    evals3 = 0
    M = 5 if tier == "quick" else 7
    for blk in range(-1, M + 1):
        for n in range(0, M + 2):
            for bits in itertools.product([0, 1], repeat=n):
                evals3 += 1
                f = io.BytesIO()
                w = BitstreamWriter(f)
                w.bounded_block_begin(blk)
                inside = max(blk, 0)
                try:
                    w.write_bitarray(n, bitarray(list(bits)))
                    ok = True
                except ValueError:
                    ok = False
                expect_ok = all(b == 1 for b in bits[inside:])
                if ok != expect_ok:
                    fail("bounded block: writing 1s past the end is accepted, a 0 past the end raises ValueError", block=blk, bits=list(bits), accepted=ok)
                    continue
                if not ok:
                    continue
                left = w.bounded_block_end()
                if left != max(0, inside - n):
                    fail("bounded_block_end returns the number of unused bits", block=blk, bits=list(bits), got=left)
                w.flush()
                written = _bits_of_bytes(f.getvalue())[: min(n, inside)]
                if written != list(bits[:inside]):
                    fail("bounded block: the bits inside the block are written", block=blk, bits=list(bits))
                # read the block back: bits inside from the tape, 1s beyond
                r = BitstreamReader(io.BytesIO(f.getvalue() + b"\x00\x00"))
                r.bounded_block_begin(blk)
                got = list(r.read_bitarray(n))
                if got != list(bits[:inside]) + [1] * max(0, n - inside):
                    fail("bounded block: reads past the end give 1s (BitstreamReader.read_bitarray)", block=blk, bits=list(bits), got=got)
                st = State()
                dio.init_io(st, io.BytesIO(f.getvalue() + b"\x00\x00"))
                st["bits_left"] = inside
                got2 = [dio.read_bitb(st) for _ in range(n)]
                if got2 != got:
                    fail("bounded block: validator read_bitb agrees with BitstreamReader", block=blk, bits=list(bits), got=got2)
    rep.add_bounded("bounded blocks with bit arrays", "exhaustive: block lengths -1..%d, all bit arrays up to length %d" % (M, M + 1), evals3, True,
                    distinct=evals3, samples=[{"block": 2, "bits": [0, 1, 1, 1]}])

    # ---- try_read_bitarray: never raises at EOF, returns the bits that exist (1s past a block end are left)
    evals4 = 0
    for nbytes in range(0, 3):
        for skip in range(0, 8 * nbytes + 1):
            for want_n in range(0, 12):
                evals4 += 1
                data = bytes([0xC3] * nbytes)
                r = BitstreamReader(io.BytesIO(data))
                try:
                    r.read_nbits(skip)
                except EOFError:
                    continue
                got = list(r.try_read_bitarray(want_n))
                ref = _bits_of_bytes(data)[skip: skip + want_n]
                if got != ref:
                    fail("try_read_bitarray returns the available bits without raising", nbytes=nbytes, skip=skip, n=want_n, got=got)
    rep.add_bounded("try_read_bitarray at end of file", "exhaustive: files of 0..2 bytes, every start offset, 0..11 bits requested", evals4, True,
                    distinct=evals4, samples=[{"nbytes": 1, "skip": 5, "n": 6}])


def check_try_read_in_blocks(rep, tier, seed):
    """try_read_bitarray inside / at the end of / beyond a bounded block: by its documentation it leaves the block when that is
    exhausted and goes on with the bits that really follow in the file, so it returns exactly the file's bits from the reader's
    real position (the block start plus the bits really consumed, at most the block length), never a made-up 1, and tell() moves
    by the number of bits returned."""
    import io

    from pyvc import frontend

    frontend.ensure_repo_on_path()
    from vc2_conformance.bitstream.io import BitstreamReader, to_bit_offset

    evals = 0
    nfail = 0
    for data in (bytes([0xC3, 0x5A, 0x0F]), bytes([0x00, 0xFF, 0x81]), bytes([0x96])):
        bits = _bits_of_bytes(data)
        for skip in range(0, 9):
            for L in range(-1, 9):
                for used in range(0, max(L, 0) + 3):
                    for want_n in (0, 1, 2, 5, 9):
                        if skip > len(bits):
                            continue
                        r = BitstreamReader(io.BytesIO(data))
                        try:
                            r.read_nbits(skip)
                            r.bounded_block_begin(L)
                            for _ in range(used):
                                r.read_bit()
                        except (EOFError, ValueError):
                            continue  # the scenario itself is not constructible (block past the end of file, negative length rejected)
                        evals += 1
                        real = skip + min(used, max(L, 0))
                        got = list(r.try_read_bitarray(want_n))
                        ref = bits[real: real + want_n]
                        pos = to_bit_offset(*r.tell())
                        if (got != ref or pos != real + len(got)) and nfail < 3:
                            nfail += 1
                            rep.violation("try-read-block-%d" % nfail, {
                                "what": "try_read_bitarray in / after a bounded block does not return the bits that follow in the file (or tell() disagrees)",
                                "inputs": {"file_hex": data.hex(), "skip_bits": skip, "block_length": L, "bits_read_in_block": used, "requested": want_n},
                                "expected": {"bits": ref, "tell_bits": real + len(ref)}, "observed": {"bits": got, "tell_bits": pos}})
    rep.add_bounded("try_read_bitarray in, at the end of and beyond bounded blocks", "exhaustive: 3 files, start offsets 0..8, block lengths -1..8, 0..len+2 bits consumed "
                    "(exactly used up, over-read, zero length), 0/1/2/5/9 bits requested", evals, True, distinct=evals,
                    samples=[{"file_hex": "c35a0f", "skip_bits": 3, "block_length": 4, "bits_read_in_block": 4, "requested": 5}])


REGISTER = {"C20": dict(extra=[check, check_try_read_in_blocks], assumptions=[
    "BOUNDED (not proved): read_bitarray/read_bytes/try_read_bitarray/write_bitarray/write_bytes are checked exhaustively only up to the small scopes listed under bounded_checks"])}
