from . import symexec, stmts, calls  # noqa
from . import ext

ext.install(symexec.Exec, stmts.Runner)
ext.install_calls()
