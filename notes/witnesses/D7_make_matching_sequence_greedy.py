from vc2_conformance.symbol_re import make_matching_sequence, ImpossibleSequenceError, Matcher
def t(req, *pats, **kw):
    try: print(req, pats, "->", make_matching_sequence(req, *pats, **kw))
    except ImpossibleSequenceError: print(req, pats, "-> Impossible")
t(["a"], "b a | a c c c c")          # inserting b first is required (depth 3)
t(["a"], "(b a) | (a c c)")          # inserting first is shorter: [b,a] (2) vs [a,c,c] (3)
t(["a","a"], "a b b b b a | a a")    # 
t(["a"], "a b b | b a")
