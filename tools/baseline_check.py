#!/usr/bin/env python3
"""Runs the pinned test suite in /repo (guard off) and compares the passing set with BASELINE.json stable_pass."""
import json, os, subprocess, sys, xml.etree.ElementTree as ET
junit = "/tmp/junit_base_%d.xml" % os.getpid()
env = dict(os.environ, PATH="/venv/bin:" + os.environ["PATH"])
env.pop("VC2_CONFORMANCE_VERIF", None)
t = subprocess.run("/venv/bin/python -m pytest -q -p no:cacheprovider --timeout=900 --continue-on-collection-errors -n 8 --junitxml=%s" % junit,
                   shell=True, cwd="/repo", env=env, capture_output=True, text=True)
print(t.stdout.strip().split("\n")[-1])
passed = set()
for tc in ET.parse(junit).getroot().iter("testcase"):
    if not any(ch.tag in ("failure", "error", "skipped") for ch in tc):
        passed.add(tc.get("classname") + "::" + tc.get("name"))
os.unlink(junit)
base = set(json.load(open("/root/.vp/BASELINE.json"))["stable_pass"])
missing = sorted(base - passed)
print("baseline tests:", len(base), "not passing now:", len(missing), missing[:10])
sys.exit(1 if missing else 0)
