"""Native (CPython) semantics of lemmas and contracts: replay of counter-models on the
real code, and the bounded stand-in used when an obligation cannot be decided."""
import ast
import copy
import itertools
import random
import time

from . import api


class NativeFail(object):
    def __init__(self, what, inputs, detail=""):
        self.what = what
        self.inputs = inputs
        self.detail = detail

    def as_dict(self):
        return {"what": self.what, "inputs": self.inputs, "detail": self.detail}


def run_lemma(lem, args):
    """Returns None (holds / precondition not met) or NativeFail."""
    try:
        lem.native(*args)
    except api.PreFail:
        return None
    except (AssertionError, api.ContractViolation) as e:
        return NativeFail("lemma %s fails natively" % lem.name, {p: repr(a) for (p, _), a in zip(lem.params, args)}, repr(e))
    except (RecursionError, MemoryError, OverflowError):
        # a resource limit of this native run (e.g. `1 << n` for a sampled 64-bit n under the child's address-space cap),
        # not a statement about the lemma: the input is skipped
        return None
    except Exception as e:
        return NativeFail("lemma %s raises %s natively" % (lem.name, type(e).__name__), {p: repr(a) for (p, _), a in zip(lem.params, args)}, repr(e))
    return None


_SMALL = list(range(-3, 10))
_EDGE = [-(2 ** 40), -1025, -256, -255, -17, 15, 16, 17, 31, 32, 33, 63, 64, 100, 127, 128, 255, 256, 257, 1023, 1024, 65535, 2 ** 32 - 1, 2 ** 32, 2 ** 40 + 1]


def int_domain(n_params, budget):
    """Per-parameter grids whose product stays under budget."""
    if n_params == 0:
        return []
    grid = sorted(set(_SMALL + _EDGE))
    while len(grid) ** n_params > budget and len(grid) > 4:
        # drop from the edge list first
        grid = grid[1:-1] if len(grid) > len(_SMALL) else grid[:-1]
    return [grid] * n_params


def bounded_lemma(lem, seed, budget=60000, seconds=20.0):
    """Small-scope exhaustive + seeded random native evaluation of a lemma with int/bool parameters."""
    kinds = [ann for (_, ann) in lem.params]
    if any(k not in ("int", "bool") for k in kinds):
        return {"ran": False, "reason": "non-integer lemma parameters", "evaluations": 0, "fail": None}
    n = len(kinds)
    t0 = time.time()
    evals = 0
    doms = int_domain(n, budget)
    for i, k in enumerate(kinds):
        if k == "bool":
            doms[i] = [False, True]
    for args in itertools.product(*doms) if n else [()]:
        evals += 1
        f = run_lemma(lem, args)
        if f is not None:
            return {"ran": True, "evaluations": evals, "fail": f}
        if time.time() - t0 > seconds:
            break
    rng = random.Random(seed)
    while time.time() - t0 < seconds and evals < 4 * budget and n:
        args = []
        for k in kinds:
            if k == "bool":
                args.append(rng.random() < 0.5)
            else:
                mag = rng.choice([4, 8, 12, 16, 33, 64])
                args.append(rng.randint(-(2 ** mag), 2 ** mag))
        evals += 1
        f = run_lemma(lem, tuple(args))
        if f is not None:
            return {"ran": True, "evaluations": evals, "fail": f}
    return {"ran": True, "evaluations": evals, "fail": None, "domain": "grid %s^%d + random to 2^64" % (len(doms[0]) if doms else 0, n)}


# ---------------------------------------------------------------------------------------------------------
# guarded execution: native evaluation of the real code on generated inputs can hang in an uninterruptible C call (e.g. `1 << n` for an
# astronomically large n taken from an edge-value grid) or allocate without bound; it therefore runs in a forked child process with
# a wall-clock limit and an address-space cap, and is killed when it exceeds them.  A killed run is 'not run', never a verdict.


def guarded(fn, args, seconds, grace=20.0, mem_gb=6):
    import multiprocessing as mp
    import os
    import resource

    ctx = mp.get_context("fork")
    rd, wr = ctx.Pipe(duplex=False)

    def child():
        try:
            try:
                import psutil  # noqa: F401
            except Exception:
                pass
            try:
                with open("/proc/self/statm") as f:
                    cur = int(f.read().split()[0]) * os.sysconf("SC_PAGE_SIZE")
                lim = cur + int(mem_gb * (1 << 30))
                resource.setrlimit(resource.RLIMIT_AS, (lim, lim))
            except Exception:
                pass
            r = fn(*args)
            if isinstance(r, dict) and r.get("fail") is not None and hasattr(r["fail"], "as_dict"):
                r = dict(r, fail=r["fail"].as_dict())
            try:
                wr.send(("ok", r))
            except Exception as e:  # unpicklable result
                wr.send(("ok", {"ran": False, "reason": "unpicklable result of the native run: %r" % (e,), "evaluations": 0, "fail": None}))
        except MemoryError:
            wr.send(("ok", {"ran": False, "reason": "native run hit the address-space cap", "evaluations": 0, "fail": None}))
        except BaseException as e:  # noqa
            wr.send(("err", repr(e)))
        finally:
            os._exit(0)

    p = ctx.Process(target=child)
    p.start()
    wr.close()
    out = None
    if rd.poll(seconds + grace):
        try:
            out = rd.recv()
        except EOFError:
            out = None
    if p.is_alive():
        p.kill()
    p.join(5)
    if out is None:
        return {"ran": False, "reason": "native run killed after %.0f s (an evaluation did not return)" % (seconds + grace), "evaluations": 0, "fail": None}
    if out[0] == "err":
        return {"ran": False, "reason": "native runner error " + out[1], "evaluations": 0, "fail": None}
    return out[1]
