import argparse
import json
import os
import sys
import time
import traceback

VERIF = os.path.dirname(os.path.dirname(os.path.abspath(__file__)))
sys.path.insert(0, VERIF)


def main():
    ap = argparse.ArgumentParser(prog="verif")
    sub = ap.add_subparsers(dest="cmd")
    c = sub.add_parser("check")
    c.add_argument("pid")
    c.add_argument("--tier", default=os.environ.get("VERIF_TIER", "quick"))
    r = sub.add_parser("replay")
    r.add_argument("path")
    s = sub.add_parser("selftest")
    s.add_argument("--only", default=None)
    a = ap.parse_args()
    if a.cmd == "check":
        sys.exit(check(a.pid, a.tier))
    if a.cmd == "replay":
        from pyvc import replay

        sys.exit(replay.main(a.path))
    if a.cmd == "selftest":
        from pyvc import selftest

        sys.exit(selftest.main(a.only))
    ap.print_help()
    sys.exit(3)


def _raised_by_code_under_check(e):
    """Walks the traceback from the innermost frame outwards, skipping library frames: True when the first frame that belongs
    either to the tree under check or to /verif belongs to the tree under check."""
    from pyvc import frontend

    files = []
    tb = e.__traceback__
    while tb is not None:
        files.append(tb.tb_frame.f_code.co_filename)
        tb = tb.tb_next
    root = os.path.realpath(frontend.REPO) + os.sep
    mine = os.path.dirname(os.path.dirname(os.path.realpath(__file__))) + os.sep
    for f in reversed(files):
        f = os.path.realpath(f)
        if f.startswith(root):
            return True
        if f.startswith(mine) and not f.startswith(os.path.join(mine, ".venv") + os.sep):
            return False
    return False


def check(pid, tier):
    t0 = time.time()
    seed = int(os.environ.get("VERIF_SEED", "0") or 0)
    if tier not in ("quick", "thorough"):
        tier = "quick"
    try:
        import props
        from pyvc import runner

        if pid in props.BROKEN:
            print("CHECKER-ERROR %s: %s" % (pid, props.BROKEN[pid]), file=sys.stderr)
            return 3
        if pid not in props.PROPS:
            print("CHECKER-ERROR unknown or unclaimed property %s" % pid, file=sys.stderr)
            return 3
        P = props.PROPS[pid]
        rep = runner.Report(pid, tier, seed)
        ulist = []
        if P.get("modules"):
            ulist = runner.run_deductive(rep, P["modules"], only=P.get("only_units"))
            runner.vacuity_checks(rep, ulist)
        for hook in P.get("extra", []):
            try:
                hook(rep, tier, seed)
            except Exception as e:
                if not _raised_by_code_under_check(e):
                    raise
                # a bounded hook completes on every input of its stated domain on the unchanged tree and documents the exceptions it
                # expects; an exception that escapes from the code under check itself is therefore a changed behaviour on that domain
                tb = traceback.format_exc()
                rep.violation("%s-%s-raises-%s" % (pid, getattr(hook, "__module__", "hook").split(".")[-1], type(e).__name__), {
                    "what": "the code under check raised %s (not an exception this bounded check documents as expected) while %s.%s "
                            "evaluated the contract on its stated domain" % (type(e).__name__, getattr(hook, "__module__", "?"), getattr(hook, "__name__", "?")),
                    "inputs": {"hook": "%s.%s" % (getattr(hook, "__module__", "?"), getattr(hook, "__name__", "?")), "tier": tier, "seed": seed},
                    "exception": repr(e), "traceback": tb[-4000:]})
        cmd = "./verif check %s --tier %s  (pyvc: ast of /repo source -> VCs -> z3 5.1 in a %d-process pool, cvc5 on unknown)" % (pid, tier, os.cpu_count() or 1)
        return runner.finish(rep, ulist, P.get("level", "proof"), P.get("coverage", {}), P.get("assumptions", []), cmd, t0)
    except Exception as e:
        traceback.print_exc()
        print("CHECKER-ERROR %s: %r" % (pid, e), file=sys.stderr)
        return 3


if __name__ == "__main__":
    main()
