"""C09 - BOUNDED native stand-in that always runs next to the proofs (never counted as proved).

The contracts of contracts/c09_picture_output.py use quantifiers over whole arrays, which have no native
evaluation; if an edit takes clip_component / offset_component / idwt_pad_removal / picture_decode out of the
verified subset the deductive verdict becomes 'undecided'.  This module then still exercises the same
postconditions on the real functions:

* unit level: clip/offset of generated arrays (every depth 1..16, boundary values -2^(d-1)-1, -2^(d-1),
  2^(d-1)-1, 2^(d-1), +-1, 0, huge) and padding removal for all small sizes;
* stream level: small HQ / LD / fragmented streams with hand-chosen coefficients (including the values that
  synthesise exactly +-2^(d-1)) are decoded with the real parse_stream; every callback call is checked for
  count, order, picture number, component sizes and sample range."""
import copy
import random
from io import BytesIO


def _sint_bits(v):
    return 1 if v == 0 else 2 * ((abs(v) + 1).bit_length() - 1) + 2


def _len_bytes(cs):
    return (sum(map(_sint_bits, cs)) + 7) // 8


def _streams(rng, tier):
    """[(description, bytes, expected [(picture_number, (w, h), (cw, ch))], luma_depth, chroma_depth)]"""
    import vc2_data_tables as tables
    from vc2_conformance import bitstream as bs

    PC = tables.ParseCodes

    def hdr(w, h, pcm=0):
        vp = bs.SourceParameters(frame_size=bs.FrameSize(custom_dimensions_flag=True, frame_width=w, frame_height=h),
                                 clean_area=bs.CleanArea(custom_clean_area_flag=True, clean_width=w, clean_height=h))
        return bs.DataUnit(parse_info=bs.ParseInfo(parse_code=PC.sequence_header),
                           sequence_header=bs.SequenceHeader(video_parameters=vp, picture_coding_mode=pcm))

    def hq(n, depth, sx, sy, slices, wavelet=tables.WaveletFilters.haar_no_shift):
        scaler = max(1, -(-max(_len_bytes(c) for sl in slices for c in sl) // 255))  # lengths are 8-bit counts of `scaler` bytes
        return bs.DataUnit(parse_info=bs.ParseInfo(parse_code=PC.high_quality_picture), picture_parse=bs.PictureParse(
            picture_header=bs.PictureHeader(picture_number=n),
            wavelet_transform=bs.WaveletTransform(
                transform_parameters=bs.TransformParameters(wavelet_index=wavelet, dwt_depth=depth, slice_parameters=bs.SliceParameters(
                    slices_x=sx, slices_y=sy, slice_prefix_bytes=0, slice_size_scaler=scaler)),
                transform_data=bs.TransformData(hq_slices=[
                    bs.HQSlice(qindex=0, slice_y_length=-(-_len_bytes(y) // scaler), slice_c1_length=-(-_len_bytes(c1) // scaler), slice_c2_length=-(-_len_bytes(c2) // scaler),
                               y_transform=y, c1_transform=c1, c2_transform=c2) for (y, c1, c2) in slices]))))

    def eos():
        return bs.DataUnit(parse_info=bs.ParseInfo(parse_code=PC.end_of_sequence))

    def ser(units):
        f = BytesIO()
        bs.autofill_and_serialise_stream(f, bs.Stream(sequences=[bs.Sequence(data_units=list(units))]))
        return f.getvalue()

    out = []
    B = [127, -128, 128, -129, 0, 1, -1, 126, 129, 2 ** 20, -(2 ** 20)]
    # default custom format: base video format 0 is 4:2:0 8 bit (chroma is half size in both directions)
    nrounds = 6 if tier == "quick" else 40
    for r in range(nrounds):
        w, h = rng.choice([(4, 2), (8, 6), (6, 8), (16, 6), (16, 10), (2, 2), (8, 4)])
        depth = rng.choice([0, 1, 2]) if (w, h) != (2, 2) else 0
        cw, ch = w // 2, h // 2
        # a single slice holds the whole padded picture: coefficient counts are those of the padded component
        scale = 2 ** depth
        pw, ph = -(-w // scale) * scale, -(-h // scale) * scale
        pcw, pch = -(-cw // scale) * scale, -(-ch // scale) * scale
        mode = r % 3
        def coeffs(n):
            if mode == 0:
                return [rng.choice(B) for _ in range(n)]
            if mode == 1:
                v = rng.choice([128, -128, 127, -129])
                return [v] + [0] * (n - 1) if depth else [v if i % 3 == 0 else rng.choice([0, 1, -1, 5]) for i in range(n)]
            return [rng.randint(-140, 140) for _ in range(n)]
        n0 = rng.choice([0, 7, 2 ** 32 - 1])
        units = [hdr(w, h), hq(n0, depth, 1, 1, [(coeffs(pw * ph), coeffs(pcw * pch), coeffs(pcw * pch))]),
                 hq((n0 + 1) % 2 ** 32, depth, 1, 1, [(coeffs(pw * ph), coeffs(pcw * pch), coeffs(pcw * pch))]), eos()]
        out.append(("hq %dx%d depth %d mode %d" % (w, h, depth, mode), ser(units), [(n0, (w, h), (cw, ch)), ((n0 + 1) % 2 ** 32, (w, h), (cw, ch))], 8, 8))
    # fields: each picture is half the frame height
    units = [hdr(8, 4, pcm=1), hq(0, 1, 1, 1, [([128] + [0] * 15, [0] * 4, [-128] + [0] * 3)]), hq(1, 1, 1, 1, [([0] * 16, [127] * 4, [0] * 4)]), eos()]
    out.append(("fields 8x4", ser(units), [(0, (8, 2), (4, 1)), (1, (8, 2), (4, 1))], 8, 8))
    return out


def check(rep, tier, seed):
    from pyvc import frontend

    frontend.ensure_repo_on_path()
    from vc2_conformance.pseudocode import picture_decoding as pd
    from vc2_conformance.pseudocode.state import State
    from vc2_conformance.decoder import io as dio
    from vc2_conformance import decoder
    from contracts import c02_corpus

    rng = random.Random(seed)
    evals = 0
    fails = 0

    def fail(name, what, inputs, observed):
        nonlocal fails
        fails += 1
        if fails <= 3:
            rep.violation("%s-%d" % (name, fails), {"what": what, "inputs": inputs, "observed": observed})

    # ---- unit level: clip + offset
    for depth in range(1, 17):
        half = 2 ** (depth - 1)
        vals = [-half - 1, -half, half - 1, half, 0, 1, -1, 2 ** 40, -(2 ** 40), half + 1]
        for trial in range(6 if tier == "quick" else 40):
            h, w = rng.randint(1, 4), rng.randint(1, 5)
            if trial == 0:
                grid = [[half if (x, y) == (0, 0) else rng.randint(-half, half - 1) for x in range(w)] for y in range(h)]  # exactly one sample one above the top
            elif trial == 1:
                grid = [[-half - 1 if (x, y) == (w - 1, h - 1) else rng.randint(-half, half - 1) for x in range(w)] for y in range(h)]
            else:
                grid = [[rng.choice(vals) for x in range(w)] for y in range(h)]
            for c in ("Y", "C1", "C2"):
                st = State(luma_depth=depth if c == "Y" else 3, color_diff_depth=depth if c != "Y" else 5)
                g = copy.deepcopy(grid)
                evals += 1
                try:
                    pd.clip_component(st, g, c)
                    ok1 = all(-half <= v <= half - 1 for row in g for v in row) and [len(r) for r in g] == [w] * h
                    ok1 = ok1 and all(g[y][x] == min(max(grid[y][x], -half), half - 1) for y in range(h) for x in range(w))
                    g2 = copy.deepcopy(g)
                    pd.offset_component(st, g2, c)
                    ok2 = all(g2[y][x] == g[y][x] + half for y in range(h) for x in range(w))
                    ok3 = all(0 <= v <= 2 ** depth - 1 for row in g2 for v in row)
                    obs = None if (ok1 and ok2 and ok3) else {"clipped": g, "offset": g2}
                except Exception as e:  # noqa
                    obs = repr(e)
                if obs is not None:
                    fail("clip-offset", "clip_component/offset_component leave a sample outside [0, 2^depth - 1] (or change the shape / the wrong samples)",
                         {"depth": depth, "component": c, "array": grid}, obs)
    # ---- unit level: padding removal
    sizes = range(1, 6) if tier == "quick" else range(1, 9)
    for w in sizes:
        for h in sizes:
            for ew in (0, 1, 3):
                for eh in (0, 1, 3):
                    for c in ("Y", "C1"):
                        st = State(luma_width=w if c == "Y" else 50, luma_height=h if c == "Y" else 50,
                                   color_diff_width=w if c != "Y" else 60, color_diff_height=h if c != "Y" else 60)
                        g = [[y * 100 + x for x in range(w + ew)] for y in range(h + eh)]
                        evals += 1
                        try:
                            pd.idwt_pad_removal(st, g, c)
                            ok = g == [[y * 100 + x for x in range(w)] for y in range(h)]
                            obs = None if ok else g
                        except Exception as e:  # noqa
                            obs = repr(e)
                        if obs is not None:
                            fail("pad-removal", "idwt_pad_removal does not leave exactly the picture's width x height (top-left part)",
                                 {"width": w, "height": h, "extra_columns": ew, "extra_rows": eh, "component": c}, obs)
    rep.add_bounded("clip/offset/padding removal (unit level, native)", "depths 1..16 x boundary-valued arrays up to 4x5 x 3 components; sizes 1..%d squared x extra rows/columns {0,1,3}" % max(sizes),
                    evals, False, distinct=evals)

    # ---- stream level
    n_streams = 0
    n_pics = 0
    streams = _streams(rng, tier)
    corpus = c02_corpus._streams()
    for name in sorted(corpus):
        streams.append(("corpus:" + name, corpus[name], None, 8, 8))
    for (desc, data, expected, ld, cd) in streams:
        got = []

        def cb(picture, video_parameters, picture_coding_mode, got=got):
            got.append((copy.deepcopy(dict(picture)), dict(video_parameters), picture_coding_mode))

        st = State(_output_picture_callback=cb)
        dio.init_io(st, BytesIO(data))
        accepted = True
        try:
            decoder.parse_stream(st)
        except decoder.ConformanceError:
            accepted = False
        n_streams += 1
        problems = []
        for i, (pic, vp, pcm) in enumerate(got):
            n_pics += 1
            fh = vp["frame_height"] // (2 if pcm == 1 else 1)
            fw = vp["frame_width"]
            from vc2_data_tables import ColorDifferenceSamplingFormats as CD
            cwid = fw // (2 if vp["color_diff_format_index"] != CD.color_4_4_4 else 1)
            chei = fh // (2 if vp["color_diff_format_index"] == CD.color_4_2_0 else 1)
            for c, (ew, eh), depth_bits in (("Y", (fw, fh), vp["luma_excursion"]), ("C1", (cwid, chei), vp["color_diff_excursion"]), ("C2", (cwid, chei), vp["color_diff_excursion"])):
                a = pic.get(c)
                if a is None or len(a) != eh or any(len(r) != ew for r in a):
                    problems.append("picture %d component %s is not %dx%d" % (i, c, ew, eh))
                    continue
                top = 2 ** depth_bits.bit_length() - 1  # 2^depth - 1 with depth = intlog2(excursion + 1) (video_depth)
                if any((not isinstance(v, int)) or v < 0 or v > top for r in a for v in r):
                    problems.append("picture %d component %s has a sample outside [0, %d]" % (i, c, top))
        if expected is not None:
            if not accepted:
                problems.append("a conformant stream was rejected")
            if [p["pic_num"] for (p, _, _) in got] != [e[0] for e in expected]:
                problems.append("picture numbers output %r, stream carries %r" % ([p["pic_num"] for (p, _, _) in got], [e[0] for e in expected]))
            for (p, _, _), e in zip(got, expected):
                if (len(p["Y"][0]), len(p["Y"])) != e[1] or (len(p["C1"][0]), len(p["C1"])) != e[2]:
                    problems.append("picture %d has size %r / %r, expected %r / %r" % (p["pic_num"], (len(p["Y"][0]), len(p["Y"])), (len(p["C1"][0]), len(p["C1"])), e[1], e[2]))
        if problems:
            fail("stream", "a decoded picture is not well-formed", {"stream": desc, "stream_hex": data.hex()}, problems[:5])
    rep.add_bounded("decoded pictures of small streams (native parse_stream)", "%d streams (seeded coefficient patterns incl. +-2^(depth-1) boundaries, sizes needing row-only / column-only padding, "
                    "fields, plus the validator corpus), %d pictures checked" % (n_streams, n_pics), n_streams, False, distinct=n_pics)


REGISTER = {"C09": dict(extra=[check])}
