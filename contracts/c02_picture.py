"""C02 / C01: contracts for decoder/picture_syntax.py (picture and transform parameters)."""
from pyvc.api import *
from contracts.c02_common import *
from contracts.c02_stream import lcv_ok, FRAME_IO, IO_POST, is_parse_code  # noqa: F401
from contracts.c02_sequence_header import coding_params_known, hdr_known  # noqa: F401
from contracts import c13_slice_sizes  # noqa: F401  (slice_sizes.py is transparent)
from vc2_conformance.decoder.exceptions import *  # noqa: F401,F403
from vc2_data_tables import QUANTISATION_MATRICES

PS = "vc2_conformance.decoder.picture_syntax."


@inline
def ld_code(pc):
    return (pc & 0xF8) == 0xC8


@inline
def hq_code(pc):
    return (pc & 0xF8) == 0xE8


@inline
def hi3(m, L):
    return lo_has(m, L, "HL") and lo_has(m, L, "LH") and lo_has(m, L, "HH")


@inline
def qm_shape(m, d, dh):
    """The level/orientation map has an entry for every subband of a (d, dh)-deep transform."""
    return ite(dh == 0,
               lo_has(m, 0, "LL") and forall(1, d + 1, lambda L: hi3(m, L), trigger=lambda L: lo_row(m, L)),
               lo_has(m, 0, "L") and forall(1, dh + 1, lambda L: lo_has(m, L, "H"), trigger=lambda L: lo_row(m, L))
               and forall(dh + 1, dh + d + 1, lambda L: hi3(m, L), trigger=lambda L: lo_row(m, L)))


TP_KEYS = ["wavelet_index", "dwt_depth", "wavelet_index_ho", "dwt_depth_ho", "slices_x", "slices_y", "slice_bytes_numerator",
           "slice_bytes_denominator", "slice_prefix_bytes", "slice_size_scaler", "quant_matrix"]
TP_MOD = FRAME_IO + ['state["_level_constrained_values"]', "state.g_lcv_level", 'state["_expected_major_version"]'] + ['state["%s"]' % k for k in TP_KEYS]


@inline
def wavelet_known(state):
    return (has(state, "wavelet_index") and has(state, "dwt_depth") and has(state, "wavelet_index_ho") and has(state, "dwt_depth_ho")
            and 0 <= state["wavelet_index"] and state["wavelet_index"] <= 6 and 0 <= state["wavelet_index_ho"] and state["wavelet_index_ho"] <= 6
            and state["dwt_depth"] >= 0 and state["dwt_depth_ho"] >= 0)


@inline
def slices_known(state):
    pc = state["parse_code"]
    return (has(state, "slices_x") and has(state, "slices_y") and state["slices_x"] >= 1 and state["slices_y"] >= 1
            and implies(ld_code(pc), has(state, "slice_bytes_numerator") and has(state, "slice_bytes_denominator")
                        and state["slice_bytes_denominator"] >= 1 and state["slice_bytes_numerator"] >= state["slice_bytes_denominator"])
            and implies(hq_code(pc), has(state, "slice_prefix_bytes") and has(state, "slice_size_scaler")
                        and state["slice_prefix_bytes"] >= 0 and state["slice_size_scaler"] >= 1))


@inline
def tp_known(state):
    """Transform parameters as left by transform_parameters() for the current picture/fragment parse code."""
    return (wavelet_known(state) and slices_known(state) and has(state, "quant_matrix")
            and qm_shape(state["quant_matrix"], state["dwt_depth"], state["dwt_depth_ho"]))


PIC_PRE = ["dinv(state)", 'not has(state, "_recorded_bytes")', "hdr_known(state)",
           'has(state, "parse_code") and (ld_code(state["parse_code"]) or hq_code(state["parse_code"]))']


@spec("vc2_conformance.constraint_table.allowed_values_for")
class _avf:
    args = {"constraint_table": "opaque", "key": "str", "values": "opaque:OrderedDict", "any_value": "opaque"}
    result = "opaque:ValueSet"
    requires = []
    modifies = []
    raises = {}
    ensures = []
    trusted = "constraint-table library (bounded-checked under C17): allowed_values_for never raises and returns a ValueSet"


@spec(PS + "set_quant_matrix")
class _sqm:
    args = {"state": STATE}
    requires = ["wavelet_known(state)",
                '(state["wavelet_index"], state["wavelet_index_ho"], state["dwt_depth"], state["dwt_depth_ho"]) in QUANTISATION_MATRICES']
    modifies = ['state["quant_matrix"]']
    raises = {}
    ensures = ['has(state, "quant_matrix")', 'qm_shape(state["quant_matrix"], state["dwt_depth"], state["dwt_depth_ho"])']
    trusted = ("indexes the constant table QUANTISATION_MATRICES with a 4-tuple; the shape of every default matrix for its depths is a ground fact "
               "over the live table (G4), evaluated on every run")


@spec(PS + "extended_transform_parameters")
class _etp:
    args = {"state": STATE}
    requires = PIC_PRE + ['has(state, "wavelet_index") and has(state, "wavelet_index_ho") and has(state, "dwt_depth_ho")',
                          '0 <= state["wavelet_index"] and state["wavelet_index"] <= 6 and 0 <= state["wavelet_index_ho"] and state["wavelet_index_ho"] <= 6 and state["dwt_depth_ho"] >= 0']
    modifies = FRAME_IO + ['state["_level_constrained_values"]', "state.g_lcv_level", 'state["_expected_major_version"]', 'state["wavelet_index_ho"]', 'state["dwt_depth_ho"]']
    raises = {"ConformanceError": None}
    ensures = IO_POST + ["hdr_known(state)", 'has(state, "wavelet_index_ho") and has(state, "dwt_depth_ho")',
                         '0 <= state["wavelet_index_ho"] and state["wavelet_index_ho"] <= 6 and state["dwt_depth_ho"] >= 0']


@spec(PS + "slice_parameters")
class _slp:
    args = {"state": STATE}
    requires = PIC_PRE + ["wavelet_known(state)"]
    modifies = FRAME_IO + ['state["_level_constrained_values"]', "state.g_lcv_level"] + ['state["%s"]' % k for k in TP_KEYS[4:10]]
    raises = {"ConformanceError": None}
    ensures = IO_POST + ["hdr_known(state)", "slices_known(state)"]


@spec(PS + "quant_matrix")
class _qm:
    args = {"state": STATE}
    requires = PIC_PRE + ["wavelet_known(state)"]
    modifies = FRAME_IO + ['state["_level_constrained_values"]', "state.g_lcv_level", 'state["quant_matrix"]']
    raises = {"ConformanceError": None}
    ensures = IO_POST + ["hdr_known(state)", 'has(state, "quant_matrix")', 'qm_shape(state["quant_matrix"], state["dwt_depth"], state["dwt_depth_ho"])']
    invariants = {
        1: IO_POST + ['has(state, "quant_matrix") and is_fresh(state["quant_matrix"])', 'lo_has(state["quant_matrix"], 0, "L")',
                      'forall(1, level, lambda L: lo_has(state["quant_matrix"], L, "H"))', 'lcv_ok(state)'],
        2: IO_POST + ['has(state, "quant_matrix") and is_fresh(state["quant_matrix"])', 'lcv_ok(state)',
                      'ite(state["dwt_depth_ho"] == 0, lo_has(state["quant_matrix"], 0, "LL"), '
                      'lo_has(state["quant_matrix"], 0, "L") and forall(1, state["dwt_depth_ho"] + 1, lambda L: lo_has(state["quant_matrix"], L, "H")))',
                      'forall(state["dwt_depth_ho"] + 1, level, lambda L: hi3(state["quant_matrix"], L))'],
    }


@spec(PS + "transform_parameters")
class _tp:
    args = {"state": STATE}
    requires = PIC_PRE
    modifies = TP_MOD
    raises = {"ConformanceError": None}
    ensures = IO_POST + ["hdr_known(state)", "tp_known(state)"]



from contracts.c02_corpus import MONITOR_DRIVER  # noqa: E402,F401  (native fallback: run-time monitoring over corpus streams)
