#!/usr/bin/env python3
"""Prints the prompt given to a seeding sub-agent (property text + scratch worktree only; nothing from /verif)."""
import json, sys
pid, wt = sys.argv[1], sys.argv[2]
n = sys.argv[3] if len(sys.argv) > 3 else "two"
for l in open('/verif/properties.jsonl'):
    p = json.loads(l)
    if p['id'] == pid:
        break
print(f"""You are helping to evaluate how well a software project's correctness is protected against regressions.

The project is bbc/vc2_conformance (BBC's VC-2 / SMPTE ST 2042-1 conformance toolkit, Python). You have your own scratch git worktree of it at {wt} (detached HEAD of the pinned commit). Work ONLY inside {wt}; do not touch /repo and do not read or write anything under /verif.

Here is a semantic property the project is supposed to satisfy:

  Title: {p['title']}
  Statement: {p['statement']}
  Quantified over: {p['quantifier']['text']}
  Code it is anchored in: {', '.join(p['anchors']['files'])}

Your task: produce {n} DIFFERENT, independent changes ("seeded defects") to the source under {wt}/vc2_conformance/ each of which
  (a) breaks the property above (for at least one input / history / configuration),
  (b) still imports/compiles, and
  (c) still passes the project's ENTIRE existing test suite, unedited (run it from the worktree root:  cd {wt} && /venv/bin/python -m pytest -q -p no:cacheprovider --timeout=900 -x  ; it takes a few minutes; make sure `cd {wt} && /venv/bin/python -c "import vc2_conformance; print(vc2_conformance.__file__)"` prints a path under {wt} so you are testing your copy).
Prefer realistic, subtle changes of the kind a maintainer could plausibly make by mistake (an off-by-one, a dropped update, a wrong comparison, a swapped argument, a missing case, two cooperating sites that each look fine alone) that need something SPECIFIC to manifest (an unusual input, a particular multi-step sequence, a corner value) -- not changes that ordinary use would expose at once, and not changes to tests. Do not change test files. Each change should be small (a few lines).

For each change k (k = 1, 2, ...) leave these files in {wt}/seed_k/ :
  - patch.diff : the change as a unified diff produced by `git -C {wt} diff -- vc2_conformance` with ONLY that change applied (so it applies cleanly to the pinned commit with `git apply`),
  - demo.py    : a small standalone program (run as: cd {wt} && PYTHONPATH={wt} /venv/bin/python seed_k/demo.py) that exits 0 on the unchanged code and exits non-zero (e.g. failing assert) with the change applied, demonstrating the property violation through the project's public functions,
  - notes.md   : 5-10 lines: what the change is, which clause of the property it breaks, what specific input/sequence is needed to manifest it, and the exact test command you ran with its final summary line.
Workflow per change: apply it in the worktree, run the demo (must fail), run the full test suite (must pass with the same pass/skip counts as the unchanged tree), save `git diff` to seed_k/patch.diff, then `git -C {wt} checkout -- vc2_conformance` to restore before the next change, and re-run the demo on the restored tree (must pass). Leave the worktree restored (no modifications to tracked files) at the end; the seed_k directories are untracked and stay.

Report back briefly: for each seed, one paragraph (what changed, why tests do not catch it, what manifests it) and confirm the three files exist. If you cannot find a change that passes the whole test suite for this property, say so and explain what you tried.""")
